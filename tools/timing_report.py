#!/usr/bin/env python3
"""tools/timing_report.py LOG [ratio]: from a VERIF_TIMING_LOG, list every obligation whose DECIDING attempt used more than `ratio`
(default 0.25) of that attempt's budget - the obligations whose verdict can flip on a slower or busier machine."""
import json, sys
ratio = float(sys.argv[2]) if len(sys.argv) > 2 else 0.25
seen = {}
for line in open(sys.argv[1]):
    r = json.loads(line)
    if r["expect"] != "unsat" or not r.get("attempts"):
        continue
    dec = [a for a in r["attempts"] if a[1] in ("sat", "unsat")]
    if not dec:
        key = (r["prop"], r["id"]); seen[key] = max(seen.get(key, (0, None))[0], 9.99), r
        continue
    a = dec[-1]
    frac = a[2] / a[3]
    if frac >= ratio:
        key = (r["id"], r["sha"])
        if key not in seen or seen[key][0] < frac:
            seen[key] = (frac, r)
for key, (frac, r) in sorted(seen.items(), key=lambda kv: -kv[1][0]):
    print(f"{frac:5.2f} {r['prop']} {r['id']} {r['verdict']} {r['attempts']}")
