#!/bin/bash
# tools/try_seeded.sh <patch.diff> <Cxx> [<Cyy> ...] : apply a seeded change to /repo, run the checks, revert.
patch="$1"; shift
cd /repo && git status --short | grep -v '^??' | head -1 | grep -q . && { echo "repo dirty"; exit 9; }
git -C /repo apply "$patch" || { echo "patch does not apply"; exit 9; }
for c in "$@"; do
  out=$(cd /verif && ./check $c 2>&1); rc=$?
  echo "== $c exit=$rc"; echo "$out" | grep -E "VIOLATION|UNDECIDED|CHECKER|KNOWN|failing obligation|replayed" | cut -c1-260 | head -8
done
git -C /repo checkout -- .
git -C /verif checkout -- evidence 2>/dev/null
