#!/usr/bin/env python3
"""tools/seeded_rows.py <detail.jsonl>: print, per seeded change, what the quick check actually reported (failing obligations by
function and kind, whether a native input was replayed) - used to fill the 'caught by' column of DESIGN.md 12.3 from real output."""
import json
import sys
from collections import OrderedDict

rows = OrderedDict()
for line in open(sys.argv[1]):
    d = json.loads(line)
    rows[d["name"]] = d
for name in sorted(rows):
    d = rows[name]
    fns = OrderedDict()
    harness = []
    for o in d["obligations"]:
        parts = o.split("/")
        if len(parts) > 1 and parts[1] in ("pre", "post", "post-exc", "inv-entry", "inv-preserve", "safe", "attr", "frame", "crash", "variant", "assert", "exit"):
            fns.setdefault(parts[0], []).append(parts[1])
        elif o not in harness:
            harness.append(o)
    pro = "; ".join(f"`{f}` {'/'.join(sorted(set(k)))}" for f, k in fns.items())
    if d["n_obligations"] > len(d["obligations"]):
        pro += f" (+{d['n_obligations'] - len(d['obligations'])} more)"
    nat = ("run-time contract harness " + ", ".join(f"`{h}`" for h in harness) + " (failing real input replayed)") if (d["replayed"] or harness) else ""
    how = " + ".join(x for x in (("prover: " + pro) if pro else "", nat) if x) or "VIOLATION line only"
    print(f"{name}\t{d['prop']}\t{'detected' if d['violation'] and d['rc'] == 1 else 'NOT detected rc=%s' % d['rc']}\t{how}")
