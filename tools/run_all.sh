#!/bin/bash
# tools/run_all.sh [tier]: run every registered check on the current tree in parallel batches; print a summary line per check.
cd /verif
tier=${1:-quick}
ids=$(python3 -c "import json; print(' '.join(c['property_id'] for c in json.load(open('MANIFEST.json'))['checks']))")
fail=0
for id in $ids; do
  out=$(./check $id --tier $tier 2>&1); rc=$?
  echo "$out" | tail -1
  if [ $rc -ne 0 ]; then fail=1; echo "$out" | grep -E "VIOLATION|UNDECIDED|CHECKER|KNOWN" | head -5; fi
done
exit $fail
