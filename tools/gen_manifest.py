"""Regenerates MANIFEST.json from props/*.py (claimed checks) and properties.jsonl (everything else -> not_applicable)."""
import importlib
import json
import os
import sys

ROOT = os.path.dirname(os.path.dirname(os.path.abspath(__file__)))
sys.path.insert(0, ROOT)
props = [json.loads(l) for l in open(os.path.join(ROOT, "properties.jsonl"))]
NA_REASON = {}
try:
    NA_REASON = json.load(open(os.path.join(ROOT, "tools", "not_applicable.json")))
except OSError:
    pass
checks, na, served = [], [], []
FINDINGS = json.load(open(os.path.join(ROOT, "known_findings.json")))["findings"]


def open_findings(pid):
    return [f["id"] for f in FINDINGS if f.get("status", "open").startswith("open") and pid in (f.get("properties") or [f.get("property")])]
for p in props:
    pid = p["id"]
    path = os.path.join(ROOT, "props", pid + ".py")
    if not os.path.exists(path):
        na.append({"property_id": pid, "reason": NA_REASON.get(pid, "not implemented in the time available: contracts designed in DESIGN.md section 7 but no discharged obligations yet, so nothing is claimed")})
        continue
    prop = importlib.import_module("props." + pid).PROP
    served.append(pid)
    level = prop.get("level", "proof")
    text = prop.get("explanation", "")
    checks.append({
        "property_id": pid,
        "quick_cmd": f"./check {pid} --tier quick",
        "thorough_cmd": f"./check {pid} --tier thorough",
        "evidence_file": f"/verif/evidence/{pid}.json",
        "replay_cmd_template": f"./check {pid} --replay {{path}}",
        "engine": "pyvc",
        "level_claimed": {
            "category": level,
            "text": ("Every verification condition generated from the real source of the functions under contract (re-parsed from /repo on each run) is discharged by z3/cvc5 "
                     "for unbounded inputs; lemmas over the contracts lift per-call facts to histories. " + text)[:1500],
            "design_ref": f"DESIGN.md section 7 / {pid}",
        },
        "level_note": ("Trusted: pyvc's encoding of Python (DESIGN 3.2), z3/cvc5, assumed contracts of library/boundary functions and every clause listed under "
                       "coverage.trusted_base / assumptions in the evidence. " + " | ".join(prop.get("assumptions", []))
                       + ((" | OPEN FINDINGS " + ", ".join(open_findings(pid)) + ": the property does not hold on the inputs recorded in known_findings.json; the check prints "
                           "KNOWN-FINDING lines for them and their obligations are set aside (not counted as discharged); everything else is proved.") if open_findings(pid) else ""))[:2500],
        "technique": "contract-based deductive verification: sidecar pre/postconditions, loop invariants, frames and ghost state on the real functions; VCs generated from the "
                     "real AST and discharged by z3 (cvc5 second); run-time evaluation of the same contracts on the real code as bounded stand-in and replay",
    })
man = {
    "version": 1,
    "setup_cmd": "true",
    "hooks": {"guard": "NREL_JADE_VERIF",
              "enable": "none needed: contracts are sidecar files under /verif/contracts; /repo is parsed by the prover and imported unmodified by the native replay harness",
              "baseline_off_cmd": "cd /repo && /venv/bin/python -m pytest -ra -q -p no:cacheprovider --timeout=900 --continue-on-collection-errors",
              "source_commits": [], "add_only": True},
    "engines": [{"name": "pyvc", "path": "/verif/pyvc", "serves_properties": served,
                 "kind_free_text": "contract-based deductive verifier for a Python subset (ast -> symbolic execution against sidecar contracts -> z3/cvc5) plus native run-time contract harness (replay/)"}],
    "checks": checks,
    "not_applicable": na,
    "notes": "fix: commits in /repo repair genuine defects found by failing obligations (see known_findings.json and DESIGN.md section 8).",
}
json.dump(man, open(os.path.join(ROOT, "MANIFEST.json"), "w"), indent=1)
print("checks:", served, "not_applicable:", [x["property_id"] for x in na])
