#!/bin/bash
# tools/check_seeded.sh [name-prefix]: for every kept seeded change, apply it to /repo, run the check of its property, expect exit 1 + VIOLATION, revert.
cd /verif
ok=0; bad=0
for d in seeded/${1:-}*/; do
  name=$(basename $d)
  prop=$(python3 -c "import json,sys; print(json.load(open('$d/meta.json'))['property'])")
  cd /repo && git status --short | grep -v '^??' | head -1 | grep -q . && { echo "repo dirty"; exit 9; }
  git -C /repo apply /verif/$d/patch.diff || { echo "$name: patch does not apply"; bad=$((bad+1)); cd /verif; continue; }
  out=$(cd /verif && ./check $prop --tier quick 2>&1); rc=$?
  git -C /repo checkout -- .
  nviol=$(echo "$out" | grep -c "^VIOLATION property=$prop")
  if [ $rc -eq 1 ] && [ $nviol -ge 1 ]; then ok=$((ok+1)); echo "DETECTED $name ($prop): $(echo "$out" | grep '^VIOLATION' | head -1 | cut -c1-120)";
  else bad=$((bad+1)); echo "MISSED   $name ($prop): exit=$rc $(echo "$out" | tail -1 | cut -c1-160)"; fi
  cd /verif
done
git -C /verif checkout -- evidence 2>/dev/null
echo "seeded changes detected: $ok, missed: $bad"
[ $bad -eq 0 ]
