#!/usr/bin/env python3
"""tools/check_neutral.py [name-prefix]: false-alarm regression.

For every kept behaviour-preserving change (neutral/<name>/patch.diff) apply it to /repo, run the quick check of
every property that has a function under contract overlapping the changed lines (from the committed evidence) plus
the property the change was written for, expect exit 0 and no VIOLATION line, revert.  Exit 2 (undecided) is
reported separately: it is not an alarm, but it means a sidecar contract has to follow the rename.
"""
import glob, json, os, re, subprocess, sys

V = os.environ.get("VERIF_ROOT") or os.path.dirname(os.path.dirname(os.path.abspath(__file__)))
prefix = sys.argv[1] if len(sys.argv) > 1 else ""


def changed(diff):
    out, cur = {}, None
    for line in diff.splitlines():
        if line.startswith("--- a/"):
            cur = line[6:].strip()
        m = re.match(r"@@ -(\d+)(?:,(\d+))? ", line)
        if m and cur:
            a, n = int(m.group(1)), int(m.group(2) or 1)
            out.setdefault(cur, []).append((a, a + max(n, 1)))
    return out


def props_for(ch):
    sel = set()
    for p in sorted(glob.glob(f"{V}/evidence/C*.json")):
        e = json.load(open(p))
        for f in e["coverage"].get("functions_under_contract", []):
            lo, hi = (int(x) for x in f["lines"].split("-"))
            for (a, b) in ch.get(f["file"], []):
                if a <= hi and b >= lo:
                    sel.add(e["property_id"])
    return sel


if subprocess.run("git -C /repo status --short | grep -v '^??' | grep -q .", shell=True).returncode == 0:
    print("repo dirty")
    sys.exit(9)
alarms = undecided = quiet = 0
for d in sorted(glob.glob(f"{V}/neutral/{prefix}*/")):
    name = os.path.basename(d.rstrip("/"))
    diff = open(d + "patch.diff").read()
    m = re.search(r"C\d\d", name)
    own = {m.group(0)} if m else set()
    others = sorted(props_for(changed(diff)) - own)
    cap = int(os.environ.get("NEUTRAL_MAX_PROPS", "0"))          # 0: every overlapping property
    if cap:
        k = sum(map(ord, name)) % max(len(others), 1)             # a stable, name-dependent choice among the overlapping properties
        others = (others[k:] + others[:k])[:max(cap - len(own), 0)]
    props = own | set(others)
    if subprocess.run(["git", "-C", "/repo", "apply", d + "patch.diff"]).returncode != 0:
        print(f"{name}: patch does not apply")
        alarms += 1
        continue
    try:
        res = {}
        for p in sorted(props):
            r = subprocess.run([f"{V}/check", p, "--tier", "quick"], capture_output=True, text=True, cwd=V)
            res[p] = (r.returncode, [l for l in r.stdout.splitlines() if l.startswith("VIOLATION")], r.stdout.strip().splitlines()[-1:] or [""])
    finally:
        subprocess.run(["git", "-C", "/repo", "checkout", "--", "."])
    bad = {p: v for p, v in res.items() if v[0] not in (0, 2) or v[1]}
    und = {p: v for p, v in res.items() if v[0] == 2 and not v[1]}
    if bad:
        alarms += 1
        for p, v in bad.items():
            print(f"FALSE-ALARM {name} ({p}): exit={v[0]} {(v[1] or v[2])[0][:200]}")
    elif und:
        undecided += 1
        for p, v in und.items():
            print(f"UNDECIDED   {name} ({p}): exit=2 {v[2][0][:200]}")
    else:
        quiet += 1
        print(f"QUIET       {name}: {' '.join(sorted(props))}")
if os.path.isdir(V + "/.git"):
    subprocess.run(["git", "-C", V, "checkout", "--", "evidence"])
print(f"neutral changes: quiet {quiet}, undecided {undecided}, false alarms {alarms}")
sys.exit(1 if alarms else 0)
