#!/usr/bin/env python3
"""tools/par_seeded.py [-j N] [--neutral] [name-prefix ...]

Parallel, isolated variant of check_seeded.sh / check_neutral.py: every kept change is applied to a *scratch copy* of
/repo (never to /repo itself) and checked by a scratch copy of /verif (so evidence files of the real /verif are not
touched), `VERIF_REPO` pointing the prover and the native harnesses at the copy. Scratch directories live under
/tmp/scr/ps and are removed as soon as a change is done.

seeded changes : expect exit 1 and a `VIOLATION property=<id>` line from the property's quick check.
--neutral      : behaviour-preserving changes (neutral/*): expect no VIOLATION line and exit 0 or 2 (2 = undecided).
"""
import concurrent.futures as cf
import json
import os
import shutil
import subprocess
import sys
import time

ROOT = os.path.dirname(os.path.dirname(os.path.abspath(__file__)))
SCR = "/tmp/scr/ps"


def sh(cmd, **kw):
    return subprocess.run(cmd, shell=True, capture_output=True, text=True, **kw)


def one(kind, name, props):
    d = os.path.join(ROOT, kind, name)
    r = os.path.join(SCR, "r_" + name)
    v = os.path.join(SCR, "v_" + name)
    for p in (r, v):
        shutil.rmtree(p, ignore_errors=True)
    os.makedirs(SCR, exist_ok=True)
    sh(f"rsync -a --exclude .git --exclude __pycache__ /repo/ {r}/")
    sh(f"rsync -a --exclude .git --exclude seeded --exclude neutral --exclude __pycache__ --exclude 'evidence/replay' {ROOT}/ {v}/")
    ap = sh(f"patch -p1 -s -d {r} < {d}/patch.diff")
    res = []
    if ap.returncode != 0:
        res.append((props[0], 9, "patch does not apply: " + ap.stdout[-200:]))
    else:
        for prop in props:
            t0 = time.time()
            env = dict(os.environ, VERIF_REPO=r)
            p = sh(f"{v}/check {prop} --tier quick", env=env)
            out = p.stdout + p.stderr
            viol = [l for l in out.splitlines() if l.startswith(f"VIOLATION property={prop}")]
            last = out.strip().splitlines()[-1] if out.strip() else ""
            und = [l for l in out.splitlines() if l.startswith("UNDECIDED")][:2]
            fo = [l.strip()[len("failing obligation "):].split(":")[0] for l in out.splitlines() if l.strip().startswith("failing obligation ")]
            rp = [l.strip()[:160] for l in out.splitlines() if l.strip().startswith("replayed on the real code")]
            det = os.environ.get("PAR_SEEDED_DETAIL")
            if det:
                with open(det, "a") as f:
                    f.write(json.dumps({"name": name, "prop": prop, "rc": p.returncode, "violation": bool(viol), "obligations": fo[:14], "n_obligations": len(fo),
                                        "replayed": rp[:1], "undecided": [u[:200] for u in und]}) + "\n")
            res.append((prop, p.returncode, (viol[0] if viol else last)[:200] + f" [{time.time() - t0:.0f}s]" + (" " + " | ".join(u[:120] for u in und) if und and not viol else "")))
    shutil.rmtree(r, ignore_errors=True)
    shutil.rmtree(v, ignore_errors=True)
    return name, res


def main():
    args = sys.argv[1:]
    jobs = 4
    neutral = False
    if "-j" in args:
        i = args.index("-j")
        jobs = int(args[i + 1])
        del args[i:i + 2]
    if "--neutral" in args:
        neutral = True
        args.remove("--neutral")
    kind = "neutral" if neutral else "seeded"
    names = sorted(n for n in os.listdir(os.path.join(ROOT, kind)) if os.path.isfile(os.path.join(ROOT, kind, n, "patch.diff")))
    if args:
        names = [n for n in names if any(n.startswith(a) for a in args)]
    work = []
    for n in names:
        if neutral:
            props = [n.split("_")[1]]
        else:
            props = [json.load(open(os.path.join(ROOT, kind, n, "meta.json")))["property"]]
        work.append((n, props))
    ok = bad = 0
    with cf.ThreadPoolExecutor(jobs) as ex:
        futs = [ex.submit(one, kind, n, p) for n, p in work]
        for f in cf.as_completed(futs):
            name, res = f.result()
            for prop, rc, line in res:
                if neutral:
                    good = rc in (0, 2) and not line.startswith("VIOLATION")
                    tag = ("QUIET   " if rc == 0 else "UNDECID ") if good else "ALARM   "
                else:
                    good = rc == 1 and line.startswith("VIOLATION")
                    tag = "DETECTED" if good else "MISSED  "
                ok += good
                bad += not good
                print(f"{tag} {name} ({prop}) exit={rc}: {line}", flush=True)
    print(f"{kind}: ok={ok} not-ok={bad}")
    sys.exit(0 if bad == 0 else 1)


if __name__ == "__main__":
    main()
