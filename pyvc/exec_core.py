"""Core of the symbolic executor: globals, attribute access, lvalues, obligations."""
import ast
import z3
from . import ty as T
from . import values as V
from . import ops as O
from . import spec as S
from . import frontend as F
from .values import Val, UnsupportedError
from .state import State, Raise, GlobalRef, BoundMethod, Obligation
from .speceval import SpecEval, SpecError, const_value

MODULES = {"os", "sys", "time", "logging", "logger", "shlex", "subprocess", "shutil", "itertools", "json", "copy",
           "socket", "uuid", "glob", "csv", "re", "datetime", "fileinput", "importlib", "random", "jade", "utils",
           "click", "toml", "enum", "abc"}
LOG_ROOTS = {"logger", "logging"}
DROPPED_CALLS = {"print"}          # evaluated for attribute-safety only


class ExecBase:
    def __init__(self, contract, tier="quick"):
        self.contract = contract
        self.tier = tier
        self.obligations = []
        self.n_paths = 0
        self.max_paths = 4096
        self.fname = contract.key
        self._oblig_counter = {}
        self.used_assumed = {}      # key -> count (assumed contracts actually applied)
        self.used_inlined = {}
        self.exit_states = []       # (flow, state) at function exits, for covers/canaries
        self.solver_checks = 0
        self.cur_line = 0
        self.loop_ordinal = 0
        self.loop_ids = {}          # id(ast node) -> ordinal
        self.discovering = 0
        self.notes = []
        self.fold_seen = {}         # fold name -> lists it was applied to (for the point-update lemma)
        self.card_in_seen = {}      # sets C that occurred in card_in(., C)

    # ---- obligations ---------------------------------------------------------------------
    def oblige(self, kind, st, goal, desc, line=None, extra=None):
        if self.discovering:
            return
        if z3.is_true(goal):
            return
        extra = dict(extra or {})
        if z3.is_false(goal) and self.feasible(st):
            extra["definite"] = True       # the goal is literally False: the obligation fails unless the path is infeasible
        n = self._oblig_counter.get(kind, 0) + 1
        self._oblig_counter[kind] = n
        oid = f"{self.fname}/{kind}/{n}"
        self.obligations.append(Obligation(oid, kind, self.fname, line if line is not None else self.cur_line,
                                           desc, st.pc, goal, extra=dict(extra or {}, trace=list(st.trace[-12:]))))

    def feasible(self, st, cond=None):
        """Cheap pruning of infeasible paths; `unknown` keeps the path."""
        if self.discovering:
            return True
        s = z3.Solver()
        s.set("timeout", 400)
        for p in st.pc:
            if _has_quantifier(p):
                continue      # pruning uses the quantifier-free part only (weaker, still sound)
            s.add(p)
        if cond is not None:
            s.add(cond)
        self.solver_checks += 1
        return s.check() != z3.unsat

    # ---- globals -------------------------------------------------------------------------
    def resolve_global(self, name):
        if T.has_enum(name):
            return GlobalRef("enum", name)
        if name in S.ENUM_SOURCES:
            self.declare_enum(name)
            return GlobalRef("enum", name)
        if name in S.RECORDS:
            return GlobalRef("class", name)
        if name in MODULES:
            return GlobalRef("module", name)
        if name in S.CONTRACTS:
            return GlobalRef("function", name)
        if name in ("Exception", "OSError", "IOError") or name in S.EXC_PARENTS:
            return GlobalRef("exception", name)
        if name in BUILTIN_NAMES:
            return GlobalRef("builtin", name)
        if name in GLOBAL_CONSTS:
            return GLOBAL_CONSTS[name]()
        if name in S.OPAQUE_GLOBALS:
            return V.opaque_const("global:" + name)
        if name in S.OPAQUE_FUNCS:
            return GlobalRef("dotted", name)
        return None

    def declare_enum(self, name):
        if not T.has_enum(name):
            file, cls = S.ENUM_SOURCES[name]
            members = F.enum_members(file, cls)
            T.declare_enum(name, [m for m, _ in members], dict(members))

    def global_attr(self, g, attr):
        if g.kind == "enum":
            self.declare_enum(g.name)
            sort, consts, values = T.enum_info(g.name)
            if attr not in consts:
                raise UnsupportedError(f"{g.name} has no member {attr}")
            return V.enum_const(g.name, attr)
        if g.kind == "class":
            rec = S.RECORDS[g.name]
            if attr in rec.consts:
                c = rec.consts[attr]
                return c() if callable(c) else const_value(c)
            return GlobalRef("classattr", f"{g.name}.{attr}")
        if g.kind in ("module", "dotted"):
            dotted = f"{g.name}.{attr}"
            if dotted in GLOBAL_CONSTS:
                return GLOBAL_CONSTS[dotted]()
            return GlobalRef("dotted", dotted)
        raise UnsupportedError(f"attribute {attr} of {g}")

    # ---- attribute reads -----------------------------------------------------------------
    def attr_read_pure(self, v, attr, st):
        """Field read without obligations (spec mode and after safety checks)."""
        v = O.strip_opt(v)
        if v.ty.kind == "enum":
            if attr == "value":
                return enum_value(v)
            if attr == "name":
                raise UnsupportedError("enum .name")
        if v.ty.kind == "ref":
            if S.RECORDS.get(v.ty.name) is not None and S.RECORDS[v.ty.name].union:
                return self.union_read(v, attr, st)
            rec, fty = S.lookup_field(v.ty.name, attr)
            if rec is not None:
                return st.heap.read(rec, attr, fty, v.t)
            raise UnsupportedError(f"{v.ty.name} has no modelled field {attr}")
        raise UnsupportedError(f"attribute {attr} on {v.ty}")

    def union_read(self, v, attr, st):
        """Field read through a reference of a union record: dispatch on the class tag recorded when the member-typed reference
        was widened (ops.widen_list_to_union); the last member is the default branch."""
        members = S.RECORDS[v.ty.name].union
        reads = []
        for m in members:
            rec, fty = S.lookup_field(m, attr)
            if rec is None:
                raise UnsupportedError(f"attribute .{attr} of union record {v.ty.name}: member {m} has no such field")
            reads.append(st.heap.read(rec, attr, fty, v.t))
        if len({repr(r.ty) for r in reads}) != 1:
            raise UnsupportedError(f"attribute .{attr} of union record {v.ty.name}: member field types differ")
        out = reads[-1]
        for i in range(len(members) - 2, -1, -1):
            out = V.ite(O.CLS_TAG(v.t) == i, reads[i], out)
        return out

    def real_attrs(self, recname):
        """Attribute names the real class provides (for attribute-safety)."""
        seen, names, complete = set(), set(), True
        todo = [recname]
        while todo:
            r = todo.pop()
            if r in seen:
                continue
            seen.add(r)
            rec = S.RECORDS.get(r)
            if rec is None:
                complete = False
                continue
            names |= rec.extra_attrs
            if rec.file is None or not rec.check_attrs:
                complete = False
            else:
                sub, ok = F.class_attributes(rec.file, rec.cls)
                names |= sub
                if rec.pydantic:
                    names |= F.PYDANTIC_API
                complete = complete and ok
            todo.extend(rec.bases)
        return names, complete

    def wf(self, st, v):
        """Well-formedness facts of a freshly introduced value (list lengths are non-negative)."""
        if isinstance(v, Val):
            if v.ty.kind == "list":
                st.assume(V.list_len(v) >= 0)
            elif v.ty.kind == "opt" and v.ty.args[0].kind == "list":
                st.assume(V.list_len(V.opt_val(v)) >= 0)
            elif v.ty.kind == "tuple":
                for it in V.tuple_items(v):
                    self.wf(st, it)
        return v

    # ---- lvalues -------------------------------------------------------------------------
    def note_local_write(self, st, name):
        if st.written_locals is not None:
            st.written_locals.add(name)

    def note_heap_write(self, st, rec, field, ref=None):
        """ref=None: the whole field map may change; otherwise only the cell of `ref`."""
        if st.written_heap is not None:
            cells = st.written_heap.setdefault(S.fkey(rec, field), {})
            if ref is None:
                cells[None] = None
            else:
                cells[ref.sexpr()] = ref

    def set_local(self, st, name, val, fresh=False):
        want = self.contract.locals.get(name)
        if want is not None:
            if val.ty.kind == "opt" and want.kind not in ("opt", "opaque", "none"):
                self.oblige("safe", st, z3.Not(V.opt_isnone(val)), f"value assigned to `{name}` (declared {want}) is not None", self.cur_line)
                st.assume(z3.Not(V.opt_isnone(val)))
                val = V.opt_val(val)
            val = O.coerce(val, want)
        elif O.is_strlit(val):
            val = O.coerce(val, T.OPAQUE) if self.contract.strings == "opaque" else O.coerce(val, T.STR)
        st.locals[name] = val
        if fresh:
            st.fresh_locals.add(name)
        else:
            st.fresh_locals.discard(name)
        self.note_local_write(st, name)

    def heap_write(self, st, ref, attr, val):
        rec, fty = S.lookup_field(ref.ty.name, attr)
        if rec is None:
            raise UnsupportedError(f"assignment to unmodelled field {ref.ty.name}.{attr}")
        pre = st.snapshot() if self.fold_seen else None
        st.heap.write(rec, attr, fty, ref.t, val)
        self.note_heap_write(st, rec, attr, ref.t)
        if pre is not None:
            from .speceval import fold_facts_point_update
            st.assume(*fold_facts_point_update(self, rec, attr, ref.t, pre, st))


_qcache = {}


def _has_quantifier(e):
    key = e.get_id()
    r = _qcache.get(key)
    if r is None:
        r = False
        todo = [e]
        seen = set()
        while todo:
            x = todo.pop()
            if x.get_id() in seen:
                continue
            seen.add(x.get_id())
            if z3.is_quantifier(x):
                r = True
                break
            todo.extend(x.children())
        _qcache[key] = r
    return r


def enum_value(v):
    sort, consts, values = T.enum_info(v.ty.name)
    items = list(consts.items())
    pyvals = [values.get(m) for m, _ in items]
    if all(isinstance(x, int) and not isinstance(x, bool) for x in pyvals):
        out = z3.IntVal(pyvals[-1])
        for (m, c), pv in list(zip(items, pyvals))[-2::-1]:
            out = z3.If(v.t == c, z3.IntVal(pv), out)
        return V.mk_int(out)
    if all(isinstance(x, str) for x in pyvals):
        out = V.name_const(pyvals[-1]).t
        for (m, c), pv in list(zip(items, pyvals))[-2::-1]:
            out = z3.If(v.t == c, V.name_const(pv).t, out)
        return Val(T.NAME, [out])
    raise UnsupportedError(f".value of enum {v.ty.name}")


BUILTIN_NAMES = {"len", "str", "int", "float", "set", "list", "dict", "sorted", "min", "max", "isinstance", "getattr",
                 "setattr", "range", "enumerate", "reversed", "iter", "next", "hash", "sum", "open", "bool", "tuple",
                 "any", "all", "zip", "super", "hasattr", "abs"}

def _environ():
    d = T.DictT(T.NAME, T.OPAQUE)
    return Val(d, [z3.Const(f"os_environ_{i}", srt) for i, srt in enumerate(d.sorts())])


GLOBAL_CONSTS = {
    "os.environ": _environ,
    "sys.maxsize": lambda: V.mk_int(9223372036854775807),
    "sys.platform": lambda: O.strlit("linux"),
    "logging.DEBUG": lambda: V.mk_int(10),
    "logging.INFO": lambda: V.mk_int(20),
}
