"""Symbolic state, obligations and flow signals."""
import z3
from . import ty as T
from . import values as V
from . import spec as S


class Raise:
    """Exceptional outcome of an expression/statement."""
    __slots__ = ("exc", "line", "why")

    def __init__(self, exc, line=None, why=""):
        self.exc = exc
        self.line = line
        self.why = why

    def __repr__(self):
        return f"Raise({self.exc}@{self.line})"


class GlobalRef:
    """A module-level name that is not a symbolic value (module, class, enum, function)."""
    __slots__ = ("kind", "name")

    def __init__(self, kind, name):
        self.kind = kind
        self.name = name

    def __repr__(self):
        return f"<{self.kind} {self.name}>"


class BoundMethod:
    __slots__ = ("recv", "name", "recv_node")

    def __init__(self, recv, name, recv_node=None):
        self.recv = recv
        self.name = name
        self.recv_node = recv_node


class Obligation:
    def __init__(self, oid, kind, func, line, desc, pc, goal, expect="unsat", extra=None):
        self.id = oid
        self.kind = kind
        self.func = func
        self.line = line
        self.desc = desc
        self.pc = list(pc)
        self.goal = goal
        self.expect = expect      # "unsat": pc /\ not goal must be unsat;  "sat": pc must be satisfiable (cover/canary)
        self.extra = extra or {}
        self.smt2 = None
        self.verdict = None
        self.backend = None
        self.time = 0.0
        self.model = None

    def to_smt2(self, axioms=()):
        s = z3.Solver()
        for a in axioms:
            s.add(a)
        for p in self.pc:
            s.add(p)
        if self.expect == "unsat":
            s.add(z3.Not(self.goal))
        else:
            if self.goal is not None:
                s.add(self.goal)
        return s.to_smt2()


def root_record(rec):
    """Allocation is tracked per class hierarchy root (a subclass object is also a base object)."""
    rec = str(rec)
    seen = set()
    while rec in S.RECORDS and S.RECORDS[rec].bases and rec not in seen:
        seen.add(rec)
        rec = S.RECORDS[rec].bases[0]
    return rec


class Heap:
    """Field maps: (record, field, part index) -> z3 array Ref -> sort."""

    def __init__(self, maps=None, tag="H"):
        self.maps = dict(maps or {})
        self.tag = tag

    def clone(self):
        return Heap(self.maps, self.tag)

    def key_arrays(self, rec, field, fty):
        out = []
        rec, field = S.fkey(rec, field)
        for i, s in enumerate(fty.sorts()):
            k = (rec, field, i)
            if k not in self.maps:
                self.maps[k] = z3.Const(f"{self.tag}_{rec}_{field}_{i}", z3.ArraySort(T.RefSort, s))
            out.append(self.maps[k])
        return out

    def read(self, rec, field, fty, ref):
        return V.Val(fty, [z3.Select(a, ref) for a in self.key_arrays(rec, field, fty)])

    def write(self, rec, field, fty, ref, val):
        val = V.coerce(val, fty)
        arrs = self.key_arrays(rec, field, fty)
        rec, field = S.fkey(rec, field)
        for i, (a, p) in enumerate(zip(arrs, val.parts)):
            self.maps[(rec, field, i)] = z3.Store(a, ref, p)

    def havoc_field(self, rec, field, fty):
        rec, field = S.fkey(rec, field)
        for i, s in enumerate(fty.sorts()):
            self.maps[(rec, field, i)] = z3.Const(V.fresh_name(f"H_{rec}_{field}_{i}"), z3.ArraySort(T.RefSort, s))


class State:
    def __init__(self):
        self.locals = {}
        self.heap = Heap()
        self.ghost = {}
        self.pc = []
        self.entry = None          # snapshot at function entry (for old())
        self.loop_entries = []     # snapshots at enclosing loop entries (for loop_old())
        self.fresh_locals = set()  # locals known to hold containers no one else references
        self.written_locals = None  # set when discovering loop frames
        self.written_heap = None
        self.written_ghost = None
        self.written_alloc = None
        self.trace = []            # human-readable path description
        self.pure_memo = {}
        self.rebound = {}          # parameter name -> its (container) value when the name was re-bound by an assignment
        self.alloc = {}            # record -> Array(Ref,Bool): references allocated so far (only grows)

    def clone(self):
        n = State.__new__(State)
        n.locals = dict(self.locals)
        n.heap = self.heap.clone()
        n.ghost = dict(self.ghost)
        n.pc = list(self.pc)
        n.entry = self.entry
        n.loop_entries = list(self.loop_entries)
        n.fresh_locals = set(self.fresh_locals)
        n.written_locals = self.written_locals
        n.written_heap = self.written_heap
        n.written_ghost = self.written_ghost
        n.written_alloc = self.written_alloc
        n.trace = list(self.trace)
        n.pure_memo = dict(self.pure_memo)
        n.alloc = dict(self.alloc)
        n.rebound = dict(self.rebound)
        return n

    def alloc_map(self, rec):
        rec = root_record(rec)
        if rec not in self.alloc:
            self.alloc[rec] = z3.Const(f"A_{rec}", z3.ArraySort(T.RefSort, z3.BoolSort()))
        return self.alloc[rec]

    def allocate(self, rec, ref):
        """ref is a freshly allocated object of record `rec`."""
        rec = root_record(rec)
        a = self.alloc_map(rec)
        self.assume(z3.Not(z3.Select(a, ref)))
        self.alloc[rec] = z3.Store(a, ref, z3.BoolVal(True))

    def havoc_alloc(self, rec):
        rec = root_record(rec)
        a = self.alloc_map(rec)
        new = z3.Const(V.fresh_name(f"A_{rec}"), z3.ArraySort(T.RefSort, z3.BoolSort()))
        r = z3.Const(V.fresh_name("qr"), T.RefSort)
        self.assume(z3.ForAll([r], z3.Implies(z3.Select(a, r), z3.Select(new, r))))
        self.alloc[rec] = new

    def snapshot(self):
        """Immutable copy used for old(): shares z3 terms, no write tracking."""
        n = self.clone()
        n.written_locals = n.written_heap = n.written_ghost = n.written_alloc = None
        return n

    def assume(self, *facts):
        todo = list(facts)
        while todo:
            f = todo.pop(0)
            if z3.is_true(f):
                continue
            if z3.is_and(f):
                todo = list(f.children()) + todo      # keep quantifier-free conjuncts usable for path pruning
                continue
            self.pc.append(f)

    def ghost_get(self, name):
        if name not in self.ghost:
            if name not in S.GHOST:
                raise V.UnsupportedError(f"undeclared ghost variable {name}")
            ty = S.GHOST[name]
            self.ghost[name] = V.Val(ty, [z3.Const(f"G_{name}_{i}", s) for i, s in enumerate(ty.sorts())])
            if ty.kind == "list":
                self.assume(V.list_len(self.ghost[name]) >= 0)
        return self.ghost[name]

    def ghost_set(self, name, val):
        self.ghost_get(name)
        self.ghost[name] = V.coerce(val, S.GHOST[name])
        if S.GHOST[name].kind == "list":
            self.assume(V.list_len(self.ghost[name]) >= 0)
        if self.written_ghost is not None:
            self.written_ghost.add(name)
