"""Developer driver: python3-vt -m pyvc.dev <contract key> [...]  (prints obligations and verdicts)."""
import importlib
import os
import sys
import time
import traceback

sys.path.insert(0, os.path.dirname(os.path.dirname(os.path.abspath(__file__))))

from pyvc import spec as S
from pyvc.verifier import verify_function
from pyvc.discharge import discharge


def load_contracts():
    cdir = os.path.join(os.path.dirname(os.path.dirname(os.path.abspath(__file__))), "contracts")
    import contracts as _c
    names = [f[:-3] for f in sorted(os.listdir(cdir)) if f.endswith(".py") and not f.startswith("_")]
    for name in [n for n in _c.ORDER if n in names] + [n for n in names if n not in _c.ORDER]:
        importlib.import_module("contracts." + name)


def main(argv):
    load_contracts()
    verbose = "-v" in argv
    keys = [a for a in argv if not a.startswith("-")]
    if not keys:
        keys = [k for k, c in S.CONTRACTS.items() if c.kind == "verified" and c.file and not c.inline]
    rc = 0
    for k in keys:
        c = S.CONTRACTS[k]
        t0 = time.time()
        try:
            res = verify_function(c)
        except Exception:
            traceback.print_exc()
            rc = 3
            continue
        obs = res["obligations"] + res["covers"]
        summ = discharge(res["obligations"])
        discharge(res["covers"], use_cvc5=False, z3_timeout=3000)
        canaries = [o for o in obs if o.kind == "canary"]
        bad = [o for o in obs if (o.expect == "unsat" and o.verdict != "unsat") or (o.kind == "cover" and o.verdict == "unsat")]
        if canaries and all(o.verdict == "unsat" for o in canaries):
            bad.append(canaries[0])
        bad = [o for o in bad if o.kind != "callret"]
        sites = {}
        for o in obs:
            if o.kind == "callret":
                sites.setdefault(o.extra.get("site"), []).append(o)
        for cs in sites.values():
            if all(o.verdict == "unsat" for o in cs):
                bad.append(cs[0])
        print(f"== {k}: {res['status']} {res['reason']} obligations={len(res['obligations'])} covers={len(res['covers'])} "
              f"failed={len(bad)} gen={res['time']:.2f}s solve={summ['wall']:.2f}s paths={res['paths']} checks={res.get('solver_checks')}")
        for o in obs:
            flag = "ok " if o not in bad else "BAD"
            if verbose or o in bad:
                print(f"   {flag} {o.id:45s} {o.verdict:8s} {o.backend or '':5s} {o.time:6.2f}s L{o.line} {o.desc[:150]}")
                if o in bad and os.environ.get("VERIF_DUMP"):
                    os.makedirs(os.environ["VERIF_DUMP"], exist_ok=True)
                    open(os.path.join(os.environ["VERIF_DUMP"], o.id.replace("/", "_") + ".smt2"), "w").write(o.smt2)
                if o in bad and o.extra.get("trace"):
                    print("        trace:", " ".join(o.extra["trace"]))
                if o in bad and o.model and "-m" in argv:
                    for kk, vv in list(o.model.items())[:40]:
                        print("          ", kk, "=", vv)
        if bad or res["status"] != "ok":
            rc = rc or 1
    return rc


if __name__ == "__main__":
    sys.exit(main(sys.argv[1:]))
