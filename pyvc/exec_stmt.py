"""Statements, loops (invariants + havoc), exceptions."""
import ast
import z3
from . import ty as T
from . import values as V
from . import ops as O
from . import spec as S
from .values import Val, UnsupportedError
from .state import State, Raise, GlobalRef, BoundMethod
from .speceval import SpecEval, SpecError
from .exec_call import CallMixin

NEXT = ("next",)
BREAK = ("break",)
CONTINUE = ("continue",)


class StmtMixin(CallMixin):
    # ---- blocks --------------------------------------------------------------------------
    def exec_block(self, stmts, st):
        if not stmts:
            yield NEXT, st
            return
        first, rest = stmts[0], stmts[1:]
        for flow, s in self.exec_stmt(first, st):
            self.check_crash_inv(s, first, flow)
            if flow[0] == "next":
                yield from self.exec_block(rest, s)
            else:
                yield flow, s

    def exec_stmt(self, node, st):
        self.cur_line = node.lineno
        self.n_paths += 1
        if self.n_paths > self.max_paths * 50:
            raise UnsupportedError("path budget exceeded")
        m = getattr(self, "exec_" + type(node).__name__, None)
        if m is None:
            raise UnsupportedError(f"unsupported statement {type(node).__name__} at line {node.lineno}")
        yield from m(node, st)

    def check_crash_inv(self, st, node, flow):
        if not self.contract.crash_inv or self.discovering or getattr(self, "inlining", 0):
            return
        facts = []
        for text in self.contract.crash_inv:
            try:
                g = SpecEval(self, st, st.entry, {}, facts).clause(text)
            except SpecError as exc:
                raise UnsupportedError(f"crash invariant: {exc}")
            st.assume(*facts)
            del facts[:]
            kind = "after" if flow[0] != "raise" else "on the exceptional edge out of"
            self.oblige("crash", st, g, f"crash invariant `{text}` {kind} the statement at line {node.lineno}", node.lineno,
                        extra={"clause": text})

    # ---- simple statements ------------------------------------------------------------------
    def exec_Pass(self, node, st):
        yield NEXT, st

    def exec_Break(self, node, st):
        yield BREAK, st

    def exec_Continue(self, node, st):
        yield CONTINUE, st

    def exec_Expr(self, node, st):
        if isinstance(node.value, ast.Constant):
            yield NEXT, st
            return
        if isinstance(node.value, ast.Yield):
            yield from self.exec_yield(node.value, st)
            return
        for r, s in self.ev(node.value, st):
            if isinstance(r, Raise):
                yield ("raise", r), s
            else:
                yield NEXT, s

    def exec_yield(self, node, st):
        # generator function: the result is the list of yielded values (eager view)
        for r, s in self.ev_value(node.value, st):
            if isinstance(r, Raise):
                yield ("raise", r), s
                continue
            cur = s.locals.get("__yielded__", V.EMPTY_LIST)
            s.locals["__yielded__"] = V.list_append(cur, r)
            self.note_local_write(s, "__yielded__")
            yield NEXT, s

    def exec_Return(self, node, st):
        if node.value is None:
            yield ("return", None), st
            return
        for r, s in self.ev_value(node.value, st):
            if isinstance(r, Raise):
                yield ("raise", r), s
            else:
                yield ("return", r), s

    def exec_Assert(self, node, st):
        declared = "AssertionError" in self.contract.raises
        for r, s in self.ev_truth(node.test, st):
            if isinstance(r, Raise):
                yield ("raise", r), s
            elif r:
                yield NEXT, s
            else:
                if declared:
                    yield ("raise", Raise("AssertionError", node.lineno, "assert")), s
                else:
                    self.oblige("safe", s, z3.BoolVal(False), f"in-code assertion `{ast.unparse(node.test)[:70]}` cannot fail", node.lineno,
                                extra={"assert": True})
                    # the failing branch is not followed: under the contract the assert is unreachable

    def exec_Raise(self, node, st):
        if node.exc is None:
            if not self.exc_stack:
                raise UnsupportedError("bare raise outside a handler")
            yield ("raise", self.exc_stack[-1]), st
            return
        e = node.exc
        if isinstance(e, ast.Call):
            name = ast.unparse(e.func)
            # evaluate arguments for attribute safety (dropped afterwards)
            for _r, s in self.eval_dropped_args(e, st):
                if isinstance(_r, Raise):
                    yield ("raise", _r), s
                    return
        elif isinstance(e, ast.Name):
            if e.id in st.locals or e.id in self.exc_names:
                yield ("raise", self.exc_names.get(e.id) or Raise("Exception", node.lineno)), st
                return
            name = e.id
        else:
            raise UnsupportedError(f"raise form at line {node.lineno}")
        name = name.split(".")[-1]
        yield ("raise", Raise(name, node.lineno, "explicit raise")), st

    def exec_Assign(self, node, st):
        self.last_call_fresh = True
        for r, s in self.ev_value(node.value, st):
            if isinstance(r, Raise):
                yield ("raise", r), s
                continue
            fresh = self._rhs_fresh(node.value)
            states = [s]
            for tgt in node.targets:
                nxt = []
                for s1 in states:
                    for e, s2 in self.assign(tgt, r, s1, fresh=fresh):
                        if isinstance(e, Raise):
                            yield ("raise", e), s2
                        else:
                            nxt.append(s2)
                states = nxt
            for s3 in states:
                yield NEXT, s3

    def _rhs_fresh(self, value):
        if isinstance(value, (ast.Name, ast.Attribute, ast.Subscript)):
            return isinstance(value, ast.Subscript) and isinstance(value.slice, ast.Slice)
        if isinstance(value, ast.Call):
            return self.last_call_fresh
        if isinstance(value, (ast.IfExp, ast.BoolOp)):
            return False
        return True

    def exec_AnnAssign(self, node, st):
        if node.value is None:
            yield NEXT, st
            return
        fake = ast.Assign(targets=[node.target], value=node.value, lineno=node.lineno, col_offset=node.col_offset)
        yield from self.exec_Assign(fake, st)

    def assign(self, target, val, st, fresh=False, keep_fresh=False):
        """generator of (None | Raise, state)"""
        if isinstance(target, ast.Name):
            if keep_fresh:
                fresh = target.id in st.fresh_locals or target.id in self.param_containers
            elif target.id in self.param_containers and target.id not in st.rebound and target.id in st.locals:
                st.rebound[target.id] = st.locals[target.id]     # re-binding the name: the caller's object stops here
            self.set_local(st, target.id, val, fresh=fresh)
            yield None, st
            return
        if isinstance(target, (ast.Tuple, ast.List)):
            if val.ty.kind != "tuple" or len(val.ty.args) != len(target.elts):
                raise UnsupportedError(f"unpacking {val.ty} into {len(target.elts)} targets at line {target.lineno}")
            states = [st]
            for t, item in zip(target.elts, V.tuple_items(val)):
                nxt = []
                for s1 in states:
                    for e, s2 in self.assign(t, item, s1, fresh=fresh):
                        if isinstance(e, Raise):
                            yield e, s2
                        else:
                            nxt.append(s2)
                states = nxt
            for s3 in states:
                yield None, s3
            return
        if isinstance(target, ast.Attribute):
            for base, s in self.ev_value(target.value, st):
                if isinstance(base, Raise):
                    yield base, s
                    continue
                if base.ty.kind == "opt":
                    self.oblige("safe", s, z3.Not(V.opt_isnone(base)), f"object is not None when .{target.attr} is assigned", target.lineno)
                    base = V.opt_val(base)
                if base.ty.kind != "ref":
                    raise UnsupportedError(f"attribute assignment on {base.ty} at line {target.lineno}")
                rec, fty = S.lookup_field(base.ty.name, target.attr)
                if rec is None:
                    setter = S.lookup_method(base.ty.name, target.attr + ".setter")
                    if setter is not None:
                        for r2, s2 in self.call_contract(setter, base, [val], {}, s, target):
                            yield (r2 if isinstance(r2, Raise) else None), s2
                        continue
                    raise UnsupportedError(f"assignment to unmodelled attribute {base.ty.name}.{target.attr} at line {target.lineno}")
                self.heap_write(s, base, target.attr, val)
                yield None, s
            return
        if isinstance(target, ast.Subscript) and ast.unparse(target.value) == "os.environ" and "os" not in st.locals:
            # the process environment is not part of the modelled state (read back only by child processes)
            for vals, s in self.ev_many([target.slice], st):
                yield (vals if isinstance(vals, Raise) else None), s
            return
        if isinstance(target, ast.Subscript):
            if isinstance(target.slice, ast.Slice):
                raise UnsupportedError("slice assignment")
            for vals, s in self.ev_many([target.value, target.slice], st):
                if isinstance(vals, Raise):
                    yield vals, s
                    continue
                cont, idx = vals
                if not keep_fresh:
                    self.check_mutable_target(target.value, s, target)
                if cont.ty.kind == "opt":
                    self.oblige("safe", s, z3.Not(V.opt_isnone(cont)), "subscript-assigned container is not None", target.lineno)
                    cont = V.opt_val(cont)
                if cont.ty.kind in ("dict",) or V.is_empty_literal(cont, "dict"):
                    if O.is_strlit(idx):
                        idx = O.coerce(idx, cont.ty.args[0] if cont.ty.kind == "dict" else T.NAME)
                    old = cont
                    new = V.dict_set(cont, idx, self._lit(val))
                    if old.ty.kind == "dict":
                        k = O.coerce(idx, old.ty.args[0])
                        s.assume(V.set_card(V.dict_keys(new)) == V.set_card(V.dict_keys(old)) + z3.If(V.dict_has(old, k), 0, 1))
                        s.assume(*O.facts_for_card(V.dict_keys(new)))
                        s.assume(*O.facts_for_card(V.dict_keys(old)))
                elif cont.ty.kind == "list":
                    n = V.list_len(cont)
                    self.oblige("safe", s, z3.And(0 <= idx.t, idx.t < n), "list assignment index in range (IndexError)", target.lineno)
                    new = V.list_set(cont, idx.t, val)
                else:
                    raise UnsupportedError(f"subscript assignment on {cont.ty} at line {target.lineno}")
                yield from self.assign(target.value, new, s, keep_fresh=True)
            return
        raise UnsupportedError(f"assignment target {type(target).__name__} at line {target.lineno}")

    def exec_AugAssign(self, node, st):
        load = {ast.Name: lambda t: ast.Name(id=t.id, ctx=ast.Load()),
                ast.Attribute: lambda t: ast.Attribute(value=t.value, attr=t.attr, ctx=ast.Load()),
                ast.Subscript: lambda t: ast.Subscript(value=t.value, slice=t.slice, ctx=ast.Load())}.get(type(node.target))
        if load is None:
            raise UnsupportedError("augmented assignment target")
        cur = load(node.target)
        ast.copy_location(cur, node.target)
        for vals, s in self.ev_many([cur, node.value], st):
            if isinstance(vals, Raise):
                yield ("raise", vals), s
                continue
            a, b = vals
            if a.ty.kind == "list" or V.is_empty_literal(a, "list"):
                # list += is in-place extension
                self.check_mutable_target(node.target, s, node)
            r = self.binop_checked(node.op, a, b, s, node)
            for e, s2 in self.assign(node.target, r, s, keep_fresh=True):
                yield (("raise", e) if isinstance(e, Raise) else NEXT), s2

    def exec_If(self, node, st):
        for r, s in self.ev_truth(node.test, st):
            if isinstance(r, Raise):
                yield ("raise", r), s
            elif r:
                yield from self.exec_block(node.body, s)
            else:
                yield from self.exec_block(node.orelse, s)

    def exec_With(self, node, st):
        if len(node.items) != 1:
            raise UnsupportedError("multiple context managers")
        item = node.items[0]
        for r, s in self.ev_value(item.context_expr, st):
            if isinstance(r, Raise):
                yield ("raise", r), s
                continue
            if item.optional_vars is not None:
                if not isinstance(item.optional_vars, ast.Name):
                    raise UnsupportedError("with ... as <pattern>")
                self.set_local(s, item.optional_vars.id, r)
            # context managers modelled here (files) have no effect on exit
            yield from self.exec_block(node.body, s)

    # ---- exceptions ----------------------------------------------------------------------
    def handler_matches(self, handler, exc):
        if handler.type is None:
            return True
        types = handler.type.elts if isinstance(handler.type, ast.Tuple) else [handler.type]
        for t in types:
            name = ast.unparse(t).split(".")[-1]
            if S.exc_is_a(exc, name):
                return True
            if exc == "AnyException" and name == "Exception":
                return True
        return False

    def exec_Try(self, node, st):
        def with_finally(flow, s):
            if not node.finalbody:
                yield flow, s
                return
            for f2, s2 in self.exec_block(node.finalbody, s):
                if f2[0] == "next":
                    yield flow, s2
                else:
                    yield f2, s2     # return/raise/break in finally overrides

        for flow, s in self.exec_block(node.body, st):
            if flow[0] == "raise":
                exc = flow[1]
                handled = False
                for h in node.handlers:
                    if self.handler_matches(h, exc.exc):
                        handled = True
                        self.exc_stack.append(exc)
                        if h.name:
                            self.exc_names[h.name] = exc
                        try:
                            for f2, s2 in self.exec_block(h.body, s):
                                yield from with_finally(f2, s2)
                        finally:
                            self.exc_stack.pop()
                        break
                    # an anonymous exception may or may not be of the handler's type
                    if exc.exc == "AnyException":
                        self.exc_stack.append(exc)
                        if h.name:
                            self.exc_names[h.name] = exc
                        try:
                            for f2, s2 in self.exec_block(h.body, s.clone()):
                                yield from with_finally(f2, s2)
                        finally:
                            self.exc_stack.pop()
                if not handled:
                    yield from with_finally(flow, s)
            elif flow[0] == "next":
                if node.orelse:
                    for f2, s2 in self.exec_block(node.orelse, s):
                        yield from with_finally(f2, s2)
                else:
                    yield from with_finally(flow, s)
            else:
                yield from with_finally(flow, s)

    # ---- loops ---------------------------------------------------------------------------
    def loop_spec(self, node):
        if id(node) not in self.loop_ids:
            self.loop_ordinal += 1
            self.loop_ids[id(node)] = self.loop_ordinal
        k = self.loop_ids[id(node)]
        return k, self.contract.loops.get(k)

    def exec_While(self, node, st):
        k, spec = self.loop_spec(node)
        if spec is None:
            raise UnsupportedError(f"while loop #{k} at line {node.lineno} has no invariant")
        yield from self.run_loop(node, k, spec, {"kind": "while"}, st)

    def exec_For(self, node, st):
        k, spec = self.loop_spec(node)
        # constant tuples are unrolled exactly
        if isinstance(node.iter, ast.Tuple) and all(isinstance(e, ast.Constant) for e in node.iter.elts) and spec is None:
            yield from self.unroll(node, list(node.iter.elts), st)
            return
        if isinstance(node.iter, ast.Name) and node.iter.id in st.locals and st.locals[node.iter.id].ty.kind == "tuple" \
                and node.iter.id in self.const_tuples and spec is None:
            yield from self.unroll(node, self.const_tuples[node.iter.id], st)
            return
        if spec is None:
            raise UnsupportedError(f"for loop #{k} at line {node.lineno} has no invariant")
        for src, s in self.loop_source(node.iter, st):
            if isinstance(src, Raise):
                yield ("raise", src), s
            else:
                yield from self.run_loop(node, k, spec, src, s)

    def unroll(self, node, elts, st):
        def step(i, s):
            if i == len(elts):
                yield from self.exec_block(node.orelse, s)
                return
            for r, s0 in self.ev_value(elts[i], s):
                if O.is_strlit(r) and isinstance(node.target, ast.Name):
                    # keep the literal itself: the unrolled loop variable is a compile-time constant (getattr(obj, param))
                    s0.locals[node.target.id] = r
                    self.note_local_write(s0, node.target.id)
                    assigned = [(None, s0)]
                else:
                    assigned = list(self.assign(node.target, self._lit(r), s0))
                for e, s1 in assigned:
                    for flow, s2 in self.exec_block(node.body, s1):
                        if flow[0] in ("next", "continue"):
                            yield from step(i + 1, s2)
                        elif flow[0] == "break":
                            yield NEXT, s2
                        else:
                            yield flow, s2
        yield from step(0, st)

    def loop_source(self, it, st):
        """-> ({kind, ...} | Raise, state)"""
        if isinstance(it, ast.Call) and ast.unparse(it.func) == "itertools.chain":
            for v, s in self.iter_source_list(it, st):
                yield (v if isinstance(v, Raise) else {"kind": "list", "lst": v, "node": None}), s
            return
        if isinstance(it, ast.Call) and isinstance(it.func, ast.Name) and it.func.id not in st.locals:
            fn = it.func.id
            if fn == "range":
                for vals, s in self.ev_many(it.args, st):
                    if isinstance(vals, Raise):
                        yield vals, s
                    elif len(vals) == 1:
                        yield {"kind": "range", "lo": z3.IntVal(0), "hi": vals[0].t}, s
                    elif len(vals) == 2:
                        yield {"kind": "range", "lo": vals[0].t, "hi": vals[1].t}, s
                    else:
                        raise UnsupportedError("range with a step")
                return
            if fn in ("enumerate", "reversed") and len(it.args) == 1:
                for v, s in self.iter_source_list(it.args[0], st):
                    yield (v if isinstance(v, Raise) else {"kind": fn, "lst": v, "node": it.args[0]}), s
                return
        if isinstance(it, ast.Call) and isinstance(it.func, ast.Attribute) and it.func.attr in ("items", "values", "keys") and not it.args:
            for d, s in self.ev_value(it.func.value, st):
                if isinstance(d, Raise):
                    yield d, s
                elif d.ty.kind == "dict":
                    yield {"kind": "dict", "d": d, "mode": it.func.attr, "node": it.func.value}, s
                elif V.is_empty_literal(d):
                    yield {"kind": "list", "lst": V.EMPTY_LIST, "node": None}, s
                else:
                    # a method named items/values/keys of a record
                    for v, s2 in self.iter_source_list(it, s):
                        yield (v if isinstance(v, Raise) else {"kind": "list", "lst": v, "node": None}), s2
            return
        for v, s in self.ev_value(it, st):
            if isinstance(v, Raise):
                yield v, s
                continue
            v = O.strip_opt(v)
            if v.ty.kind in ("list",) or V.is_empty_literal(v, "list"):
                yield {"kind": "list", "lst": v, "node": it}, s
            elif v.ty.kind == "set" or V.is_empty_literal(v, "set"):
                yield {"kind": "set", "set": v, "node": it}, s
            elif v.ty.kind == "dict" or V.is_empty_literal(v, "dict"):
                yield {"kind": "dict", "d": v, "mode": "keys", "node": it}, s
            elif v.ty.kind == "ref" and S.lookup_method(v.ty.name, "__iter__") is not None:
                # an object iterated through the contract of its __iter__ (a file object: the list of its lines)
                c = S.lookup_method(v.ty.name, "__iter__")
                for lv, s2 in self.call_contract(c, v, [], {}, s, it, recv_node=it):
                    if isinstance(lv, Raise):
                        yield lv, s2
                    elif lv.ty.kind == "list" or V.is_empty_literal(lv, "list"):
                        yield {"kind": "list", "lst": lv, "node": None}, s2
                    else:
                        raise UnsupportedError(f"__iter__ contract of {v.ty.name} must return a list")
            else:
                raise UnsupportedError(f"iteration over {v.ty} at line {it.lineno}")

    def iter_source_list(self, it, st):
        """Evaluate an iterable expression that denotes an ordered sequence to a list value."""
        if isinstance(it, ast.Call) and ast.unparse(it.func) == "itertools.chain":
            for vals, s in self.ev_many(it.args, st):
                if isinstance(vals, Raise):
                    yield vals, s
                    continue
                facts = []
                out = vals[0]
                for v in vals[1:]:
                    out = O.list_concat(out, v, facts)
                s.assume(*facts)
                yield out, s
            return
        for v, s in self.ev_value(it, st):
            if isinstance(v, Raise):
                yield v, s
                continue
            v = O.strip_opt(v)
            if v.ty.kind == "list" or V.is_empty_literal(v, "list"):
                yield v, s
            else:
                raise UnsupportedError(f"ordered iteration over {v.ty} at line {it.lineno}")

    def run_loop(self, node, ordinal, spec, src, st):
        is_for = isinstance(node, ast.For)
        kname = spec.get("index", f"_k{ordinal}")
        vname = spec.get("visited", f"_seen{ordinal}")
        kind = src["kind"]
        line = node.lineno
        inv_texts = list(spec.get("invariant", []))
        unordered = kind in ("set", "dict")
        if kind == "list" and V.is_empty_literal(src["lst"]):
            # iteration over a literally empty list: body never runs
            yield from self.exec_block(node.orelse, st)
            return
        if kind in ("set", "dict") and V.is_empty_literal(src.get("set", src.get("d"))):
            yield from self.exec_block(node.orelse, st)
            return
        # ghost loop variables at entry
        if is_for:
            if unordered:
                dom = src["set"] if kind == "set" else V.dict_keys(src["d"])
                st.locals[vname] = V.empty_set(dom.ty.elem)
                st.locals["_dom%d" % ordinal] = dom
            else:
                st.locals[kname] = V.mk_int(0)
                n = src["hi"] - src["lo"] if kind == "range" else V.list_len(src["lst"])
                st.locals["_n%d" % ordinal] = V.mk_int(n)
                if kind != "range":
                    st.locals["_it%d" % ordinal] = src["lst"]
                    st.assume(n >= 0)
        # invariant on entry
        st.loop_entries.append(None)
        entry_snapshot = st.snapshot()
        entry_snapshot.loop_entries = list(st.loop_entries[:-1])
        st.loop_entries[-1] = entry_snapshot
        self.check_invariant(inv_texts, st, "inv-entry", f"loop #{ordinal} (line {line}) invariant holds on entry", line)
        # frame discovery
        wl, wh, wg, wtypes = self.discover_frame(node, src, st, ordinal, spec)
        if is_for and src.get("node") is not None and isinstance(src["node"], ast.Name) and src["node"].id in wl:
            raise UnsupportedError(f"loop #{ordinal} at line {line} assigns the collection it iterates over")
        # havoc
        head = st.clone()
        for name in sorted(wl):
            if name.startswith("_k") or name.startswith("_seen") or name.startswith("_n") or name.startswith("_it") or name.startswith("_dom"):
                continue
            ty = head.locals[name].ty if name in head.locals else wtypes.get(name)
            if ty is None or ty.kind in ("empty", "strlit"):
                ty = self.contract.locals.get(name) or wtypes.get(name)
            if ty is None or ty.kind in ("empty", "strlit", "none"):
                if name in head.locals and head.locals[name].ty.kind == "none":
                    ty = wtypes.get(name)
                if ty is None or ty.kind in ("empty", "strlit", "none"):
                    if name in head.locals:
                        continue    # value never changes kind: keep (e.g. always None)
                    continue
            if name in head.locals and head.locals[name].ty != ty:
                # type changes inside the loop (e.g. None -> int): widen
                try:
                    a, b = V.unify(head.locals[name], V.fresh(ty, name))
                    ty = a.ty
                except UnsupportedError:
                    pass
            head.locals[name] = self.wf(head, V.fresh(ty, "lv_" + name))
        for (rec, field) in sorted(wh):
            _, fty = S.lookup_field(rec, field)
            cells = wh[(rec, field)]
            stable = None not in cells and all(self.is_stable_ref(t) for t in cells.values())
            if stable:
                # only cells of loop-invariant references (parameters) are written: havoc just those
                for t in cells.values():
                    head.heap.write(rec, field, fty, t, V.fresh(fty, "lc_" + field))
            else:
                head.heap.havoc_field(rec, field, fty)
        for g in sorted(wg):
            head.ghost[g] = V.fresh(S.GHOST[g], "G_" + g)
        for rec in sorted(getattr(self, "_last_written_alloc", ()) or ()):
            head.havoc_alloc(rec)
            if head.written_alloc is not None:
                head.written_alloc.add(rec)
        if is_for:
            if unordered:
                head.locals[vname] = V.fresh(st.locals[vname].ty, "seen")
            else:
                kk = z3.Int(V.fresh_name("k"))
                head.locals[kname] = V.mk_int(kk)
                head.assume(0 <= kk, kk <= st.locals["_n%d" % ordinal].t)
        # re-note writes for an enclosing discovery
        for name in wl:
            self.note_local_write(head, name)
        for (rec, field), cells in wh.items():
            for t in cells.values():
                self.note_heap_write(head, rec, field, t)
        if head.written_ghost is not None:
            head.written_ghost |= wg
        self.assume_invariant(inv_texts, head, ordinal)
        # --- body from an arbitrary iteration ---
        body_states = []
        if is_for:
            b = head.clone()
            if unordered:
                dom = st.locals["_dom%d" % ordinal]
                x = V.fresh(dom.ty.elem, "elem")
                b.assume(V.set_has(dom, x), z3.Not(V.set_has(b.locals[vname], x)))
                if kind == "dict":
                    d = src["d"]
                    if src["mode"] == "items":
                        item = V.mk_tuple([x, V.dict_get(d, x)])
                    elif src["mode"] == "values":
                        item = V.dict_get(d, x)
                    else:
                        item = x
                else:
                    item = x
                b.locals["_cur%d" % ordinal] = x
            else:
                kk = b.locals[kname].t
                n = st.locals["_n%d" % ordinal].t
                b.assume(kk < n)
                if kind == "range":
                    item = V.mk_int(src["lo"] + kk)
                elif kind == "enumerate":
                    item = V.mk_tuple([V.mk_int(kk), V.list_get(src["lst"], kk)])
                elif kind == "reversed":
                    item = V.list_get(src["lst"], n - 1 - kk)
                else:
                    item = V.list_get(src["lst"], kk)
            if self.feasible(b):
                for e, b2 in self.assign(node.target, item, b):
                    if isinstance(e, Raise):
                        yield ("raise", e), b2
                    else:
                        body_states.append(b2)
        else:
            for r, b in self.ev_truth(node.test, head.clone()):
                if isinstance(r, Raise):
                    yield ("raise", r), b
                elif r:
                    body_states.append(b)
        variant_text = spec.get("variant")
        for b in body_states:
            v0 = None
            if variant_text:
                v0 = SpecEval(self, b, b.entry, {}).ev(S.parse_clause(variant_text)).t
                self.oblige("variant", b, v0 >= 0, f"loop #{ordinal} variant `{variant_text}` is non-negative when the body runs", line)
            for flow, s in self.exec_block(node.body, b):
                if flow[0] in ("next", "continue"):
                    if is_for:
                        if unordered:
                            facts = []
                            old_seen = s.locals[vname]
                            s.locals[vname] = O.set_add(old_seen, s.locals["_cur%d" % ordinal], facts)
                            from .speceval import card_in_facts_add
                            facts.extend(card_in_facts_add(self, old_seen, s.locals[vname], s.locals["_cur%d" % ordinal]))
                            s.assume(*facts)
                        else:
                            s.locals[kname] = V.mk_int(s.locals[kname].t + 1)
                    self.check_invariant(inv_texts, s, "inv-preserve", f"loop #{ordinal} (line {line}) invariant preserved by the body", line)
                    if not self.discovering and inv_texts:
                        # vacuity guard: some path through the body must be able to reach its end (grouped per loop like the call covers)
                        seen_ = self.callret_seen.setdefault(("loop", ordinal), 0)
                        if seen_ < 3:
                            self.callret_seen[("loop", ordinal)] = seen_ + 1
                            from .state import Obligation
                            self.covers.append(Obligation(f"{self.contract.key}/callret/loop{ordinal}/{seen_ + 1}", "callret", self.contract.key, line,
                                                          f"the body of loop #{ordinal} (line {line}) can run to its end", list(s.pc), None, expect="sat",
                                                          extra={"site": f"{self.contract.key}@loop{ordinal}"}))
                    if variant_text:
                        v1 = SpecEval(self, s, s.entry, {}).ev(S.parse_clause(variant_text)).t
                        self.oblige("variant", s, v1 < v0, f"loop #{ordinal} variant `{variant_text}` decreases", line)
                elif flow[0] == "break":
                    s.loop_entries.pop()
                    yield NEXT, s
                else:
                    s.loop_entries.pop()
                    yield flow, s
        # --- exit ---
        if is_for:
            e = head.clone()
            if unordered:
                dom = st.locals["_dom%d" % ordinal]
                e.assume(e.locals[vname].t == dom.t)
            else:
                e.assume(e.locals[kname].t == st.locals["_n%d" % ordinal].t)
            exits = [e] if self.feasible(e) else []
        else:
            exits = []
            for r, e in self.ev_truth(node.test, head.clone()):
                if isinstance(r, Raise):
                    yield ("raise", r), e
                elif not r:
                    exits.append(e)
        for e in exits:
            e.loop_entries.pop()
            e.trace.append(f"L{line}:loop#{ordinal} exit")
            yield from self.exec_block(node.orelse, e)

    def is_stable_ref(self, t):
        """A reference term that cannot change inside a loop: a parameter of the verified function."""
        return t is not None and z3.is_const(t) and t.decl().kind() == z3.Z3_OP_UNINTERPRETED and t.decl().name().startswith("p_")

    def check_invariant(self, texts, st, kind, desc, line):
        if self.discovering:
            return
        facts = []
        for text in texts:
            try:
                g = SpecEval(self, st, st.entry, {}, facts).clause(text)
            except SpecError as exc:
                if "unknown name" in str(exc):
                    missing = str(exc).split("unknown name")[-1].strip().split()[0]
                    if missing not in getattr(self, "fn_names", {missing}):
                        # the function binds no variable of that name anywhere: the sidecar invariant is out of date
                        # (a renamed local), which is not evidence about the property - undecided, never a violation
                        raise UnsupportedError(f"loop invariant speaks about `{missing}`, which the function binds nowhere (renamed local?): {text}")
                    # a variable the invariant speaks about does not exist (yet) in this state: the invariant does not hold here
                    self.oblige(kind, st, z3.BoolVal(False), f"{desc}: {text} [{str(exc).split('SpecError:')[-1].strip()}: not defined at this point]",
                                line, extra={"clause": text, "definite": True})
                    continue
                raise UnsupportedError(f"loop invariant: {exc}")
            st.assume(*facts)
            del facts[:]
            self.oblige(kind, st, g, f"{desc}: {text}", line, extra={"clause": text})

    def assume_invariant(self, texts, st, ordinal):
        facts = []
        for text in texts:
            try:
                g = SpecEval(self, st, st.entry, {}, facts).clause(text)
            except SpecError as exc:
                raise UnsupportedError(f"loop invariant: {exc}")
            st.assume(*facts)
            del facts[:]
            st.assume(g)

    def discover_frame(self, node, src, st, ordinal, spec):
        """Run the body once without pruning to find every local / heap field / ghost variable
        the loop can write (the havoc set)."""
        d = st.clone()
        d.written_locals, d.written_heap, d.written_ghost, d.written_alloc = set(), {}, set(), set()
        wtypes = {}
        self.discovering += 1
        saved = (self.n_paths, dict(self.loop_ids), self.loop_ordinal, dict(self.used_assumed), dict(self.used_inlined))
        try:
            starts = []
            if isinstance(node, ast.For):
                kind = src["kind"]
                if kind in ("set", "dict"):
                    dom = st.locals["_dom%d" % ordinal]
                    x = V.fresh(dom.ty.elem, "elem")
                    d.locals["_cur%d" % ordinal] = x
                    if kind == "dict":
                        item = {"items": V.mk_tuple([x, V.dict_get(src["d"], x)]), "values": V.dict_get(src["d"], x), "keys": x}[src["mode"]]
                    else:
                        item = x
                elif kind == "range":
                    item = V.fresh(T.INT, "i")
                elif kind == "enumerate":
                    item = V.mk_tuple([V.fresh(T.INT, "i"), V.list_get(src["lst"], z3.Int(V.fresh_name("i")))])
                else:
                    item = V.list_get(src["lst"], z3.Int(V.fresh_name("i")))
                for e, s in self.assign(node.target, item, d):
                    if not isinstance(e, Raise):
                        starts.append(s)
            else:
                for r, s in self.ev_truth(node.test, d):
                    if r is True:
                        starts.append(s)
            for s0 in starts:
                for flow, s in self.exec_block(node.body, s0):
                    for name, v in s.locals.items():
                        if name in d.written_locals and v.ty.kind not in ("empty", "strlit"):
                            if name not in wtypes or wtypes[name].kind == "none":
                                wtypes[name] = v.ty
                            elif wtypes[name] != v.ty and v.ty.kind != "none":
                                try:
                                    wtypes[name] = V.unify(V.fresh(wtypes[name]), v)[0].ty
                                except UnsupportedError:
                                    pass
        finally:
            self.discovering -= 1
            self.n_paths = saved[0]
            self.used_assumed, self.used_inlined = saved[3], saved[4]
            # keep loop ordinals discovered (they are deterministic by ast node identity)
        self._last_written_alloc = d.written_alloc
        return d.written_locals, d.written_heap, d.written_ghost, wtypes
