"""Pure operations on symbolic values shared by the code executor and the spec evaluator."""
import ast
import os
import z3
from . import ty as T
from . import values as V
from .values import Val, UnsupportedError

# --- string literal placeholder ---------------------------------------------------------------
# A Python string literal has no fixed encoding here: it becomes a Name, an SMT string or an
# opaque constant depending on what it meets (dict key type, comparison partner, parameter type).


STRLIT_MODE = ["opaque"]     # set per verified function from contract.strings


def strlit(text):
    return Val(T.Ty("strlit", (), text), [])


def is_strlit(v):
    return isinstance(v, Val) and v.ty.kind == "strlit"


_orig_coerce = V.coerce


def coerce(v, ty):
    if v.ty.kind == "strlit":
        if ty.kind == "name":
            return V.name_const(v.ty.name)
        if ty.kind == "str":
            return V.mk_str(v.ty.name)
        if ty.kind == "opaque":
            return V.opaque_const(v.ty.name)
        if ty.kind == "opt":
            return V.some(coerce(v, ty.args[0]))
        if ty.kind == "strlit":
            return v
        raise UnsupportedError(f"string literal {v.ty.name!r} used where {ty} is expected")
    if v.ty.kind == "ref" and ty.kind == "ref" and v.ty.name != ty.name:
        from . import spec as S
        if is_subrecord(v.ty.name, ty.name) or is_subrecord(ty.name, v.ty.name) or ty.name == "?" or v.ty.name == "?":
            return Val(ty, v.parts)      # up/down-cast: same reference
    if v.ty.kind == "opt" and ty.kind == "opt" and v.ty.args[0].kind == "ref" and ty.args[0].kind == "ref":
        inner = coerce(V.opt_val(v), ty.args[0])
        return Val(ty, (v.parts[0],) + inner.parts)
    if v.ty.kind == "list" and ty.kind == "list" and v.ty.elem.kind == "ref" and ty.elem.kind == "ref":
        coerce(Val(v.ty.elem, [z3.Const("dummy_ref", T.RefSort)]), ty.elem)
        return Val(ty, v.parts)
    return _orig_coerce(v, ty)


def is_subrecord(sub, base):
    from . import spec as S
    seen, todo = set(), [sub]
    while todo:
        r = todo.pop()
        if r == base:
            return True
        if r in seen:
            continue
        seen.add(r)
        rec = S.RECORDS.get(r)
        if rec:
            todo.extend(rec.bases)
    u = S.RECORDS.get(base)
    if u is not None and u.union and any(is_subrecord(sub, m) for m in u.union):
        return True
    return False


CLS_TAG = z3.Function("cls_tag", T.RefSort, z3.IntSort())


def union_of(a, b):
    """Name of a declared union record that has both record names among its members (or is one of them), else None."""
    from . import spec as S
    for name, rec in S.RECORDS.items():
        if rec.union and all(x == name or any(is_subrecord(x, m) for m in rec.union) for x in (a, b)):
            return name
    return None


def union_tag(uname, member):
    from . import spec as S
    for i, m in enumerate(S.RECORDS[uname].union):
        if is_subrecord(member, m):
            return i
    raise UnsupportedError(f"{member} is not a member of union record {uname}")


def widen_list_to_union(lst, uname, facts):
    """List[Ref[M]] -> List[Ref[U]]: same references; every element gets the class tag of M."""
    if lst.ty.elem.name == uname:
        return lst
    tag = union_tag(uname, lst.ty.elem.name)
    i = z3.Int(V.fresh_name("qi"))
    facts.append(z3.ForAll([i], z3.Implies(z3.And(0 <= i, i < V.list_len(lst)), CLS_TAG(V.list_get(lst, i).t) == tag)))
    return Val(T.ListT(T.Ref(uname)), lst.parts)


V.coerce = coerce   # values.* helpers (dict_set, list_append, ...) see string literals too

_orig_unify = V.unify


def unify(a, b):
    if is_strlit(a) and is_strlit(b):
        if STRLIT_MODE[0] == "text":
            return V.mk_str(a.ty.name), V.mk_str(b.ty.name)
        return V.opaque_const(a.ty.name), V.opaque_const(b.ty.name)
    if is_strlit(a):
        t = b.ty.args[0] if b.ty.kind == "opt" else b.ty
        return coerce(a, b.ty if b.ty.kind == "opt" else t), b
    if is_strlit(b):
        t = a.ty.args[0] if a.ty.kind == "opt" else a.ty
        return a, coerce(b, a.ty if a.ty.kind == "opt" else t)
    return _orig_unify(a, b)


V.unify = unify


def facts_for_card(s):
    """Facts about len(set) that the uninterpreted cardinality function needs."""
    c = V.set_card(s)
    (es,) = s.ty.elem.sorts()
    return [c >= 0, (c == 0) == (s.t == z3.K(es, z3.BoolVal(False)))]


def truth(v):
    """Python truthiness as a z3 Bool."""
    k = v.ty.kind
    if k == "bool":
        return v.t
    if k == "int":
        return v.t != 0
    if k == "real":
        return v.t != 0
    if k == "none":
        return z3.BoolVal(False)
    if k == "empty":
        return z3.BoolVal(False)
    if k == "strlit":
        return z3.BoolVal(len(v.ty.name) > 0)
    if k == "opt":
        return z3.And(z3.Not(V.opt_isnone(v)), truth(V.opt_val(v)))
    if k == "set":
        (es,) = v.ty.elem.sorts()
        return v.t != z3.K(es, z3.BoolVal(False))
    if k == "list":
        return V.list_len(v) > 0
    if k == "dict":
        (ks,) = v.ty.args[0].sorts()
        return v.parts[0] != z3.K(ks, z3.BoolVal(False))
    if k == "str":
        return z3.Length(v.t) > 0
    if k in ("ref", "enum"):
        return z3.BoolVal(True)
    if k == "tuple":
        return z3.BoolVal(len(v.ty.args) > 0)
    if k == "name":
        return _truthy_fn("name", T.NameSort)(v.t)
    if k == "opaque":
        return _truthy_fn("opaque", T.OpaqueSort)(v.t)
    raise UnsupportedError(f"truthiness of {v.ty}")


_truthy = {}


def _truthy_fn(tag, sort):
    if tag not in _truthy:
        _truthy[tag] = z3.Function("truthy_" + tag, sort, z3.BoolSort())
    return _truthy[tag]


def is_none(v):
    if v.ty.kind == "none":
        return z3.BoolVal(True)
    if v.ty.kind == "opt":
        return V.opt_isnone(v)
    return z3.BoolVal(False)


def strip_opt(v):
    return V.opt_val(v) if v.ty.kind == "opt" else v


def num_binop(op, a, b):
    if a.ty.kind == "bool":
        a = Val(T.INT, [z3.If(a.t, 1, 0)])
    if b.ty.kind == "bool":
        b = Val(T.INT, [z3.If(b.t, 1, 0)])
    if {a.ty.kind, b.ty.kind} <= {"int"}:
        x, y = a.t, b.t
        if isinstance(op, ast.Add):
            return V.mk_int(x + y)
        if isinstance(op, ast.Sub):
            return V.mk_int(x - y)
        if isinstance(op, ast.Mult):
            return V.mk_int(x * y)
        if isinstance(op, ast.FloorDiv):
            # Python floor division; z3 `/` on ints is Euclidean-style for positive divisors:
            # for y > 0 both agree (floor); negative divisors are excluded by a safety obligation.
            return V.mk_int(x / y)
        if isinstance(op, ast.Mod):
            return V.mk_int(x % y)
        if isinstance(op, ast.Div):
            return V.mk_real(z3.ToReal(x) / z3.ToReal(y))
        raise UnsupportedError(f"int operator {type(op).__name__}")
    if {a.ty.kind, b.ty.kind} <= {"int", "real"}:
        x = coerce(a, T.REAL).t
        y = coerce(b, T.REAL).t
        if isinstance(op, ast.Add):
            return V.mk_real(x + y)
        if isinstance(op, ast.Sub):
            return V.mk_real(x - y)
        if isinstance(op, ast.Mult):
            return V.mk_real(x * y)
        if isinstance(op, ast.Div):
            return V.mk_real(x / y)
        raise UnsupportedError(f"real operator {type(op).__name__}")
    raise UnsupportedError(f"arithmetic on {a.ty} and {b.ty}")


def fresh_set_like(s, hint="S"):
    return Val(s.ty, [z3.Const(V.fresh_name(hint), s.ty.sorts()[0])])


def set_binop(kind, a, b, facts):
    """difference / intersection / union of two sets; defining axiom goes to `facts`."""
    if V.is_empty_literal(a):
        a = V.empty_set(b.ty.elem)
    if V.is_empty_literal(b):
        b = V.empty_set(a.ty.elem)
    if b.ty.kind == "dict":
        b = V.dict_keys(b)
    if a.ty.kind == "dict":
        a = V.dict_keys(a)
    if a.ty != b.ty:
        raise UnsupportedError(f"set operation on {a.ty} and {b.ty}")
    # z3's extensional-array combinators: a term, not a fresh constant with a defining axiom, so the
    # operation can be used under a quantifier of a contract clause (the operands may mention the bound variable)
    if kind == "difference":
        r = Val(a.ty, [z3.SetDifference(a.t, b.t)])
    elif kind == "intersection":
        r = Val(a.ty, [z3.SetIntersect(a.t, b.t)])
    else:
        r = Val(a.ty, [z3.SetUnion(a.t, b.t)])
    facts.extend(facts_for_card(r))
    if kind in ("difference", "intersection"):
        facts.append(V.set_card(r) <= V.set_card(a))
        facts.extend(facts_for_card(a))
        if kind == "difference":       # finite-set facts: |A - B| >= |A| - |B|, with equality when B is a subset of A
            facts.extend(facts_for_card(b))
            facts.append(V.set_card(r) >= V.set_card(a) - V.set_card(b))
            facts.append(z3.Implies(set_subset(b, a), V.set_card(r) == V.set_card(a) - V.set_card(b)))
    else:
        facts.append(V.set_card(r) >= V.set_card(a))
        facts.append(V.set_card(r) >= V.set_card(b))
        facts.append(V.set_card(r) <= V.set_card(a) + V.set_card(b))
        inter = Val(a.ty, [z3.SetIntersect(a.t, b.t)])           # inclusion-exclusion (finite-set lemma schema)
        facts.append(V.set_card(r) + V.set_card(inter) == V.set_card(a) + V.set_card(b))
        facts.extend(facts_for_card(inter))
    return r


def set_subset(a, b):
    if V.is_empty_literal(a):
        return z3.BoolVal(True)
    if b.ty.kind == "dict":
        b = V.dict_keys(b)
    if V.is_empty_literal(b):
        return z3.Not(truth(a))
    if os.environ.get("VERIF_SUBSET_NATIVE") == "1":
        return z3.IsSubset(a.t, b.t)          # combinatory array logic: decided by z3's array theory, no quantifier to instantiate
    (es,) = a.ty.elem.sorts()
    x = z3.Const(V.fresh_name("qx"), es)
    return z3.ForAll([x], z3.Implies(z3.Select(a.t, x), z3.Select(b.t, x)))


def set_add(s, x, facts):
    if V.is_empty_literal(s):
        if is_strlit(x):
            x = coerce(x, T.NAME)
        s = V.empty_set(x.ty)
    x = coerce(x, s.ty.elem)
    r = Val(s.ty, [z3.Store(s.t, x.t, z3.BoolVal(True))])
    facts.append(V.set_card(r) == V.set_card(s) + z3.If(z3.Select(s.t, x.t), 0, 1))
    facts.extend(facts_for_card(s))
    facts.extend(facts_for_card(r))
    return r


def set_remove(s, x, facts):
    x = coerce(x, s.ty.elem)
    r = Val(s.ty, [z3.Store(s.t, x.t, z3.BoolVal(False))])
    facts.append(V.set_card(r) == V.set_card(s) - z3.If(z3.Select(s.t, x.t), 1, 0))
    facts.extend(facts_for_card(s))
    facts.extend(facts_for_card(r))
    return r


def list_concat(a, b, facts):
    if V.is_empty_literal(a):
        return b
    if V.is_empty_literal(b):
        return a
    if a.ty != b.ty and a.ty.elem.kind == "ref" and b.ty.elem.kind == "ref" and not is_subrecord(b.ty.elem.name, a.ty.elem.name):
        u = union_of(a.ty.elem.name, b.ty.elem.name)
        if u is not None:
            a = widen_list_to_union(a, u, facts)
            b = widen_list_to_union(b, u, facts)
    if a.ty != b.ty:
        b = coerce(b, a.ty)
    r = V.fresh(a.ty, "Lcat")
    la, lb = V.list_len(a), V.list_len(b)
    i = z3.Int(V.fresh_name("qi"))
    facts.append(V.list_len(r) == la + lb)
    facts.append(la >= 0)
    facts.append(lb >= 0)
    facts.append(z3.ForAll([i], z3.Implies(z3.And(0 <= i, i < la), V.eq(V.list_get(r, i), V.list_get(a, i)))))
    facts.append(z3.ForAll([i], z3.Implies(z3.And(0 <= i, i < lb), V.eq(V.list_get(r, la + i), V.list_get(b, i)))))
    # the same fact indexed from the result side, so that a term r[j] triggers it
    j = z3.Int(V.fresh_name("qj"))
    facts.append(z3.ForAll([j], z3.Implies(z3.And(la <= j, j < la + lb), V.eq(V.list_get(r, j), V.list_get(b, j - la))),
                           patterns=[r.parts[0][j]] if len(r.parts) > 1 else []))
    return r


def list_slice_from(a, start, facts):
    """a[start:] for 0 <= start (clamped at len)."""
    r = V.fresh(a.ty, "Lslice")
    la = V.list_len(a)
    s = z3.If(start > la, la, start)
    i = z3.Int(V.fresh_name("qi"))
    facts.append(V.list_len(r) == la - s)
    facts.append(z3.ForAll([i], z3.Implies(z3.And(0 <= i, i < la - s), V.eq(V.list_get(r, i), V.list_get(a, s + i)))))
    return r


def list_contains(lst, x):
    if V.is_empty_literal(lst):
        return z3.BoolVal(False)
    x = coerce(x, lst.ty.elem)
    i = z3.Int(V.fresh_name("qi"))
    return z3.Exists([i], z3.And(0 <= i, i < V.list_len(lst), V.eq(V.list_get(lst, i), x)))


def list_pop_at(lst, idx, facts):
    """list.pop(idx): elements after idx shift down."""
    r = V.fresh(lst.ty, "Lpop")
    n = V.list_len(lst)
    i = z3.Int(V.fresh_name("qi"))
    facts.append(V.list_len(r) == n - 1)
    facts.append(z3.ForAll([i], z3.Implies(z3.And(0 <= i, i < idx), V.eq(V.list_get(r, i), V.list_get(lst, i)))))
    facts.append(z3.ForAll([i], z3.Implies(z3.And(idx <= i, i < n - 1), V.eq(V.list_get(r, i), V.list_get(lst, i + 1)))))
    # the same shift indexed from the old list, so that a term lst[j] triggers it
    j = z3.Int(V.fresh_name("qj"))
    facts.append(z3.ForAll([j], z3.Implies(z3.And(idx < j, j < n), V.eq(V.list_get(r, j - 1), V.list_get(lst, j))),
                           patterns=[lst.parts[0][j]] if len(lst.parts) > 1 else []))
    return r


def contains(container, x, facts=None):
    k = container.ty.kind
    if k == "empty":
        return z3.BoolVal(False)
    if k == "set":
        return z3.Select(container.t, coerce(x, container.ty.elem).t)
    if k == "dict":
        return z3.Select(container.parts[0], coerce(x, container.ty.args[0]).t)
    if k == "list":
        return list_contains(container, x)
    if k == "str":
        return z3.Contains(container.t, coerce(x, T.STR).t)
    if k == "tuple":
        return z3.Or([V.eq(it, x) for it in V.tuple_items(container)]) if container.ty.args else z3.BoolVal(False)
    if k in ("opaque", "strlit", "name"):
        # substring test on text that is not modelled as an SMT string: an uninterpreted relation
        from .speceval import apply_uf
        a = coerce(container, T.OPAQUE) if k != "opaque" else container
        b = coerce(x, T.OPAQUE) if x.ty.kind != "opaque" else x
        return apply_uf("substring_of", T.BOOL, [b, a]).t
    raise UnsupportedError(f"`in` on {container.ty}")


def compare(op, a, b):
    """One comparison operator; returns z3 Bool."""
    if isinstance(op, (ast.Is, ast.IsNot)):
        if b.ty.kind == "none":
            r = is_none(a)
        elif a.ty.kind == "none":
            r = is_none(b)
        elif a.ty.kind == "bool" and b.ty.kind == "bool":
            r = a.t == b.t
        elif a.ty.kind == "ref" and b.ty.kind == "ref":
            r = a.t == b.t
        else:
            raise UnsupportedError(f"`is` between {a.ty} and {b.ty}")
        return z3.Not(r) if isinstance(op, ast.IsNot) else r
    if isinstance(op, ast.In):
        return contains(b, a)
    if isinstance(op, ast.NotIn):
        return z3.Not(contains(b, a))
    if isinstance(op, ast.Eq):
        return py_eq(a, b)
    if isinstance(op, ast.NotEq):
        return z3.Not(py_eq(a, b))
    # ordering
    if a.ty.kind == "set" and b.ty.kind == "set":
        if isinstance(op, ast.LtE):
            return set_subset(a, b)
        if isinstance(op, ast.GtE):
            return set_subset(b, a)
        raise UnsupportedError("strict set ordering")
    if a.ty.kind == "opt" or b.ty.kind == "opt":
        raise UnsupportedError(f"ordering comparison with an optional operand ({a.ty} vs {b.ty})")
    if {a.ty.kind, b.ty.kind} <= {"int", "real", "bool"}:
        if a.ty.kind == "bool":
            a = Val(T.INT, [z3.If(a.t, 1, 0)])
        if b.ty.kind == "bool":
            b = Val(T.INT, [z3.If(b.t, 1, 0)])
        if "real" in (a.ty.kind, b.ty.kind):
            x, y = coerce(a, T.REAL).t, coerce(b, T.REAL).t
        else:
            x, y = a.t, b.t
        if isinstance(op, ast.Lt):
            return x < y
        if isinstance(op, ast.LtE):
            return x <= y
        if isinstance(op, ast.Gt):
            return x > y
        if isinstance(op, ast.GtE):
            return x >= y
    raise UnsupportedError(f"comparison {type(op).__name__} between {a.ty} and {b.ty}")


def py_eq(a, b):
    """Python == ; values of different non-numeric kinds are unequal."""
    if a.ty.kind == "none" or b.ty.kind == "none":
        return z3.And(is_none(a), is_none(b))
    if V.is_empty_literal(a) or V.is_empty_literal(b):
        other = b if V.is_empty_literal(a) else a
        if V.is_empty_literal(other):
            return z3.BoolVal(a.ty.name == b.ty.name)
        return z3.Not(truth(other))
    return V.eq(a, b)
