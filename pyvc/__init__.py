"""pyvc - a small contract-based deductive verifier for a subset of Python.

It parses the real source files under /repo with `ast` on every run, symbolically
executes the functions placed under (sidecar) contract and discharges the generated
verification conditions with z3 (cvc5 as a second back end).  See /verif/DESIGN.md.
"""
