"""Registry of sidecar contracts, record (class) declarations, ghost state and spec macros.

Contracts are Python data (see /verif/contracts/*.py).  Clause bodies are Python
*expressions* (strings), parsed with `ast` and evaluated by the same expression semantics
as the code (symexec.SpecEval), plus the spec-only forms old(), result, forall(), exists(),
implies(), iff(), ghost.<name>.
"""
import ast
from . import ty as T


class Record:
    def __init__(self, name, file=None, cls=None, fields=None, bases=(), pydantic=False, consts=None,
                 check_attrs=True, extra_attrs=(), aliases=None, union=()):
        self.name = name
        # a *union record* has no fields of its own: a Ref[U] is a reference to an object of one of the member records (the member
        # is recorded by the class tag `cls_tag(ref)` when a member-typed reference is widened); an attribute read dispatches on the tag
        self.union = tuple(union)
        self.file = file
        self.cls = cls or name
        self.fields = {k: T.parse_ty(v) for k, v in (fields or {}).items()}
        self.bases = tuple(bases)
        self.pydantic = pydantic
        self.consts = dict(consts or {})       # class-level constants usable in code, e.g. LOCK_FILENAME
        self.check_attrs = check_attrs
        self.extra_attrs = set(extra_attrs)    # attributes known to exist through library base classes
        # concrete attribute -> abstract field of a base record stored in the same heap map
        # (e.g. AsyncHpcSubmitter._name IS AsyncJob.name; the real `name` property is verified to return it)
        self.aliases = dict(aliases or {})


class Contract:
    def __init__(self, key, file=None, qualname=None, params=None, returns="None", requires=(), ensures=(),
                 raises=None, modifies=(), loops=None, locals=None, kind="verified", pure=False,
                 fresh_result=False, note="", strings="opaque", inline=False, anon_raises=False,
                 crash_inv=None, variant_checks=True, defs=None, ghost_updates=(), assume_body=(), ghost_ensures=(), reads=None,
                 lock_wrapper=None, trusted_ensures=(), call_alias=None, exit_ensures=()):
        # clauses over the function's own local variables at exit: checked when the function is verified, invisible to callers
        self.exit_ensures = list(exit_ensures)
        self.call_alias = dict(call_alias or {})     # callee name in the code -> contract key to use (text views)
        # clauses callers may assume although they are NOT checked against the body (environment facts,
        # open proof obligations): every use is reported in the evidence as an unchecked assumption
        self.trusted_ensures = list(trusted_ensures)
        # higher-order lock wrapper (DESIGN 3.4.4): dict(ghost=<lock ghost>, func_index=<position of the callable>,
        # marker=<ghost set when an exception leaves the critical section>)
        self.lock_wrapper = lock_wrapper
        self.reads = list(reads) if reads else None   # records a pure contract depends on (default: its Ref parameters)
        self.key = key
        self.file = file
        self.qualname = qualname or key
        # params: list of (name, type) or (name, type, default-expression-string)
        self.params = []
        for p in (params or []):
            name, ty = p[0], T.parse_ty(p[1])
            default = p[2] if len(p) > 2 else None
            self.params.append((name, ty, default))
        self.returns = T.parse_ty(returns)
        self.requires = list(requires)
        self.ensures = list(ensures)
        # raises: {ExcName: dict(when=[...] (optional, two-directional if iff=True), ensures=[...])}
        self.raises = dict(raises or {})
        self.modifies = list(modifies)
        self.loops = dict(loops or {})
        self.locals = {k: T.parse_ty(v) for k, v in (locals or {}).items()}
        self.kind = kind              # verified | assumed
        self.pure = pure
        self.fresh_result = fresh_result
        self.note = note
        self.strings = strings        # "opaque": f-strings are uninterpreted; "text": SMT strings
        self.inline = inline          # accessor: executed from the real source at each call site
        self.anon_raises = anon_raises  # callers must also consider an undeclared exception (C11)
        self.crash_inv = crash_inv    # list of clauses that must hold at every statement boundary
        self.defs = dict(defs or {})
        self.assume_body = list(assume_body)
        # definitions of ghost fields at construction / ghost bookkeeping: assumed by callers, not
        # checked against the body (ghost state has no code); may mention only ghost fields
        self.ghost_ensures = list(ghost_ensures)

    def param_names(self):
        return [p[0] for p in self.params]


RECORDS = {}
CONTRACTS = {}
GHOST = {}      # name -> Ty
DEFS = {}       # macro name -> (param names, expression string)
ENUM_SOURCES = {}   # enum name -> (file, class)
EXC_PARENTS = {     # exception class -> parent (for except matching)
    "Exception": "BaseException",
    "SystemExit": "BaseException",
    "ValidationError": "Exception",
    "KeyboardInterrupt": "BaseException",
    "AssertionError": "Exception",
    "KeyError": "LookupError",
    "IndexError": "LookupError",
    "LookupError": "Exception",
    "ValueError": "Exception",
    "TypeError": "Exception",
    "AttributeError": "Exception",
    "StopIteration": "Exception",
    "OSError": "Exception",
    "IOError": "Exception",          # alias of OSError in py3; close enough for matching
    "FileNotFoundError": "OSError",
    "Timeout": "Exception",          # filelock.Timeout (TimeoutError subclass)
    "InvalidConfiguration": "Exception",
    "InvalidParameter": "Exception",
    "ExecutionError": "Exception",
    "ConfigVersionMismatch": "Exception",
    "JobStatusVersionMismatch": "Exception",
    "AnyException": "Exception",     # the anonymous exception of "every call may raise"
}


def exc_is_a(exc, handler):
    cur = exc
    seen = set()
    while cur is not None and cur not in seen:
        if cur == handler:
            return True
        if handler == "OSError" and cur == "IOError":
            return True
        if handler == "IOError" and cur == "OSError":
            return True
        seen.add(cur)
        cur = EXC_PARENTS.get(cur)
    return False


def record(name, **kw):
    r = Record(name, **kw)
    RECORDS[name] = r
    return r


def contract(key, **kw):
    if key in CONTRACTS:
        # two contract files silently redefining one key changed the meaning of unrelated proofs twice (DESIGN 11): refuse
        raise KeyError(f"contract {key} is defined twice (remove the earlier one explicitly with CONTRACTS.pop if a replacement is intended)")
    c = Contract(key, **kw)
    CONTRACTS[key] = c
    return c


def ghost(name, ty):
    GHOST[name] = T.parse_ty(ty)


def define(name, params, expr):
    # a later file silently redefining a global abbreviation changed the meaning of unrelated contracts (J(cluster) read another file's JOBS): refuse
    if name in DEFS and DEFS[name] != (list(params), expr):
        raise KeyError(f"define {name} is given twice with different bodies (use a contract-local `defs` entry or another name)")
    DEFS[name] = (list(params), expr)


def enum(name, file, cls=None):
    ENUM_SOURCES[name] = (file, cls or name)


OPAQUE_FUNCS = set()    # dotted names of pure library functions applied as uninterpreted functions
OPAQUE_GLOBALS = set()  # global names (classes, constants) passed around but never inspected


def opaque_fn(*names):
    OPAQUE_FUNCS.update(names)


def opaque_global(*names):
    OPAQUE_GLOBALS.update(names)


FOLDS = {}      # name -> (element Ty, term expression over `x`, result Ty)


FOLD_BOUNDS = {}   # name -> (lo, hi): lo <= term(x) <= hi for every x   (then lo*len <= fold <= hi*len)
FOLD_LE = []       # (a, b): term_a(x) <= term_b(x) for every x          (then fold_a(L) <= fold_b(L))


def fold(name, elem, term, ty="int", bounds=None):
    """Sum over a list defined by snoc-recursion: fold([])=0, fold(L+[x]) = fold(L) + term(x)."""
    FOLDS[name] = (T.parse_ty(elem), term, T.parse_ty(ty))
    if bounds:
        FOLD_BOUNDS[name] = bounds


def fold_le(a, b):
    FOLD_LE.append((a, b))


def _load_enum(name):
    from . import frontend as F
    if name not in ENUM_SOURCES:
        raise TypeError(f"enum {name} is not declared in the contracts")
    file, cls = ENUM_SOURCES[name]
    members = F.enum_members(file, cls)
    T.declare_enum(name, [m for m, _ in members], dict(members))


T.ENUM_LOADER = _load_enum


def parse_clause(text):
    try:
        return ast.parse(text.strip(), mode="eval").body
    except SyntaxError as exc:
        raise SyntaxError(f"bad contract clause {text!r}: {exc}")


def lookup_method(recname, method):
    """Contract for recname.method following declared bases."""
    seen = set()
    todo = [recname]
    while todo:
        r = todo.pop(0)
        if r in seen:
            continue
        seen.add(r)
        c = CONTRACTS.get(f"{r}.{method}")
        if c is not None:
            return c
        rec = RECORDS.get(r)
        if rec:
            todo.extend(rec.bases)
    return None


class RecName(str):
    """Declaring record of a field; `.canon` is the canonical field name (aliases resolved)."""
    canon = None


def fkey(rec, field):
    return (str(rec), getattr(rec, "canon", None) or field)


def lookup_field(recname, field):
    seen = set()
    todo = [recname]
    while todo:
        r = todo.pop(0)
        if r in seen:
            continue
        seen.add(r)
        rec = RECORDS.get(r)
        if rec is None:
            continue
        if field in rec.aliases:
            return lookup_field(recname, rec.aliases[field])
        if field in rec.fields:
            rn = RecName(r)
            rn.canon = field
            return rn, rec.fields[field]
        todo.extend(rec.bases)
    return None, None
