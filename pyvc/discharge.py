"""Discharge obligations: z3 first, cvc5 on z3's `unknown`; 16-process pool."""
import hashlib
import multiprocessing as mp
import os
import subprocess
import tempfile
import threading
import time
import z3
from . import values as V

Z3_TIMEOUT_MS = int(os.environ.get("VERIF_Z3_TIMEOUT_MS", "15000"))
CVC5_TIMEOUT_MS = int(os.environ.get("VERIF_CVC5_TIMEOUT_MS", "10000"))
CVC5 = "/usr/bin/cvc5"


def global_axioms():
    return V.name_distinctness() + V.opaque_distinctness()


def _run_z3(smt2, timeout_ms, want_model, noext=False):
    """noext: array extensionality switched off.  That is a weaker theory (fewer axioms), so `unsat` is still a proof;
    any other answer of that configuration is discarded by the caller."""
    t0 = time.time()
    ctx = z3.Context()
    s = z3.Solver(ctx=ctx)
    s.set("timeout", timeout_ms)
    if noext:
        s.set("array.extensional", False)
    # z3's own timeout is not honoured in every phase (observed: 995 s on a 15 s budget): a watchdog interrupts the context
    watchdog = threading.Timer(timeout_ms / 1000.0 + 3.0, ctx.interrupt)
    watchdog.daemon = True
    watchdog.start()
    try:
        s.from_string(smt2)
        r = s.check()
    except z3.Z3Exception as exc:
        if "interrupt" in str(exc).lower() or "cancel" in str(exc).lower():
            return "unknown", "z3: interrupted by the watchdog", time.time() - t0, None
        return "error", f"z3: {exc}", time.time() - t0, None
    finally:
        watchdog.cancel()
    verdict = str(r)
    model = None
    reason = ""
    if r == z3.sat and want_model:
        try:
            m = s.model()
            model = {str(d): str(m[d])[:400] for d in m.decls()[:200]}
        except z3.Z3Exception:
            model = None
    if r == z3.unknown:
        reason = s.reason_unknown()
    return verdict, reason, time.time() - t0, model


def _run_cvc5(smt2, timeout_ms):
    t0 = time.time()
    if not os.path.exists(CVC5):
        return "unknown", "cvc5 not installed", 0.0
    text = smt2
    if "(set-logic" not in text:
        text = "(set-logic ALL)\n" + text
    with tempfile.NamedTemporaryFile("w", suffix=".smt2", delete=False) as f:
        f.write(text)
        path = f.name
    try:
        p = subprocess.run([CVC5, "--lang=smt2", f"--tlimit={timeout_ms}", "--strings-exp", "--full-saturate-quant", path],
                           capture_output=True, text=True, timeout=timeout_ms / 1000 + 10)
        out = (p.stdout or "").strip().splitlines()
        verdict = out[0].strip() if out else "unknown"
        if verdict not in ("sat", "unsat", "unknown"):
            return "unknown", f"cvc5: {(p.stdout + p.stderr)[:200]}", time.time() - t0
        return verdict, "", time.time() - t0
    except subprocess.TimeoutExpired:
        return "unknown", "cvc5 timeout", time.time() - t0
    finally:
        os.unlink(path)


def _work(item):
    oid, smt2, expect, use_cvc5, z3_timeout = item
    t = 0.0
    if expect == "unsat":
        # Portfolio.  Array extensionality off is a weaker theory (fewer axioms): only `unsat` is accepted from it, and it is
        # both faster and far more stable on the quantified obligations here, so it goes first with a third of the budget.
        v0, r0, t0, _ = _run_z3(smt2, max(1000, z3_timeout // 3), want_model=False, noext=True)
        t += t0
        if v0 == "unsat":
            return oid, "unsat", "z3-noext", "", t, None
    verdict, reason, t1, model = _run_z3(smt2, z3_timeout, want_model=True)
    t += t1
    backend = "z3"
    if verdict == "unknown" and expect == "unsat":
        v1, r1, t2, _ = _run_z3(smt2, z3_timeout, want_model=False, noext=True)
        t += t2
        if v1 == "unsat":
            verdict, reason, backend = "unsat", "", "z3-noext"
    if verdict in ("unknown", "error") and use_cvc5:
        v2, r2, t2 = _run_cvc5(smt2, CVC5_TIMEOUT_MS)
        t += t2
        if v2 in ("sat", "unsat"):
            verdict, reason, backend = v2, r2, "cvc5"
        else:
            reason = f"z3: {reason}; {r2 or 'cvc5: unknown'}"
    return oid, verdict, backend, reason, t, model


def _work_both(item):
    """thorough tier: independent second discharge with cvc5."""
    oid, smt2, expect, use_cvc5, z3_timeout = item
    v2, r2, t2 = _run_cvc5(smt2, CVC5_TIMEOUT_MS)
    return oid, v2, r2, t2


def _child(fn, item, conn):
    try:
        conn.send(fn(item))
    except BaseException as exc:      # noqa: the parent must always get an answer
        conn.send(("__error__", repr(exc)))
    finally:
        conn.close()


def _one_isolated(fn, item, hard_timeout):
    """Run fn(item) in its own forked process; a solver that crashes (segfault, out of memory) or ignores every time limit costs
    that one obligation (verdict `unknown`), never the run.  Returns fn's result or None."""
    ctx = mp.get_context("fork")
    r, w = ctx.Pipe(duplex=False)
    p = ctx.Process(target=_child, args=(fn, item, w))
    p.start()
    w.close()
    out = None
    try:
        if r.poll(hard_timeout):
            out = r.recv()
    except (EOFError, OSError):
        out = None
    if p.is_alive():
        p.join(1)
    if p.is_alive():
        p.kill()
    p.join()
    r.close()
    if isinstance(out, tuple) and out and out[0] == "__error__":
        return None
    return out


def robust_map(fn, items, jobs, hard_timeout, fallback):
    """pool.map that survives dying workers: multiprocessing.Pool.map waits forever when a worker is killed in the middle of a task
    (observed: a z3 worker died, the check hung for 20 minutes at zero load).  First a process pool executor (which reports a broken
    pool instead of hanging); whatever it did not finish is re-run one forked process per item."""
    import concurrent.futures as cf
    results = {}
    try:
        with cf.ProcessPoolExecutor(max_workers=min(jobs, len(items)), mp_context=mp.get_context("fork")) as ex:
            futs = {ex.submit(fn, it): i for i, it in enumerate(items)}
            try:
                for f in cf.as_completed(futs, timeout=hard_timeout * (len(items) // max(1, jobs) + 2)):
                    try:
                        results[futs[f]] = f.result()
                    except Exception:
                        pass
            except cf.TimeoutError:
                pass
            if len(results) < len(items):
                for f in futs:
                    f.cancel()
                for pr in list(getattr(ex, "_processes", {}).values()):
                    try:
                        pr.kill()
                    except Exception:
                        pass
    except Exception:
        pass
    left = [i for i in range(len(items)) if i not in results]
    if left:
        from concurrent.futures import ThreadPoolExecutor
        with ThreadPoolExecutor(min(jobs, len(left))) as tp:
            for i, out in zip(left, tp.map(lambda i: _one_isolated(fn, items[i], hard_timeout), left)):
                results[i] = out if out is not None else fallback(items[i])
    return [results[i] for i in range(len(items))]


def discharge(obligations, jobs=None, use_cvc5=True, z3_timeout=None):
    """Fills verdict/backend/time on each obligation.  Returns summary dict."""
    jobs = jobs or min(16, os.cpu_count() or 4)
    axioms = global_axioms()
    items = []
    for o in obligations:
        o.smt2 = o.to_smt2(axioms)
        o.sha = hashlib.sha1(o.smt2.encode()).hexdigest()[:16]
        items.append((o.id, o.smt2, o.expect, use_cvc5, z3_timeout or Z3_TIMEOUT_MS))
    by_id = {o.id: o for o in obligations}
    t0 = time.time()
    if not items:
        return {"wall": 0.0, "solver_time": 0.0}
    if jobs > 1 and len(items) > 1:
        zt = (z3_timeout or Z3_TIMEOUT_MS) / 1000.0
        hard = 3 * zt + CVC5_TIMEOUT_MS / 1000.0 + 60
        results = robust_map(_work, items, jobs, hard,
                             lambda it: (it[0], "unknown", "", "solver process died or exceeded every time limit", hard, None))
    else:
        results = [_work(it) for it in items]
    total = 0.0
    for oid, verdict, backend, reason, t, model in results:
        o = by_id[oid]
        o.verdict, o.backend, o.reason, o.time, o.model = verdict, backend, reason, t, model
        total += t
    return {"wall": time.time() - t0, "solver_time": total}


def second_opinion(obligations, jobs=None):
    """cvc5 on every obligation, independently of z3 (thorough tier). Returns list of disagreements."""
    jobs = jobs or min(16, os.cpu_count() or 4)
    items = [(o.id, o.smt2, o.expect, True, 0) for o in obligations if o.smt2]
    if not items:
        return [], 0, 0.0
    results = robust_map(_work_both, items, jobs, CVC5_TIMEOUT_MS / 1000.0 + 60, lambda it: (it[0], "unknown", "cvc5 process died", 0.0))
    by_id = {o.id: o for o in obligations}
    disagreements, decided, total = [], 0, 0.0
    for oid, v2, r2, t2 in results:
        o = by_id[oid]
        o.cvc5_verdict = v2
        total += t2
        if v2 in ("sat", "unsat"):
            decided += 1
            if o.verdict in ("sat", "unsat") and v2 != o.verdict:
                disagreements.append((oid, o.verdict, v2))
    return disagreements, decided, total
