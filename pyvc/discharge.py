"""Discharge obligations: z3 first, cvc5 on z3's `unknown`; 16-process pool."""
import hashlib
import multiprocessing as mp
import os
import subprocess
import tempfile
import threading
import time
import z3
from . import values as V

Z3_TIMEOUT_MS = int(os.environ.get("VERIF_Z3_TIMEOUT_MS", "15000"))
CVC5_TIMEOUT_MS = int(os.environ.get("VERIF_CVC5_TIMEOUT_MS", "10000"))
CVC5 = "/usr/bin/cvc5"
ESCALATION_FACTOR = int(os.environ.get("VERIF_ESCALATION_FACTOR", "4"))
ESCALATION_MAX = int(os.environ.get("VERIF_ESCALATION_MAX", "16"))      # obligations per discharge() call that may take the second round


def global_axioms():
    return V.name_distinctness() + V.opaque_distinctness()


def _run_z3(smt2, timeout_ms, want_model, noext=False):
    """noext: array extensionality switched off.  That is a weaker theory (fewer axioms), so `unsat` is still a proof;
    any other answer of that configuration is discarded by the caller."""
    t0 = time.time()
    ctx = z3.Context()
    s = z3.Solver(ctx=ctx)
    s.set("timeout", timeout_ms)
    if noext:
        s.set("array.extensional", False)
    # z3's own timeout is not honoured in every phase (observed: 995 s on a 15 s budget): a watchdog interrupts the context
    watchdog = threading.Timer(timeout_ms / 1000.0 + 3.0, ctx.interrupt)
    watchdog.daemon = True
    watchdog.start()
    try:
        s.from_string(smt2)
        r = s.check()
    except z3.Z3Exception as exc:
        if "interrupt" in str(exc).lower() or "cancel" in str(exc).lower():
            return "unknown", "z3: interrupted by the watchdog", time.time() - t0, None
        return "error", f"z3: {exc}", time.time() - t0, None
    finally:
        watchdog.cancel()
    verdict = str(r)
    model = None
    reason = ""
    if r == z3.sat and want_model:
        try:
            m = s.model()
            model = {str(d): str(m[d])[:400] for d in m.decls()[:200]}
        except z3.Z3Exception:
            model = None
    if r == z3.unknown:
        reason = s.reason_unknown()
    return verdict, reason, time.time() - t0, model


def _run_z3_hard(smt2, timeout_ms, want_model, noext=False):
    """_run_z3 in a forked child with a HARD wall-clock limit.  z3's timeout and the interrupt watchdog are both ignored in some phases
    (measured on lemma L-count/base with extensionality off: 185 s on a 5 s budget in one run, 0.1 s in the next; in a smaller sandbox the
    same query kept a quick check busy for more than 900 s).  The child is killed `grace` seconds after its budget: the attempt is
    `unknown` and the next member of the portfolio gets its turn."""
    import pickle
    import select
    grace = 4.0
    t0 = time.time()
    try:
        r, w = os.pipe()
        pid = os.fork()
    except OSError:
        return _run_z3(smt2, timeout_ms, want_model, noext)
    if pid == 0:
        code = 0
        try:
            os.close(r)
            out = _run_z3(smt2, timeout_ms, want_model, noext)
            with os.fdopen(w, "wb") as f:
                pickle.dump(out, f)
        except BaseException:
            code = 1
        os._exit(code)
    os.close(w)
    out = None
    try:
        deadline = t0 + timeout_ms / 1000.0 + grace
        buf = b""
        while True:
            left = deadline - time.time()
            if left <= 0:
                break
            rl, _, _ = select.select([r], [], [], left)
            if not rl:
                break
            chunk = os.read(r, 1 << 16)
            if not chunk:
                break
            buf += chunk
        if buf:
            try:
                out = pickle.loads(buf)
            except Exception:
                out = None
    finally:
        os.close(r)
        try:
            os.kill(pid, 9)
        except OSError:
            pass
        try:
            os.waitpid(pid, 0)
        except OSError:
            pass
    if out is None:
        return "unknown", "z3: no answer within the hard time limit (attempt killed)", time.time() - t0, None
    return out


def _run_cvc5(smt2, timeout_ms):
    t0 = time.time()
    if not os.path.exists(CVC5):
        return "unknown", "cvc5 not installed", 0.0
    text = smt2
    if "(set-logic" not in text:
        text = "(set-logic ALL)\n" + text
    with tempfile.NamedTemporaryFile("w", suffix=".smt2", delete=False) as f:
        f.write(text)
        path = f.name
    try:
        p = subprocess.run([CVC5, "--lang=smt2", f"--tlimit={timeout_ms}", "--strings-exp", "--full-saturate-quant", path],
                           capture_output=True, text=True, timeout=timeout_ms / 1000 + 10)
        out = (p.stdout or "").strip().splitlines()
        verdict = out[0].strip() if out else "unknown"
        if verdict not in ("sat", "unsat", "unknown"):
            return "unknown", f"cvc5: {(p.stdout + p.stderr)[:200]}", time.time() - t0
        return verdict, "", time.time() - t0
    except subprocess.TimeoutExpired:
        return "unknown", "cvc5 timeout", time.time() - t0
    finally:
        os.unlink(path)


def _work(item):
    oid, smt2, expect, use_cvc5, z3_timeout = item
    t = 0.0
    attempts = []                    # (back end, verdict, seconds, budget in seconds) of every attempt, for the evidence
    if expect == "unsat":
        # Portfolio.  Array extensionality off is a weaker theory (fewer axioms): only `unsat` is accepted from it, and it is
        # both faster and far more stable on the quantified obligations here, so it goes first with a third of the budget.
        b0 = max(1000, z3_timeout // 3)
        v0, r0, t0, _ = _run_z3_hard(smt2, b0, want_model=False, noext=True)
        t += t0
        attempts.append(("z3-noext", v0, round(t0, 3), b0 / 1000.0))
        if v0 == "unsat":
            return oid, "unsat", "z3-noext", "", t, None, attempts
    verdict, reason, t1, model = _run_z3_hard(smt2, z3_timeout, want_model=True)
    t += t1
    attempts.append(("z3", verdict, round(t1, 3), z3_timeout / 1000.0))
    backend = "z3"
    if verdict == "unknown" and expect == "unsat":
        v1, r1, t2, _ = _run_z3_hard(smt2, z3_timeout, want_model=False, noext=True)
        t += t2
        attempts.append(("z3-noext", v1, round(t2, 3), z3_timeout / 1000.0))
        if v1 == "unsat":
            verdict, reason, backend = "unsat", "", "z3-noext"
    if verdict in ("unknown", "error") and use_cvc5:
        v2, r2, t2 = _run_cvc5(smt2, CVC5_TIMEOUT_MS)
        t += t2
        attempts.append(("cvc5", v2, round(t2, 3), CVC5_TIMEOUT_MS / 1000.0))
        if v2 in ("sat", "unsat"):
            verdict, reason, backend = v2, r2, "cvc5"
        else:
            reason = f"z3: {reason}; {r2 or 'cvc5: unknown'}"
    return oid, verdict, backend, reason, t, model, attempts


def _work_escalate(item):
    """Second round for an obligation the whole portfolio left open.  Wall-clock budgets make a verdict depend on machine speed and
    load: an obligation that needs 14 s of a 15 s budget is proved on one run and `unknown` on the next (lemma L-count/base did exactly
    that in a fresh-copy run).  Before such an obligation is reported as undecided it gets ESCALATION_FACTOR times the budget, first with
    the full theory (a counter-model is still wanted), then with extensionality off.  Only an answer changes the outcome."""
    oid, smt2, expect, use_cvc5, z3_timeout = item
    big = z3_timeout * ESCALATION_FACTOR
    attempts = []
    v3, r3, t3, m3 = _run_z3_hard(smt2, big, want_model=True)
    attempts.append(("z3", v3, round(t3, 3), big / 1000.0))
    if v3 in ("sat", "unsat"):
        return oid, v3, "z3", "", t3, m3, attempts
    v4, r4, t4, _ = _run_z3_hard(smt2, big, want_model=False, noext=True)
    attempts.append(("z3-noext", v4, round(t4, 3), big / 1000.0))
    if v4 == "unsat":
        return oid, "unsat", "z3-noext", "", t3 + t4, None, attempts
    return oid, "unknown", "z3", f"z3: {r3}", t3 + t4, None, attempts


def _work_both(item):
    """thorough tier: independent second discharge with cvc5."""
    oid, smt2, expect, use_cvc5, z3_timeout = item
    v2, r2, t2 = _run_cvc5(smt2, CVC5_TIMEOUT_MS)
    return oid, v2, r2, t2


WORKER_MEM_MB = int(os.environ.get("VERIF_WORKER_MEM_MB", "6000"))


def _limit_memory():
    """A solver worker may not eat the machine: z3 was observed to grow to 32 GB on one obligation (the kernel's OOM killer then took a
    worker and, before robust_map, the check waited forever; in a smaller sandbox the same growth made the check exceed 900 s).  z3's own
    cap turns the blow-up into `unknown`; the address-space limit is the backstop (the worker dies, the obligation is `unknown`)."""
    try:
        z3.set_param("memory_max_size", max(500, WORKER_MEM_MB - 1500))
    except Exception:
        pass
    try:
        import resource
        cap = WORKER_MEM_MB * 1024 * 1024
        soft, hard = resource.getrlimit(resource.RLIMIT_AS)
        if hard == resource.RLIM_INFINITY or cap <= hard:
            resource.setrlimit(resource.RLIMIT_AS, (cap, hard))
    except Exception:
        pass


def _worker_loop(fn, conn):
    _limit_memory()
    while True:
        try:
            item = conn.recv()
        except (EOFError, OSError):
            break
        if item is None:
            break
        try:
            out = fn(item)
        except MemoryError:
            out = ("__error__", "MemoryError")
        except BaseException as exc:      # noqa: the parent must always get an answer
            out = ("__error__", repr(exc))
        try:
            conn.send(out)
        except (OSError, ValueError):
            break
    try:
        conn.close()
    except OSError:
        pass
    os._exit(0)


def robust_map(fn, items, jobs, hard_timeout, fallback):
    """map() over forked solver workers that survives dying and hanging workers.  multiprocessing.Pool.map waits forever when a worker
    is killed in the middle of a task (observed: the kernel's OOM killer took a z3 worker, the check hung for 20 minutes at zero load), and
    a pool cannot stop one worker whose solver ignores every time limit.  Here the parent hands out one item at a time over a pipe, knows
    what each worker is doing and since when, and replaces a worker that died or overran `hard_timeout` seconds; that item gets
    `fallback(item)` (verdict `unknown`: undecided, never a violation)."""
    from multiprocessing.connection import wait as mpwait
    ctx = mp.get_context("fork")
    results = [None] * len(items)
    done = [False] * len(items)
    pending = list(range(len(items)))[::-1]

    def spawn():
        parent, child = ctx.Pipe()
        p = ctx.Process(target=_worker_loop, args=(fn, child), daemon=True)
        p.start()
        child.close()
        return {"p": p, "c": parent, "cur": None, "t0": 0.0}

    def retire(w):
        try:
            w["c"].close()
        except OSError:
            pass
        if w["p"].is_alive():
            w["p"].kill()
        w["p"].join(5)

    workers = [spawn() for _ in range(max(1, min(jobs, len(items))))]
    try:
        while pending or any(w["cur"] is not None for w in workers):
            for k, w in enumerate(workers):
                if w["cur"] is None and pending:
                    idx = pending.pop()
                    try:
                        w["c"].send(items[idx])
                        w["cur"], w["t0"] = idx, time.time()
                    except (OSError, ValueError):
                        pending.append(idx)
                        retire(w)
                        workers[k] = spawn()
            busy = [w for w in workers if w["cur"] is not None]
            ready = mpwait([w["c"] for w in busy], timeout=1.0) if busy else []
            now = time.time()
            for k, w in enumerate(workers):
                if w["cur"] is None:
                    continue
                idx = w["cur"]
                if w["c"] in ready:
                    try:
                        out = w["c"].recv()
                    except (EOFError, OSError):
                        out = None
                    if out is None or (isinstance(out, tuple) and out and out[0] == "__error__"):
                        results[idx] = fallback(items[idx])
                        if out is None:                      # the worker died
                            retire(w)
                            workers[k] = w = spawn()
                    else:
                        results[idx] = out
                    done[idx] = True
                    w["cur"] = None
                elif now - w["t0"] > hard_timeout or not w["p"].is_alive():
                    results[idx] = fallback(items[idx])
                    done[idx] = True
                    retire(w)
                    workers[k] = spawn()
    finally:
        for w in workers:
            try:
                w["c"].send(None)
            except (OSError, ValueError):
                pass
        for w in workers:
            w["p"].join(2)
            retire(w)
    return [results[i] if done[i] else fallback(items[i]) for i in range(len(items))]


def discharge(obligations, jobs=None, use_cvc5=True, z3_timeout=None, escalate=False):
    """Fills verdict/backend/time on each obligation.  Returns summary dict."""
    jobs = jobs or min(16, os.cpu_count() or 4)
    axioms = global_axioms()
    items = []
    for o in obligations:
        o.smt2 = o.to_smt2(axioms)
        o.sha = hashlib.sha1(o.smt2.encode()).hexdigest()[:16]
        items.append((o.id, o.smt2, o.expect, use_cvc5, z3_timeout or Z3_TIMEOUT_MS))
        if os.environ.get("VERIF_DUMP_SMT2"):      # development aid: the exact solver input of every obligation
            os.makedirs(os.environ["VERIF_DUMP_SMT2"], exist_ok=True)
            with open(os.path.join(os.environ["VERIF_DUMP_SMT2"], o.id.replace("/", "_") + "." + o.sha + ".smt2"), "w") as f:
                f.write(o.smt2)
    by_id = {o.id: o for o in obligations}
    t0 = time.time()
    if not items:
        return {"wall": 0.0, "solver_time": 0.0, "escalated": 0}
    if jobs > 1 and len(items) > 1:
        zt = (z3_timeout or Z3_TIMEOUT_MS) / 1000.0
        hard = 3 * zt + CVC5_TIMEOUT_MS / 1000.0 + 60
        results = robust_map(_work, items, jobs, hard,
                             lambda it: (it[0], "unknown", "", "solver process died or exceeded every time limit", hard, None, []))
    else:
        results = [_work(it) for it in items]
    total = 0.0
    for oid, verdict, backend, reason, t, model, attempts in results:
        o = by_id[oid]
        o.verdict, o.backend, o.reason, o.time, o.model, o.attempts = verdict, backend, reason, t, model, attempts
        total += t
    # second round (see _work_escalate): obligations to be proved that are still open, except those the caller marked as set aside
    # for a recorded open finding (known not to be provable); capped so that a badly broken tree cannot hold the check for hours
    n_escalated = 0
    if escalate and ESCALATION_FACTOR > 1:
        zt_ms = z3_timeout or Z3_TIMEOUT_MS
        again = [it for it in items if it[2] == "unsat" and by_id[it[0]].verdict not in ("sat", "unsat") and not by_id[it[0]].extra.get("no_escalate")]
        again = again[:ESCALATION_MAX]
        n_escalated = len(again)
        if again:
            hard2 = 2 * ESCALATION_FACTOR * zt_ms / 1000.0 + 60
            res2 = robust_map(_work_escalate, again, min(jobs, len(again)), hard2,
                              lambda it: (it[0], "unknown", "", "solver process died or exceeded every time limit", hard2, None, []))
            for oid, verdict, backend, reason, t, model, attempts in res2:
                o = by_id[oid]
                o.time += t
                total += t
                o.attempts = list(o.attempts or []) + list(attempts)
                if verdict in ("sat", "unsat"):
                    o.verdict, o.backend, o.reason, o.model = verdict, backend + "-escalated", "", model
    return {"wall": time.time() - t0, "solver_time": total, "escalated": n_escalated}


def second_opinion(obligations, jobs=None):
    """cvc5 on every obligation, independently of z3 (thorough tier). Returns list of disagreements."""
    jobs = jobs or min(16, os.cpu_count() or 4)
    items = [(o.id, o.smt2, o.expect, True, 0) for o in obligations if o.smt2]
    if not items:
        return [], 0, 0.0
    results = robust_map(_work_both, items, jobs, CVC5_TIMEOUT_MS / 1000.0 + 60, lambda it: (it[0], "unknown", "cvc5 process died", 0.0))
    by_id = {o.id: o for o in obligations}
    disagreements, decided, total = [], 0, 0.0
    for oid, v2, r2, t2 in results:
        o = by_id[oid]
        o.cvc5_verdict = v2
        total += t2
        if v2 in ("sat", "unsat"):
            decided += 1
            if o.verdict in ("sat", "unsat") and v2 != o.verdict:
                disagreements.append((oid, o.verdict, v2))
    return disagreements, decided, total
