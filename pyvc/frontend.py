"""Mechanical extraction of the real functions and class facts from /repo (every run).

Nothing is imported or executed: the files are parsed with `ast`.  What is dropped is
listed in DESIGN.md section 3.1 (docstrings, annotations, logging calls, timing
decorators); everything else reaches the symbolic executor unchanged.
"""
import ast
import hashlib
import os

REPO = os.environ.get("VERIF_REPO", "/repo")

_cache = {}


class ExtractionError(Exception):
    pass


def parse_file(relpath):
    path = os.path.join(REPO, relpath)
    if path not in _cache:
        try:
            with open(path, encoding="utf-8") as f:
                text = f.read()
        except OSError as exc:
            raise ExtractionError(f"cannot read {path}: {exc}")
        try:
            tree = ast.parse(text, filename=path)
        except SyntaxError as exc:
            raise ExtractionError(f"cannot parse {path}: {exc}")
        _cache[path] = (tree, text)
    return _cache[path]


def find_class(relpath, clsname):
    tree, _ = parse_file(relpath)
    for node in tree.body:
        if isinstance(node, ast.ClassDef) and node.name == clsname:
            return node
    raise ExtractionError(f"class {clsname} not found in {relpath}")


def find_function(relpath, qualname):
    """qualname is 'func' or 'Class.method'.  Returns (FunctionDef, info dict)."""
    tree, text = parse_file(relpath)
    parts = qualname.split(".")
    body = tree.body
    node = None
    cls = None
    for i, p in enumerate(parts):
        found = None
        for n in body:
            if isinstance(n, (ast.FunctionDef, ast.ClassDef)) and n.name == p:
                if isinstance(n, ast.FunctionDef) and any(ast.unparse(d).endswith(".setter") for d in n.decorator_list):
                    continue     # `@x.setter def x` re-binds the property object; the getter is what a read executes
                found = n  # last definition wins, like Python
        if found is None:
            raise ExtractionError(f"{qualname} not found in {relpath}")
        if isinstance(found, ast.ClassDef):
            cls = found
        node = found
        body = found.body
    if not isinstance(node, ast.FunctionDef):
        raise ExtractionError(f"{qualname} in {relpath} is not a function")
    decorators = [ast.unparse(d) for d in node.decorator_list]
    kind = "function"
    if cls is not None:
        kind = "method"
        for d in decorators:
            if d == "staticmethod":
                kind = "staticmethod"
            elif d == "classmethod":
                kind = "classmethod"
            elif d == "property":
                kind = "property"
    src = ast.get_source_segment(text, node) or ""
    info = {
        "file": relpath,
        "qualname": qualname,
        "lineno": node.lineno,
        "end_lineno": node.end_lineno,
        "decorators": decorators,
        "kind": kind,
        "sha1": hashlib.sha1(src.encode()).hexdigest()[:12],
        "nlines": (node.end_lineno or node.lineno) - node.lineno + 1,
    }
    return node, info


def strip_docstring(body):
    if body and isinstance(body[0], ast.Expr) and isinstance(body[0].value, ast.Constant) and isinstance(body[0].value.value, str):
        return body[1:]
    return body


def enum_members(relpath, clsname):
    """Members of an `enum.Enum` class, read from the class body: [(NAME, python value)]."""
    cls = find_class(relpath, clsname)
    out = []
    for n in cls.body:
        if isinstance(n, ast.Assign) and len(n.targets) == 1 and isinstance(n.targets[0], ast.Name):
            name = n.targets[0].id
            if name.startswith("_"):
                continue
            try:
                val = ast.literal_eval(n.value)
            except Exception:
                val = None
            out.append((name, val))
    if not out:
        raise ExtractionError(f"enum {clsname} in {relpath} has no members")
    return out


def class_attributes(relpath, clsname, _seen=None):
    """All attribute names instances of the class can have, as far as the source shows:
    annotated / assigned class-level names, methods and properties, and every `self.X = ...`
    in any method; base classes defined in the same file are followed.  Returns
    (set of names, bool complete) - `complete` is False when a base class could not be
    resolved or the class defines __getattr__ (then attribute-safety is not claimed)."""
    _seen = _seen or set()
    if (relpath, clsname) in _seen:
        return set(), True
    _seen.add((relpath, clsname))
    cls = find_class(relpath, clsname)
    names = set()
    complete = True
    for n in cls.body:
        if isinstance(n, ast.AnnAssign) and isinstance(n.target, ast.Name):
            names.add(n.target.id)
        elif isinstance(n, ast.Assign):
            for t in n.targets:
                if isinstance(t, ast.Name):
                    names.add(t.id)
        elif isinstance(n, ast.FunctionDef):
            names.add(n.name)
            if n.name == "__getattr__":
                complete = False
            for sub in ast.walk(n):
                if isinstance(sub, (ast.Assign, ast.AugAssign, ast.AnnAssign)):
                    targets = sub.targets if isinstance(sub, ast.Assign) else [sub.target]
                    for t in targets:
                        if isinstance(t, ast.Attribute) and isinstance(t.value, ast.Name) and t.value.id == "self":
                            names.add(t.attr)
    tree, _ = parse_file(relpath)
    local_classes = {n.name for n in tree.body if isinstance(n, ast.ClassDef)}
    for b in cls.bases:
        bname = ast.unparse(b)
        if bname in ("object", "abc.ABC", "ABC"):
            continue
        if bname in local_classes:
            sub, ok = class_attributes(relpath, bname, _seen)
            names |= sub
            complete = complete and ok
        elif bname in KNOWN_BASES:
            for (f, c) in KNOWN_BASES[bname]:
                sub, ok = class_attributes(f, c, _seen)
                names |= sub
                complete = complete and ok
        else:
            complete = False
    return names, complete


# Base classes living in other files (resolved by name; read from the real source too).
KNOWN_BASES = {
    "JadeBaseModel": [],   # pydantic BaseModel: only declared fields + pydantic API
    "JobManagerBase": [("jade/jobs/job_manager_base.py", "JobManagerBase")],
    "AsyncJobInterface": [("jade/jobs/async_job_interface.py", "AsyncJobInterface")],
    "JobConfiguration": [("jade/jobs/job_configuration.py", "JobConfiguration")],
    "JobParametersInterface": [("jade/jobs/job_parameters_interface.py", "JobParametersInterface")],
    "JobContainerInterface": [("jade/jobs/job_container_interface.py", "JobContainerInterface")],
    "HpcManagerInterface": [("jade/hpc/hpc_manager_interface.py", "HpcManagerInterface")],
    "JobExecutionInterface": [("jade/jobs/job_execution_interface.py", "JobExecutionInterface")],
}

PYDANTIC_API = {"dict", "json", "copy", "__fields__", "schema", "parse_obj", "construct"}


def pydantic_fields(relpath, clsname):
    """Declared fields (annotated assignments) of a pydantic model class, in order."""
    cls = find_class(relpath, clsname)
    return [n.target.id for n in cls.body if isinstance(n, ast.AnnAssign) and isinstance(n.target, ast.Name)]


def class_constant(relpath, clsname, attr):
    """A class-level constant (literal, dict display, ...) as AST."""
    cls = find_class(relpath, clsname)
    for n in cls.body:
        if isinstance(n, ast.Assign) and any(isinstance(t, ast.Name) and t.id == attr for t in n.targets):
            return n.value
    raise ExtractionError(f"{clsname}.{attr} not found in {relpath}")


def module_constant(relpath, name):
    tree, _ = parse_file(relpath)
    for n in tree.body:
        if isinstance(n, ast.Assign) and any(isinstance(t, ast.Name) and t.id == name for t in n.targets):
            return n.value
    raise ExtractionError(f"{name} not found in {relpath}")
