"""Evaluation of contract clauses (pure, total, no forking) to z3 terms."""
import ast
import z3
from . import ty as T
from . import values as V
from . import ops as O
from . import spec as S
from .values import Val, UnsupportedError
from .state import GlobalRef


class SpecError(Exception):
    pass


class SpecEval:
    def __init__(self, ex, st, old=None, env=None, facts=None, defs=None, old_env=None):
        self.defs = defs if defs is not None else ex.contract.defs
        # values of the names in `env` in the old state (call sites: the arguments before the call)
        self.old_env = dict(old_env) if old_env is not None else None
        self.ex = ex            # owning Exec (for records / globals resolution)
        self.st = st
        self.old = old if old is not None else (st.entry or st)
        self.env = dict(env or {})
        self.facts = facts if facts is not None else []   # defining axioms of fresh sets etc.

    # -- helpers ---------------------------------------------------------------------------
    def sub(self, st=None, env=None):
        oe = None
        if self.old_env is not None:
            oe = dict(self.old_env)
            if env is not None:
                for k, v in env.items():
                    if k not in self.env or self.env[k] is not v:
                        oe[k] = v          # newly bound (quantified / macro) names are state-independent
        return SpecEval(self.ex, st or self.st, self.old, env if env is not None else self.env, self.facts, self.defs, oe)

    def boolean(self, node):
        v = self.ev(node)
        if isinstance(v, GlobalRef):
            raise SpecError(f"{ast.unparse(node)} is not a value")
        return O.truth(v)

    def clause(self, text):
        try:
            return self.boolean(S.parse_clause(text))
        except (UnsupportedError, SpecError, KeyError, AssertionError, z3.Z3Exception) as exc:
            raise SpecError(f"in clause `{text}`: {type(exc).__name__}: {exc}")

    # -- evaluation ------------------------------------------------------------------------
    def ev(self, node):
        m = getattr(self, "ev_" + type(node).__name__, None)
        if m is None:
            raise SpecError(f"unsupported spec syntax {type(node).__name__}: {ast.unparse(node)}")
        return m(node)

    def ev_Constant(self, node):
        return const_value(node.value)

    def ev_Name(self, node):
        n = node.id
        if n in self.env:
            return self.env[n]
        if n in self.st.locals:
            return self.st.locals[n]
        if n == "ghost":
            return GlobalRef("ghost", "ghost")
        g = self.ex.resolve_global(n)
        if g is not None:
            return g
        raise SpecError(f"unknown name {n}")

    def ev_Attribute(self, node):
        base = self.ev(node.value)
        if isinstance(base, GlobalRef):
            if base.kind == "ghost":
                return self.st.ghost_get(node.attr)
            return self.ex.global_attr(base, node.attr)
        r = self.ex.attr_read_pure(base, node.attr, self.st)
        if r.ty.kind == "list":
            self.facts.append(V.list_len(r) >= 0)      # well-formedness of every list stored in the heap
        return r

    def ev_Subscript(self, node):
        base = self.ev(node.value)
        if isinstance(node.slice, ast.Slice):
            sl = node.slice
            if sl.upper is None and sl.step is None and base.ty.kind == "list":
                lo = self.ev(sl.lower).t if sl.lower is not None else z3.IntVal(0)
                return O.list_slice_from(base, lo, self.facts)
            raise SpecError("only L[a:] slices are supported in specs")
        idx = self.ev(node.slice)
        base = O.strip_opt(base)
        k = base.ty.kind
        if k == "list":
            return V.list_get(base, idx.t)
        if k == "dict":
            return V.dict_get(base, O.coerce(idx, base.ty.args[0]))
        if k == "tuple":
            if not z3.is_int_value(idx.t):
                raise SpecError("tuple index must be constant")
            return V.tuple_items(base)[idx.t.as_long()]
        raise SpecError(f"subscript on {base.ty}")

    def ev_UnaryOp(self, node):
        v = self.ev(node.operand)
        if isinstance(node.op, ast.Not):
            return V.mk_bool(z3.Not(O.truth(v)))
        if isinstance(node.op, ast.USub):
            return V.mk_int(-v.t) if v.ty.kind == "int" else V.mk_real(-v.t)
        raise SpecError("unary operator")

    def ev_BoolOp(self, node):
        # In specs `and`/`or` are used on booleans only.
        vals = [self.boolean(v) for v in node.values]
        return V.mk_bool(z3.And(vals) if isinstance(node.op, ast.And) else z3.Or(vals))

    def ev_BinOp(self, node):
        a, b = self.ev(node.left), self.ev(node.right)
        return binop(node.op, a, b, self.facts)

    def ev_Compare(self, node):
        left = self.ev(node.left)
        out = []
        for op, rn in zip(node.ops, node.comparators):
            right = self.ev(rn)
            out.append(O.compare(op, left, right))
            left = right
        return V.mk_bool(z3.And(out) if len(out) > 1 else out[0])

    def ev_IfExp(self, node):
        c = self.boolean(node.test)
        return V.ite(c, self.ev(node.body), self.ev(node.orelse))

    def ev_Tuple(self, node):
        return V.mk_tuple([self.ev(e) for e in node.elts])

    def ev_List(self, node):
        if not node.elts:
            return V.EMPTY_LIST
        out = V.EMPTY_LIST
        for e in node.elts:
            out = V.list_append(out, self.ev(e))
        return out

    def ev_Set(self, node):
        out = V.EMPTY_SET
        for e in node.elts:
            out = O.set_add(out, self.ev(e), self.facts)
        return out

    def ev_Call(self, node):
        f = node.func
        if isinstance(f, ast.Name):
            name = f.id
            h = getattr(self, "fn_" + name, None)
            if h is not None:
                return h(node)
            if name in self.defs or name in S.DEFS:
                params, body = self.defs.get(name) or S.DEFS[name]
                if len(params) != len(node.args):
                    raise SpecError(f"macro {name} expects {len(params)} arguments")
                env = dict(self.env)
                for p, a in zip(params, node.args):
                    env[p] = self.ev(a)
                return self.sub(env=env).ev(S.parse_clause(body))
            if name in S.RECORDS or T.has_enum(name):
                raise SpecError(f"constructor {name} in spec")
            raise SpecError(f"unknown spec function {name}")
        if isinstance(f, ast.Attribute):
            recv = self.ev(f.value)
            if isinstance(recv, GlobalRef):
                raise SpecError(f"call on global {recv} in spec")
            args = [self.ev(a) for a in node.args]
            rv = O.strip_opt(recv) if isinstance(recv, Val) else recv
            if isinstance(rv, Val) and rv.ty.kind == "ref":
                # a pure method under contract (no precondition, no exceptional outcome): its uninterpreted result plus its ensures
                c = S.lookup_method(rv.ty.name, f.attr)
                if c is None or not c.pure or c.modifies or c.requires or c.raises or c.returns.kind == "none" or node.keywords:
                    raise SpecError(f"call of {rv.ty.name}.{f.attr} in a pure expression: not a pure total contract")
                names = [p[0] for p in c.params]
                env = {names[0]: O.coerce(rv, c.params[0][1])}
                for n_, a in zip(names[1:], args):
                    env[n_] = a
                self.ex.used_assumed[c.key] = self.ex.used_assumed.get(c.key, 0) + 1
                res = self.ex.pure_app(c, env, self.st)
                env2 = dict(env, result=res, retval=res)
                for text in c.ensures:
                    self.facts.append(SpecEval(self.ex, self.st, self.st, env2, self.facts, c.defs, env2).boolean(S.parse_clause(text)))
                return res
            return pure_method(recv, f.attr, args, self.facts)
        raise SpecError("unsupported call in spec")

    # -- spec functions -------------------------------------------------------------------
    def fn_old(self, node):
        oe = self.old_env if self.old_env is not None else self.env
        return SpecEval(self.ex, self.old, self.old, oe, self.facts, self.defs, oe).ev(node.args[0])

    def fn_loop_old(self, node):
        if not self.st.loop_entries:
            raise SpecError("loop_old() outside a loop")
        le = self.st.loop_entries[-1]
        return SpecEval(self.ex, le, self.old, self.env, self.facts, self.defs).ev(node.args[0])

    def fn_implies(self, node):
        return V.mk_bool(z3.Implies(self.boolean(node.args[0]), self.boolean(node.args[1])))

    def fn_iff(self, node):
        return V.mk_bool(self.boolean(node.args[0]) == self.boolean(node.args[1]))

    def fn_ite(self, node):
        return V.ite(self.boolean(node.args[0]), self.ev(node.args[1]), self.ev(node.args[2]))

    def fn_len(self, node):
        v = O.strip_opt(self.ev(node.args[0]))
        return pure_len(v, self.facts)

    def fn_isnone(self, node):
        return V.mk_bool(O.is_none(self.ev(node.args[0])))

    def fn_truth(self, node):
        return V.mk_bool(O.truth(self.ev(node.args[0])))

    def fn_val(self, node):
        return O.strip_opt(self.ev(node.args[0]))

    def fn_subset(self, node):
        return V.mk_bool(O.set_subset(self.ev(node.args[0]), self.ev(node.args[1])))

    def fn_card_subset_hint(self, node):
        """true; adds the finite-set fact  A subset of B  =>  |A| <= |B|  for these two sets."""
        a, b = self.ev(node.args[0]), self.ev(node.args[1])
        self.facts.extend(O.facts_for_card(a))
        self.facts.extend(O.facts_for_card(b))
        self.facts.append(z3.Implies(O.set_subset(a, b), V.set_card(a) <= V.set_card(b)))
        # ... and a subset of the same (finite) size is the whole set
        self.facts.append(z3.Implies(z3.And(O.set_subset(a, b), V.set_card(a) == V.set_card(b)), a.t == b.t))
        return V.mk_bool(True)

    def fn_disjoint(self, node):
        a, b = self.ev(node.args[0]), self.ev(node.args[1])
        (es,) = a.ty.elem.sorts()
        x = z3.Const(V.fresh_name("qx"), es)
        return V.mk_bool(z3.ForAll([x], z3.Not(z3.And(z3.Select(a.t, x), z3.Select(b.t, x)))))

    def fn_empty(self, node):
        return V.mk_bool(z3.Not(O.truth(O.strip_opt(self.ev(node.args[0])))))

    def fn_keys(self, node):
        return V.dict_keys(self.ev(node.args[0]))

    def fn_min(self, node):
        a, b = self.ev(node.args[0]), self.ev(node.args[1])
        return V.ite(O.compare(ast.LtE(), a, b), a, b)

    def fn_max(self, node):
        a, b = self.ev(node.args[0]), self.ev(node.args[1])
        return V.ite(O.compare(ast.GtE(), a, b), a, b)

    def fn_distinct(self, node):
        lst = self.ev(node.args[0])
        if V.is_empty_literal(lst):
            return V.mk_bool(True)
        i, j = z3.Int(V.fresh_name("qi")), z3.Int(V.fresh_name("qj"))
        n = V.list_len(lst)
        if len(node.args) > 1:
            # distinct(L, attr): the values of field `attr` are pairwise distinct
            attr = node.args[1].id
            a = self.ex.attr_read_pure(V.list_get(lst, i), attr, self.st)
            b = self.ex.attr_read_pure(V.list_get(lst, j), attr, self.st)
            body = z3.Not(V.eq(a, b))
        else:
            body = z3.Not(V.eq(V.list_get(lst, i), V.list_get(lst, j)))
        return V.mk_bool(z3.ForAll([i, j], z3.Implies(z3.And(0 <= i, i < j, j < n), body)))

    def _quant(self, node, universal):
        if len(node.args) != 3 or not isinstance(node.args[0], ast.Name):
            raise SpecError("forall/exists(x, domain, body)")
        var = node.args[0].id
        dom = node.args[1]
        bound, guard, binding = self._domain(var, dom)
        env = dict(self.env)
        env[var] = binding
        mark = V.fresh_mark()
        outer, self.facts = self.facts, []
        try:
            body = self.sub(env=env).boolean(node.args[2])
            local = self.facts
        finally:
            self.facts = outer
        # Facts produced while evaluating the body (cardinality / fold / well-formedness schemas about terms of the
        # body) may mention the bound variable.  They are instances of schemas valid for every value, so they are
        # generalised over the bound variable; a fact that *defines* a fresh symbol in terms of the bound variable
        # cannot be generalised (one symbol, many definitions) and is refused.
        outer.extend(generalize_facts(local, bound, mark, f"the quantifier over `{var}`"))
        if universal:
            return V.mk_bool(z3.ForAll(bound, z3.Implies(guard, body)))
        return V.mk_bool(z3.Exists(bound, z3.And(guard, body)))

    def _domain(self, var, dom):
        """-> (bound z3 vars, guard, value bound to the spec variable)"""
        if isinstance(dom, ast.Name) and dom.id in ("int", "Name", "Str", "real", "Opaque", "Ref"):
            ty = T.parse_ty(dom.id) if dom.id != "Ref" else T.Ref("?")
            v = V.fresh(ty, "q" + var)
            return [v.t], z3.BoolVal(True), v
        if isinstance(dom, ast.Name) and dom.id in S.RECORDS and dom.id not in self.env and dom.id not in self.st.locals:
            v = V.fresh(T.Ref(dom.id), "q" + var)
            return [v.t], z3.BoolVal(True), v
        if isinstance(dom, ast.Call) and isinstance(dom.func, ast.Name) and dom.func.id == "range":
            args = [self.ev(a).t for a in dom.args]
            lo, hi = (z3.IntVal(0), args[0]) if len(args) == 1 else (args[0], args[1])
            v = V.fresh(T.INT, "q" + var)
            return [v.t], z3.And(lo <= v.t, v.t < hi), v
        d = O.strip_opt(self.ev(dom))
        if V.is_empty_literal(d):
            v = V.fresh(T.INT, "q" + var)
            return [v.t], z3.BoolVal(False), v
        if d.ty.kind == "list":
            i = z3.Int(V.fresh_name("qi"))
            return [i], z3.And(0 <= i, i < V.list_len(d)), V.list_get(d, i)
        if d.ty.kind == "set":
            v = V.fresh(d.ty.elem, "q" + var)
            return [v.t], z3.Select(d.t, v.t), v
        if d.ty.kind == "dict":
            v = V.fresh(d.ty.args[0], "q" + var)
            return [v.t], z3.Select(d.parts[0], v.t), v
        raise SpecError(f"cannot quantify over {d.ty}")

    def fn_forall(self, node):
        return self._quant(node, True)

    def fn_exists(self, node):
        return self._quant(node, False)

    def fn_unchanged(self, node):
        """unchanged(Class.field [, except_ref, ...]) : the field map is the old one (except at the refs)."""
        target = node.args[0]
        if not (isinstance(target, ast.Attribute) and isinstance(target.value, ast.Name)):
            raise SpecError("unchanged(Class.field, ...)")
        rec, fty = S.lookup_field(target.value.id, target.attr)
        if rec is None:
            raise SpecError(f"unknown field {ast.unparse(target)}")
        excepts = [self.ev(a) for a in node.args[1:]]
        new = self.st.heap.key_arrays(rec, target.attr, fty)
        old = self.old.heap.key_arrays(rec, target.attr, fty)
        if not excepts:
            return V.mk_bool(z3.And([a == b for a, b in zip(new, old)]) if new else z3.BoolVal(True))
        r = z3.Const(V.fresh_name("qr"), T.RefSort)
        conds = []
        for e in excepts:
            e = O.strip_opt(e)
            if e.ty.kind == "ref":
                conds.append(r != e.t)
            elif e.ty.kind == "list":
                i = z3.Int(V.fresh_name("qi"))
                conds.append(z3.Not(z3.Exists([i], z3.And(0 <= i, i < V.list_len(e), V.list_get(e, i).t == r))))
            elif e.ty.kind == "set":
                conds.append(z3.Not(z3.Select(e.t, r)))
            else:
                raise SpecError("unchanged(..., except) wants refs, lists or sets of refs")
        body = z3.And([z3.Select(a, r) == z3.Select(b, r) for a, b in zip(new, old)])
        return V.mk_bool(z3.ForAll([r], z3.Implies(z3.And(conds), body)))

    def fn_same(self, node):
        """same(e): e has the same value as in the old state."""
        new = self.ev(node.args[0])
        oe = self.old_env if self.old_env is not None else self.env
        old = SpecEval(self.ex, self.old, self.old, oe, self.facts, self.defs, oe).ev(node.args[0])
        return V.mk_bool(O.py_eq(new, old))

    def fn_card(self, node):
        s = self.ev(node.args[0])
        self.facts.extend(O.facts_for_card(s))
        return V.mk_int(V.set_card(s))

    def fn_str(self, node):
        return pure_str(self.ev(node.args[0]))

    def fn_int(self, node):
        v = self.ev(node.args[0])
        if v.ty.kind == "bool":
            return V.mk_int(z3.If(v.t, 1, 0))
        if v.ty.kind == "int":
            return v
        raise SpecError(f"int() of {v.ty}")

    def fn_uf(self, node):
        """uf("name", "ResultType", args...): application of a named uninterpreted function."""
        name = node.args[0].value
        rty = T.parse_ty(node.args[1].value)
        args = [self.ev(a) for a in node.args[2:]]
        args = [(O.coerce(a, T.STR if O.STRLIT_MODE[0] == "text" else T.OPAQUE) if O.is_strlit(a) else a) for a in args]
        return apply_uf(name, rty, args)

    def fn_typed(self, node):
        """typed(expr, "Type"): give an (empty / literal) value an explicit type."""
        return O.coerce(self.ev(node.args[0]), T.parse_ty(node.args[1].value))

    def fn_fold(self, node):
        """fold("name", L): the declared snoc-recursive sum over list L (see spec.fold)."""
        name = node.args[0].value
        lst = O.strip_opt(self.ev(node.args[1]))
        if V.is_empty_literal(lst):
            return V.mk_int(0)
        r = fold_app(self.ex, name, lst, self.st)
        self.facts.append(z3.Implies(V.list_len(lst) == 0, r.t == 0))
        seen = getattr(self.ex, "fold_seen", None)
        if seen is not None:
            seen.setdefault(name, {})["|".join(p.sexpr() for p in lst.parts)] = lst
        n = V.list_len(lst)
        # one-step unfolding of the snoc-recursive definition (fold is a function of the element array and the length)
        prev = Val(lst.ty, list(lst.parts[:-1]) + [n - 1])
        tlast = fold_term(self.ex, name, V.list_get(lst, n - 1), self.st, self.facts)
        self.facts.append(z3.Implies(n >= 1, r.t == fold_app(self.ex, name, prev, self.st).t + tlast.t))
        if name in S.FOLD_BOUNDS:      # sum of terms within [lo, hi] (side condition proved in props/lemmas.py)
            lo, hi = S.FOLD_BOUNDS[name]
            self.facts.append(z3.Implies(n >= 0, z3.And(lo * n <= r.t, r.t <= hi * n)))
        for a, b in S.FOLD_LE:         # pointwise <= lifts to sums
            if a == name:
                self.facts.append(r.t <= fold_app(self.ex, b, lst, self.st).t)
            elif b == name:
                self.facts.append(fold_app(self.ex, a, lst, self.st).t <= r.t)
        return r

    def fn_allocated(self, node):
        """allocated(x): the object x exists in this state (old(allocated(x)) is false for objects created since)."""
        x = O.strip_opt(self.ev(node.args[0]))
        if x.ty.kind != "ref":
            raise SpecError("allocated() of a non-object")
        return V.mk_bool(z3.Select(self.st.alloc_map(x.ty.name), x.t))

    def fn_is_exactly(self, node):
        """is_exactly(a, b): representation-level equality of two container values (implies a == b).  Meant for the ensures of
        assumed boundary contracts, where it *defines* the havocked post-state as a store term instead of a quantified relation."""
        a, b = self.ev(node.args[0]), self.ev(node.args[1])
        a, b = V.unify(a, b)
        return V.mk_bool(z3.And([x == y for x, y in zip(a.parts, b.parts)]) if a.parts else z3.BoolVal(True))

    def fn_upd(self, node):
        """upd(d, k, v): the dict d with d[k] = v (a term: no fresh symbol)."""
        d, k, v = (self.ev(a) for a in node.args)
        return V.dict_set(d, O.coerce(k, d.ty.args[0]) if not V.is_empty_literal(d) else k, v)

    def fn_rem(self, node):
        """rem(d, k): the dict d without key k."""
        d, k = (self.ev(a) for a in node.args)
        return V.dict_del(d, O.coerce(k, d.ty.args[0]))

    def fn_snoc(self, node):
        """snoc(L, x): the list L with x appended (a term: no fresh symbol)."""
        lst, x = self.ev(node.args[0]), self.ev(node.args[1])
        x = O.coerce(x, lst.ty.elem)
        n = V.list_len(lst)
        return Val(lst.ty, [z3.Store(a, n, p) for a, p in zip(lst.parts[:-1], x.parts)] + [n + 1])

    def fn_nil(self, node):
        """nil("List[T]"): the empty list of that type."""
        ty = T.parse_ty(node.args[0].value)
        return V.empty_list(ty.elem)

    def fn_receiver(self, node):
        """receiver(m): the object a bound-method value of type Method[Class.meth] is bound to."""
        m = self.ev(node.args[0])
        if not isinstance(m, Val) or m.ty.kind != "method":
            raise SpecError("receiver() of a value that is not a bound method")
        return Val(T.Ref(m.ty.name.rsplit(".", 1)[0]), m.parts)

    def fn_fresh(self, node):
        """fresh(x): the object x (evaluated in the current state) exists now and did not exist at entry."""
        x = O.strip_opt(self.ev(node.args[0]))
        if x.ty.kind != "ref":
            raise SpecError("fresh() of a non-object")
        return V.mk_bool(z3.And(z3.Select(self.st.alloc_map(x.ty.name), x.t), z3.Not(z3.Select(self.old.alloc_map(x.ty.name), x.t))))

    def fn_prefix(self, node):
        """prefix(L, k): the first k elements of L."""
        lst = O.strip_opt(self.ev(node.args[0]))
        k = self.ev(node.args[1])
        if V.is_empty_literal(lst):
            return lst
        return Val(lst.ty, list(lst.parts[:-1]) + [k.t])

    def fn_fold_hint(self, node):
        """fold_hint("name", L): true; adds the extremal facts of a bounded sum for this list
        (all terms at a bound <=> the sum is at that bound) - finite-sum lemma schemas."""
        name = node.args[0].value
        lst = O.strip_opt(self.ev(node.args[1]))
        r = fold_app(self.ex, name, lst, self.st)
        n = V.list_len(lst)
        lo, hi = S.FOLD_BOUNDS[name]
        qi = z3.Int(V.fresh_name("qi"))
        ti = fold_term(self.ex, name, V.list_get(lst, qi), self.st, self.facts).t
        rng = z3.And(0 <= qi, qi < n)
        self.facts.append(z3.Implies(z3.And(n >= 0, z3.ForAll([qi], z3.Implies(rng, ti == hi))), r.t == hi * n))
        self.facts.append(z3.Implies(z3.And(n >= 0, z3.ForAll([qi], z3.Implies(rng, ti == lo))), r.t == lo * n))
        self.facts.append(z3.Implies(z3.Exists([qi], z3.And(rng, ti <= hi - 1)), r.t <= hi * n - 1))
        self.facts.append(z3.Implies(z3.Exists([qi], z3.And(rng, ti >= lo + 1)), r.t >= lo * n + 1))
        return V.mk_bool(True)

    def fn_nameset(self, node):
        """nameset(L): the set of .name of the elements of list L (deterministic in L and the name map)."""
        lst = O.strip_opt(self.ev(node.args[0]))
        if V.is_empty_literal(lst):
            return V.empty_set(T.NAME)
        return nameset_app(self.ex, lst, self.st, self.facts)

    def fn_count_in(self, node):
        """count_in(L, S): the number of positions i of list L with L[i].name in S (snoc-recursive in L).
        Lemma schema (props/lemmas.py lemma_count_in, by induction on len(L)): pairwise distinct names and
        S a subset of nameset(L)  =>  count_in(L, S) == |S|."""
        lst = O.strip_opt(self.ev(node.args[0]))
        s_ = self.ev(node.args[1])
        if V.is_empty_literal(lst) or V.is_empty_literal(s_):
            return V.mk_int(0)
        rec, fty = S.lookup_field(lst.ty.elem.name, "name") if lst.ty.elem.kind == "ref" else (None, None)
        if rec is None or fty.kind != "name" or s_.ty != T.SetT(T.NAME):
            raise SpecError("count_in(list of objects with a Name-typed `name`, Set[Name])")
        (harr,) = self.st.heap.key_arrays(rec, "name", fty)

        def app(l):
            parts = list(l.parts) + [harr, s_.t]
            key = ("count_in", tuple(p.sort().sexpr() for p in parts))
            if key not in _misc_fns:
                _misc_fns[key] = z3.Function(f"count_in_{len(_misc_fns)}", *([p.sort() for p in parts] + [z3.IntSort()]))
            return _misc_fns[key](*parts)
        n = V.list_len(lst)
        r = app(lst)
        nm = lambda k: z3.Select(harr, V.list_get(lst, k).t)
        prev = Val(lst.ty, list(lst.parts[:-1]) + [n - 1])
        self.facts.append(z3.Implies(n <= 0, r == 0))
        self.facts.append(z3.Implies(n >= 1, r == app(prev) + z3.If(z3.Select(s_.t, nm(n - 1)), 1, 0)))
        self.facts.append(z3.Implies(n >= 0, z3.And(0 <= r, r <= n)))
        i, j = z3.Int(V.fresh_name("qi")), z3.Int(V.fresh_name("qj"))
        distinct = z3.ForAll([i, j], z3.Implies(z3.And(0 <= i, i < j, j < n), nm(i) != nm(j)))
        ns = nameset_app(self.ex, lst, self.st, self.facts)
        self.facts.extend(O.facts_for_card(s_))
        self.facts.append(z3.Implies(z3.And(distinct, O.set_subset(s_, ns)), r == V.set_card(s_)))
        return V.mk_int(r)

    def fn_card_in(self, node):
        """card_in(S, C) = |S intersect C| ; exact facts are emitted when S grows by set.add (see card_in_facts_add)."""
        s_, c_ = self.ev(node.args[0]), self.ev(node.args[1])
        if V.is_empty_literal(s_) or V.is_empty_literal(c_):
            return V.mk_int(0)
        r = card_in_app(s_, c_)
        (es,) = s_.ty.elem.sorts()
        self.facts.extend(O.facts_for_card(c_))
        self.facts.append(r >= 0)
        self.facts.append(r <= V.set_card(c_))
        self.facts.append(z3.Implies(s_.t == z3.K(es, z3.BoolVal(False)), r == 0))
        self.facts.append(z3.Implies(O.set_subset(c_, s_), r == V.set_card(c_)))
        seen = getattr(self.ex, "card_in_seen", None)
        if seen is not None:
            seen[c_.t.sexpr()] = c_
        return V.mk_int(r)

    def fn_sel(self, node):
        """sel(set_or_dict, key) -> membership bool (alias of `in`)."""
        return V.mk_bool(O.contains(self.ev(node.args[0]), self.ev(node.args[1])))


def generalize_facts(local, bound, mark, where):
    """Facts produced while evaluating a term under a binder (cardinality / fold / well-formedness schemas, ensures of pure
    contracts) may mention the bound variables.  They are instances of statements valid for every value, so they are
    generalised over the bound variables; a fact that *defines* a fresh symbol in terms of a bound variable cannot be
    generalised (one symbol, many definitions) and is refused."""
    out = []
    bnames = {b.decl().name() for b in bound}
    for f in local:
        syms = V.free_symbols(f)
        if not (syms & bnames):
            out.append(f)
            continue
        fresh_defs = [n for n in syms - bnames if V.serial_of(n) > mark]
        if fresh_defs:
            raise SpecError(f"under {where} a sub-term needs a fresh symbol ({fresh_defs[0]}) defined in terms of the bound variable; restate without it")
        out.append(z3.ForAll(list(bound), f))
    return out


_ufs = {}
_fold_fns = {}
_misc_fns = {}


def nameset_app(ex, lst, st, facts):
    if lst.ty.elem.kind != "ref":
        raise UnsupportedError("nameset() of a list of non-objects")
    rec, fty = S.lookup_field(lst.ty.elem.name, "name")
    if rec is None or fty.kind != "name":
        raise UnsupportedError("nameset(): elements have no Name-typed field `name`")
    (harr,) = st.heap.key_arrays(rec, "name", fty)
    parts = list(lst.parts) + [harr]
    key = ("nameset", tuple(p.sort().sexpr() for p in parts))
    if key not in _misc_fns:
        _misc_fns[key] = z3.Function(f"nameset_{len(_misc_fns)}", *([p.sort() for p in parts] + [z3.ArraySort(T.NameSort, z3.BoolSort())]))
    r = Val(T.SetT(T.NAME), [_misc_fns[key](*parts)])
    n = V.list_len(lst)
    i, j = z3.Int(V.fresh_name("qi")), z3.Int(V.fresh_name("qj"))
    x = z3.Const(V.fresh_name("qx"), T.NameSort)
    idx = z3.Function(V.fresh_name("ns_idx"), T.NameSort, z3.IntSort())
    nm = lambda k: z3.Select(harr, V.list_get(lst, k).t)
    facts.append(z3.ForAll([i], z3.Implies(z3.And(0 <= i, i < n), z3.Select(r.t, nm(i)))))
    facts.append(z3.ForAll([x], z3.Implies(z3.Select(r.t, x), z3.And(0 <= idx(x), idx(x) < n, nm(idx(x)) == x))))
    facts.extend(O.facts_for_card(r))
    facts.append(V.set_card(r) <= n)
    # pigeonhole (finite-set lemma schema): pairwise distinct names => as many names as elements
    facts.append(z3.Implies(z3.ForAll([i, j], z3.Implies(z3.And(0 <= i, i < j, j < n), nm(i) != nm(j))), V.set_card(r) == n))
    return r


def card_in_app(s_, c_):
    key = ("card_in", s_.t.sort().sexpr())
    if key not in _misc_fns:
        _misc_fns[key] = z3.Function(f"card_in_{len(_misc_fns)}", s_.t.sort(), c_.t.sort(), z3.IntSort())
    return _misc_fns[key](s_.t, c_.t)


def card_in_facts_add(ex, old, new, x):
    """new = old + {x}: |new & C| = |old & C| + [x in C and x not in old] for every C seen in card_in(., C)."""
    out = []
    for c_ in getattr(ex, "card_in_seen", {}).values():
        if c_.ty != new.ty or V.is_empty_literal(old):
            continue
        out.append(card_in_app(new, c_) == card_in_app(old, c_) + z3.If(z3.And(z3.Select(c_.t, x.t), z3.Not(z3.Select(old.t, x.t))), 1, 0))
    return out



def fold_app(ex, name, lst, st):
    """fold_name(list parts, heap maps the term reads) as an uninterpreted function."""
    elem, term, rty = S.FOLDS[name]
    if lst.ty.elem != elem:
        raise UnsupportedError(f"fold {name} over {lst.ty}")
    heaps = fold_heap_args(ex, name, st)
    parts = list(lst.parts) + heaps
    key = (name, tuple(p.sort().sexpr() for p in parts))
    if key not in _fold_fns:
        _fold_fns[key] = z3.Function(f"fold_{name}_{len(_fold_fns)}", *([p.sort() for p in parts] + list(rty.sorts())))
    return Val(rty, [_fold_fns[key](*parts)])


def fold_heap_args(ex, name, st):
    """The heap field maps mentioned in the fold's term (x.attr reads), in a fixed order."""
    elem, term, rty = S.FOLDS[name]
    out = []
    if elem.kind == "ref":
        tree = S.parse_clause(term)
        attrs = sorted({n.attr for n in ast.walk(tree) if isinstance(n, ast.Attribute) and isinstance(n.value, ast.Name) and n.value.id == "x"})
        for a in attrs:
            rec, fty = S.lookup_field(elem.name, a)
            if rec is None:
                raise UnsupportedError(f"fold {name}: unknown field {a}")
            out += st.heap.key_arrays(rec, a, fty)
    return out


def fold_term(ex, name, x, st, facts):
    elem, term, rty = S.FOLDS[name]
    return SpecEval(ex, st, st, {"x": x}, facts).ev(S.parse_clause(term))


def fold_facts_append(ex, old, new, x, st):
    """Facts for new = old + [x] for every declared fold over this element type."""
    out = []
    for name, (elem, term, rty) in S.FOLDS.items():
        if new.ty.kind == "list" and new.ty.elem == elem:
            facts = []
            t = fold_term(ex, name, O.coerce(x, elem), st, facts)
            prev = fold_app(ex, name, old, st).t if not V.is_empty_literal(old) else z3.IntVal(0)
            out.extend(facts)
            if not V.is_empty_literal(old):
                out.append(z3.Implies(V.list_len(old) == 0, prev == 0))
            out.append(fold_app(ex, name, new, st).t == prev + t.t)
    return out


def fold_facts_point_update(ex, rec, field, ref, pre, post):
    """Point-update lemma (proved once by induction, see props/lemmas.py: lemma_fold_point_update):
    for a list L of pairwise distinct references, writing field `field` of `ref` changes fold(L) by
    term_post(ref) - term_pre(ref) if ref occurs in L, and not at all otherwise."""
    out = []
    key = S.fkey(rec, field)
    for name, lists in getattr(ex, "fold_seen", {}).items():
        elem, term, rty = S.FOLDS[name]
        if elem.kind != "ref":
            continue
        tree = S.parse_clause(term)
        attrs = {n.attr for n in ast.walk(tree) if isinstance(n, ast.Attribute) and isinstance(n.value, ast.Name) and n.value.id == "x"}
        if not any(S.fkey(*S.lookup_field(elem.name, a)[:1], a) == key for a in attrs if S.lookup_field(elem.name, a)[0] is not None):
            continue
        for lst in lists.values():
            facts = []
            x = Val(elem, [ref])
            t0 = fold_term(ex, name, x, pre, facts)
            t1 = fold_term(ex, name, x, post, facts)
            f0 = fold_app(ex, name, lst, pre).t
            f1 = fold_app(ex, name, lst, post).t
            n = V.list_len(lst)
            i, j = z3.Int(V.fresh_name("qi")), z3.Int(V.fresh_name("qj"))
            distinct = z3.ForAll([i, j], z3.Implies(z3.And(0 <= i, i < j, j < n), V.list_get(lst, i).t != V.list_get(lst, j).t))
            inlist = z3.Exists([i], z3.And(0 <= i, i < n, V.list_get(lst, i).t == ref))
            out.extend(facts)
            out.append(z3.Implies(z3.And(distinct, inlist), f1 == f0 - t0.t + t1.t))
            out.append(z3.Implies(z3.Not(inlist), f1 == f0))
    return out


def fold_facts_concat(ex, a, b, new, st):
    out = []
    for name, (elem, term, rty) in S.FOLDS.items():
        if new.ty.kind == "list" and new.ty.elem == elem and a.ty == new.ty and b.ty == new.ty:
            out.append(fold_app(ex, name, new, st).t == fold_app(ex, name, a, st).t + fold_app(ex, name, b, st).t)
    return out


def apply_uf(name, rty, args):
    parts = []
    for a in args:
        parts += list(a.parts)
    sorts = [p.sort() for p in parts]
    out = []
    for i, rs in enumerate(rty.sorts()):
        key = (name, i, tuple(s.sexpr() for s in sorts), rs.sexpr())
        if key not in _ufs:
            _ufs[key] = z3.Function(f"uf_{name}_{i}_{len(_ufs)}", *(sorts + [rs]))
        out.append(_ufs[key](*parts) if parts else z3.Const(f"ufc_{name}_{i}", rs))
    return Val(rty, out)


def const_value(c):
    if c is None:
        return V.NONE
    if isinstance(c, bool):
        return V.mk_bool(c)
    if isinstance(c, int):
        return V.mk_int(c)
    if isinstance(c, float):
        return V.mk_real(repr(c))
    if isinstance(c, str):
        return O.strlit(c)
    raise UnsupportedError(f"constant {c!r}")


def pure_len(v, facts):
    k = v.ty.kind
    if k == "empty":
        return V.mk_int(0)
    if k == "list":
        return V.mk_int(V.list_len(v))
    if k == "set":
        facts.extend(O.facts_for_card(v))
        return V.mk_int(V.set_card(v))
    if k == "dict":
        s = V.dict_keys(v)
        facts.extend(O.facts_for_card(s))
        return V.mk_int(V.set_card(s))
    if k == "str":
        return V.mk_int(z3.Length(v.t))
    if k == "tuple":
        return V.mk_int(len(v.ty.args))
    raise UnsupportedError(f"len() of {v.ty}")


_str_of = {}


def pure_str(v):
    """str(x).  Names and opaque text are their own string form (a str of a str is itself)."""
    k = v.ty.kind
    if k in ("str", "name", "opaque", "strlit"):
        return v
    if k == "int":
        # injective uninterpreted function Int -> String (decimal digits not modelled)
        if "int" not in _str_of:
            _str_of["int"] = z3.Function("str_of_int", z3.IntSort(), z3.StringSort())
        return V.mk_str(_str_of["int"](v.t))
    raise UnsupportedError(f"str() of {v.ty}")


def binop(op, a, b, facts):
    if V.is_empty_literal(a, "list") or V.is_empty_literal(b, "list") or a.ty.kind == "list":
        if isinstance(op, ast.Add):
            return O.list_concat(a, b, facts)
    if a.ty.kind in ("set",) or V.is_empty_literal(a, "set"):
        if isinstance(op, ast.Sub):
            return O.set_binop("difference", a, b, facts)
        if isinstance(op, ast.BitAnd):
            return O.set_binop("intersection", a, b, facts)
        if isinstance(op, ast.BitOr):
            return O.set_binop("union", a, b, facts)
    if a.ty.kind == "opaque" and isinstance(op, ast.Div):
        bb = O.coerce(b, T.OPAQUE) if (O.is_strlit(b) or b.ty.kind != "opaque") else b
        return apply_uf("pathjoin", T.OPAQUE, [a, bb])       # pathlib: Path / name
    if a.ty.kind in ("opaque", "name") or b.ty.kind in ("opaque", "name"):
        if isinstance(op, ast.Add):
            aa = O.coerce(a, T.OPAQUE) if O.is_strlit(a) else a
            bb = O.coerce(b, T.OPAQUE) if O.is_strlit(b) else b
            return apply_uf("concat", T.OPAQUE, [aa, bb])
    if a.ty.kind in ("str", "strlit") or b.ty.kind in ("str", "strlit"):
        if isinstance(op, ast.Add):
            return V.mk_str(z3.Concat(O.coerce(a, T.STR).t, O.coerce(b, T.STR).t))
    return O.num_binop(op, a, b)


def pure_method(recv, name, args, facts):
    """Non-mutating methods of built-in containers."""
    recv = O.strip_opt(recv)
    k = recv.ty.kind
    if k in ("set", "empty") and name in ("intersection", "difference", "union", "issubset", "isdisjoint", "copy"):
        if k == "empty":
            recv = V.empty_set(args[0].ty.elem) if args and args[0].ty.kind == "set" else recv
        if name == "copy":
            return recv
        if args and isinstance(args[0], Val) and args[0].ty.kind not in ("set", "dict", "empty"):
            raise UnsupportedError(f"set.{name}() with a {args[0].ty} argument")
        if name == "issubset":
            return V.mk_bool(O.set_subset(recv, args[0]))
        if V.is_empty_literal(recv):
            raise UnsupportedError("set operation on an untyped empty set")
        other = args[0]
        if V.is_empty_literal(other):
            other = V.empty_set(recv.ty.elem)
        if name == "isdisjoint":
            r = O.set_binop("intersection", recv, other, facts)
            return V.mk_bool(z3.Not(O.truth(r)))
        return O.set_binop(name, recv, other, facts)
    if k == "dict" and name == "get":
        rawkey = args[0]
        key_none = O.is_none(rawkey)
        if rawkey.ty.kind == "none":
            return args[1] if len(args) > 1 else V.NONE
        key = O.coerce(O.strip_opt(rawkey), recv.ty.args[0])
        present = z3.And(z3.Not(key_none), V.dict_has(recv, key))
        val = V.dict_get(recv, key)
        default = args[1] if len(args) > 1 else V.NONE
        a, b = V.unify(val, default)
        return V.ite(present, a, b)
    if k == "dict" and name == "keys":
        return V.dict_keys(recv)
    if k == "dict" and name == "copy":
        return recv
    if k == "list" and name == "copy":
        return recv
    if k == "str":
        if name == "startswith":
            return V.mk_bool(z3.PrefixOf(O.coerce(args[0], T.STR).t, recv.t))
        if name == "endswith":
            return V.mk_bool(z3.SuffixOf(O.coerce(args[0], T.STR).t, recv.t))
    raise UnsupportedError(f"method {name} on {recv.ty}")
