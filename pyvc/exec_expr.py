"""Code-mode expression evaluation: forks on short-circuit operators and on calls that may
raise; emits safety obligations for implicit exceptions."""
import ast
import z3
from . import ty as T
from . import values as V
from . import ops as O
from . import spec as S
from .values import Val, UnsupportedError
from .state import State, Raise, GlobalRef, BoundMethod
from .speceval import SpecEval, const_value, binop, pure_len, pure_str, pure_method, apply_uf
from .exec_core import ExecBase, LOG_ROOTS


class ExprMixin(ExecBase):
    # every ev_* is a generator of (Val | GlobalRef | BoundMethod | Raise, State)
    def ev(self, node, st):
        if hasattr(node, "lineno"):
            self.cur_line = node.lineno
        m = getattr(self, "ev_" + type(node).__name__, None)
        if m is None:
            raise UnsupportedError(f"unsupported expression {type(node).__name__} at line {getattr(node, 'lineno', '?')}: {ast.unparse(node)[:80]}")
        yield from m(node, st)

    def ev_value(self, node, st):
        """Like ev, but the result must be a symbolic value."""
        for r, s in self.ev(node, st):
            if isinstance(r, BoundMethod) and isinstance(r.recv, Val) and r.recv.ty.kind == "ref":
                # a bound method used as a value (callback): its receiver, with the method recorded in the type; where an
                # Opaque is expected it becomes a token determined by receiver and method name (values.coerce)
                yield Val(T.Ty("method", (), f"{r.recv.ty.name}.{r.name}"), [r.recv.t]), s
                continue
            if isinstance(r, (GlobalRef, BoundMethod)):
                raise UnsupportedError(f"{ast.unparse(node)[:60]} is not a value (line {getattr(node, 'lineno', '?')})")
            yield r, s

    def ev_many(self, nodes, st):
        """Left-to-right evaluation of several expressions -> (list | Raise, st)."""
        if not nodes:
            yield [], st
            return
        for r, s in self.ev_value(nodes[0], st):
            if isinstance(r, Raise):
                yield r, s
                continue
            for rest, s2 in self.ev_many(nodes[1:], s):
                if isinstance(rest, Raise):
                    yield rest, s2
                else:
                    yield [r] + rest, s2

    def ev_truth(self, node, st):
        """Evaluate a condition and fork: yields (True|False|Raise, st) with the branch assumed."""
        if isinstance(node, ast.UnaryOp) and isinstance(node.op, ast.Not):
            for r, s in self.ev_truth(node.operand, st):
                yield (r if isinstance(r, Raise) else (not r)), s
            return
        if isinstance(node, ast.BoolOp):
            is_and = isinstance(node.op, ast.And)

            def chain(values, s0):
                if not values:
                    yield is_and, s0
                    return
                for r, s1 in self.ev_truth(values[0], s0):
                    if isinstance(r, Raise):
                        yield r, s1
                    elif r != is_and:
                        yield r, s1          # short circuit
                    else:
                        yield from chain(values[1:], s1)
            yield from chain(node.values, st)
            return
        for r, s in self.ev_value(node, st):
            if isinstance(r, Raise):
                yield r, s
                continue
            c = z3.simplify(O.truth(r))
            if z3.is_true(c):
                yield True, s
                continue
            if z3.is_false(c):
                yield False, s
                continue
            for branch, cond in ((True, c), (False, z3.Not(c))):
                if self.feasible(s, cond):
                    s2 = s.clone()
                    s2.assume(cond)
                    s2.trace.append(f"L{getattr(node, 'lineno', '?')}:{'T' if branch else 'F'}")
                    yield branch, s2

    # ---- leaves --------------------------------------------------------------------------
    def ev_Constant(self, node, st):
        yield const_value(node.value), st

    def ev_Name(self, node, st):
        n = node.id
        if n in st.locals:
            yield st.locals[n], st
            return
        if n == "cls" and self.info and self.info.get("kind") == "classmethod" and "." in self.contract.key:
            yield GlobalRef("class", self.contract.key.split(".")[0]), st
            return
        g = self.resolve_global(n)
        if g is None:
            raise UnsupportedError(f"unknown name {n} at line {node.lineno}")
        yield g, st

    def ev_Attribute(self, node, st):
        for base, s in self.ev(node.value, st):
            if isinstance(base, Raise):
                yield base, s
                continue
            yield from self.attr_read(base, node.attr, s, node)

    def attr_read(self, base, attr, st, node):
        if isinstance(base, GlobalRef):
            yield self.global_attr(base, attr), st
            return
        if isinstance(base, BoundMethod):
            raise UnsupportedError(f"attribute of a bound method at line {node.lineno}")
        v = base
        if v.ty.kind == "opt":
            self.oblige("safe", st, z3.Not(V.opt_isnone(v)), f"`{ast.unparse(node.value)[:50]}` is not None when .{attr} is read", node.lineno)
            st.assume(z3.Not(V.opt_isnone(v)))
            v = V.opt_val(v)
        if v.ty.kind == "none":
            self.oblige("safe", st, z3.BoolVal(False), f"attribute .{attr} of None", node.lineno)
            yield Raise("AttributeError", node.lineno), st
            return
        if v.ty.kind == "enum" and attr == "value":
            yield self.attr_read_pure(v, attr, st), st
            return
        if v.ty.kind == "ref" and S.RECORDS.get(v.ty.name) is not None and S.RECORDS[v.ty.name].union:
            yield self.wf(st, self.union_read(v, attr, st)), st
            return
        if v.ty.kind == "ref":
            rec, fty = S.lookup_field(v.ty.name, attr)
            if rec is not None:
                yield self.wf(st, st.heap.read(rec, attr, fty, v.t)), st
                return
            c = S.lookup_method(v.ty.name, attr)
            if c is not None:
                if self.is_property(c):
                    yield from self.call_contract(c, v, [], {}, st, node, recv_node=node.value)
                else:
                    yield BoundMethod(v, attr, node.value), st
                return
            rec0 = S.RECORDS.get(v.ty.name)
            if rec0 is not None and attr in rec0.consts:
                cst = rec0.consts[attr]
                yield (cst() if callable(cst) else const_value(cst)), st
                return
            # not modelled: does the real class have it at all?
            names, complete = self.real_attrs(v.ty.name)
            if complete and attr not in names:
                self.oblige("attr", st, z3.BoolVal(False),
                            f"{v.ty.name} object has no attribute '{attr}' (AttributeError)", node.lineno,
                            extra={"attr": attr, "record": v.ty.name})
                yield Raise("AttributeError", node.lineno), st
                return
            # exists (or cannot be ruled out) but has neither a field nor a contract: usable only as an opaque callback value;
            # calling it is rejected at the call site ("no contract for method")
            yield BoundMethod(v, attr, node.value), st
            return
        if v.ty.is_container() or v.ty.kind in ("str", "empty", "tuple", "name", "opaque"):
            yield BoundMethod(v, attr, node.value), st
            return
        raise UnsupportedError(f"attribute .{attr} on {v.ty} at line {node.lineno}")

    def is_property(self, c):
        if c.file is None:
            return getattr(c, "is_property", False)
        from . import frontend as F
        _, info = F.find_function(c.file, c.qualname)
        return info["kind"] == "property"

    def ev_Subscript(self, node, st):
        if isinstance(node.slice, ast.Slice):
            sl = node.slice
            if sl.step is not None or sl.upper is not None:
                raise UnsupportedError(f"slice form at line {node.lineno}")
            for vals, s in self.ev_many([node.value] + ([sl.lower] if sl.lower is not None else []), st):
                if isinstance(vals, Raise):
                    yield vals, s
                    continue
                base = vals[0]
                lo = vals[1].t if len(vals) > 1 else z3.IntVal(0)
                if base.ty.kind != "list":
                    raise UnsupportedError(f"slice of {base.ty}")
                self.oblige("safe", s, lo >= 0, "slice start is non-negative (negative starts are not modelled)", node.lineno)
                facts = []
                r = O.list_slice_from(base, lo, facts)
                s.assume(*facts)
                yield r, s
            return
        for vals, s in self.ev_many([node.value, node.slice], st):
            if isinstance(vals, Raise):
                yield vals, s
                continue
            base, idx = vals
            yield from self.subscript_read(base, idx, s, node)

    def subscript_read(self, base, idx, st, node):
        if base.ty.kind == "opt":
            self.oblige("safe", st, z3.Not(V.opt_isnone(base)), "subscripted value is not None", node.lineno)
            base = V.opt_val(base)
        k = base.ty.kind
        if k == "list":
            i = idx.t
            n = V.list_len(base)
            if z3.is_int_value(i) and i.as_long() < 0:
                self.oblige("safe", st, n + i >= 0, f"list index {i} in range", node.lineno)
                yield V.list_get(base, n + i), st
            else:
                self.oblige("safe", st, z3.And(0 <= i, i < n), f"list index in range (IndexError) for `{ast.unparse(node)[:50]}`", node.lineno)
                yield V.list_get(base, i), st
            return
        if k == "dict":
            if idx.ty.kind == "opt" and base.ty.args[0].kind != "opt":
                # d[None] is a lookup of the key None, which a dict of names never holds
                self.oblige("safe", st, z3.Not(V.opt_isnone(idx)), f"dict key is not None (KeyError) for `{ast.unparse(node)[:60]}`", node.lineno)
                st.assume(z3.Not(V.opt_isnone(idx)))
                idx = V.opt_val(idx)
            key = O.coerce(idx, base.ty.args[0])
            present = V.dict_has(base, key)
            declared = self.contract.raises.get("KeyError")
            if declared is not None and self.feasible(st, z3.Not(present)):
                s2 = st.clone()
                s2.assume(z3.Not(present))
                yield Raise("KeyError", node.lineno), s2
                st.assume(present)
            else:
                self.oblige("safe", st, present, f"key present (KeyError) for `{ast.unparse(node)[:60]}`", node.lineno)
                st.assume(present)
            yield V.dict_get(base, key), st
            return
        if k == "tuple":
            if not z3.is_int_value(idx.t):
                raise UnsupportedError("tuple index must be a constant")
            yield V.tuple_items(base)[idx.t.as_long()], st
            return
        if k == "empty":
            self.oblige("safe", st, z3.BoolVal(False), "subscript of an empty container", node.lineno)
            yield Raise("KeyError", node.lineno), st
            return
        raise UnsupportedError(f"subscript on {base.ty} at line {node.lineno}")

    # ---- operators -----------------------------------------------------------------------
    def ev_BinOp(self, node, st):
        for vals, s in self.ev_many([node.left, node.right], st):
            if isinstance(vals, Raise):
                yield vals, s
                continue
            a, b = vals
            yield self.binop_checked(node.op, a, b, s, node), s

    def binop_checked(self, op, a, b, st, node):
        for side, v in (("left", a), ("right", b)):
            if v.ty.kind in ("opt", "none") and not isinstance(op, (ast.BitOr,)):
                self.oblige("safe", st, z3.Not(O.is_none(v)), f"{side} operand of {type(op).__name__} is not None (TypeError)", node.lineno)
                st.assume(z3.Not(O.is_none(v)))
        a, b = O.strip_opt(a), O.strip_opt(b)
        if isinstance(op, (ast.FloorDiv, ast.Mod, ast.Div)) and b.ty.kind in ("int", "real"):
            self.oblige("safe", st, b.t > 0 if isinstance(op, (ast.FloorDiv, ast.Mod)) else b.t != 0,
                        "divisor is positive (ZeroDivisionError; negative divisors not modelled)", node.lineno)
        facts = []
        r = binop(op, a, b, facts)
        st.assume(*facts)
        return r

    def ev_UnaryOp(self, node, st):
        if isinstance(node.op, ast.Not):
            for r, s in self.ev_value(node.operand, st):
                yield (r if isinstance(r, Raise) else V.mk_bool(z3.Not(O.truth(r)))), s
            return
        for r, s in self.ev_value(node.operand, st):
            if isinstance(r, Raise):
                yield r, s
            elif isinstance(node.op, ast.USub):
                yield (V.mk_int(-r.t) if r.ty.kind == "int" else V.mk_real(-r.t)), s
            else:
                raise UnsupportedError(f"unary operator at line {node.lineno}")

    def ev_BoolOp(self, node, st):
        # value context: `a or b` returns an operand, not a bool.
        if self._all_boolish(node):
            for r, s in self.ev_truth(node, st):
                yield (r if isinstance(r, Raise) else V.mk_bool(r)), s
            return
        is_and = isinstance(node.op, ast.And)

        def chain(values, s0):
            if len(values) == 1:
                yield from self.ev_value(values[0], s0)
                return
            for r, s1 in self.ev_value(values[0], s0):
                if isinstance(r, Raise):
                    yield r, s1
                    continue
                c = z3.simplify(O.truth(r))
                for branch, cond in ((True, c), (False, z3.Not(c))):
                    if z3.is_false(cond) or not self.feasible(s1, cond):
                        continue
                    s2 = s1.clone()
                    s2.assume(cond)
                    if branch != is_and:
                        yield r, s2
                    else:
                        yield from chain(values[1:], s2)
        yield from chain(node.values, st)

    def _all_boolish(self, node):
        def boolish(n):
            if isinstance(n, ast.BoolOp):
                return all(boolish(v) for v in n.values)
            return isinstance(n, (ast.Compare,)) or (isinstance(n, ast.UnaryOp) and isinstance(n.op, ast.Not)) \
                or (isinstance(n, ast.Constant) and isinstance(n.value, bool))
        return boolish(node)

    def ev_Compare(self, node, st):
        for vals, s in self.ev_many([node.left] + list(node.comparators), st):
            if isinstance(vals, Raise):
                yield vals, s
                continue
            out = []
            for op, a, b in zip(node.ops, vals, vals[1:]):
                if isinstance(op, (ast.Lt, ast.LtE, ast.Gt, ast.GtE)):
                    for side, v in (("left", a), ("right", b)):
                        if v.ty.kind in ("opt", "none"):
                            self.oblige("safe", s, z3.Not(O.is_none(v)), f"{side} operand of an ordering comparison is not None (TypeError)", node.lineno)
                            s.assume(z3.Not(O.is_none(v)))
                    a, b = O.strip_opt(a), O.strip_opt(b)
                if isinstance(op, (ast.In, ast.NotIn)) and b.ty.kind in ("opt", "none"):
                    self.oblige("safe", s, z3.Not(O.is_none(b)), "container of `in` is not None (TypeError)", node.lineno)
                    b = O.strip_opt(b)
                out.append(O.compare(op, a, b))
            yield V.mk_bool(z3.And(out) if len(out) > 1 else out[0]), s

    def ev_IfExp(self, node, st):
        for r, s in self.ev_truth(node.test, st):
            if isinstance(r, Raise):
                yield r, s
            else:
                yield from self.ev_value(node.body if r else node.orelse, s)

    # ---- displays ------------------------------------------------------------------------
    def ev_Tuple(self, node, st):
        for vals, s in self.ev_many(node.elts, st):
            yield (vals if isinstance(vals, Raise) else V.mk_tuple([self._lit(v) for v in vals])), s

    def _lit(self, v):
        if O.is_strlit(v):
            return O.coerce(v, T.STR if self.contract.strings == "text" else T.OPAQUE)
        return v

    def ev_List(self, node, st):
        for vals, s in self.ev_many(node.elts, st):
            if isinstance(vals, Raise):
                yield vals, s
                continue
            out = V.EMPTY_LIST
            for v in vals:
                out = V.list_append(out, self._lit(v))
            yield out, s

    def ev_Set(self, node, st):
        for vals, s in self.ev_many(node.elts, st):
            if isinstance(vals, Raise):
                yield vals, s
                continue
            out = V.EMPTY_SET
            facts = []
            for v in vals:
                out = O.set_add(out, v, facts)
            s.assume(*facts)
            yield out, s

    def ev_Dict(self, node, st):
        if any(k is None for k in node.keys):
            raise UnsupportedError("dict unpacking in display")
        for vals, s in self.ev_many(list(node.keys) + list(node.values), st):
            if isinstance(vals, Raise):
                yield vals, s
                continue
            n = len(node.keys)
            vs = [self._lit(v) for v in vals[n:]]
            if len({repr(v.ty) for v in vs if v.ty.kind not in ("none",)}) > 1:
                # heterogeneous literal (a JSON-like record): its content is not inspected further
                yield apply_uf(f"dictlit_L{node.lineno}", T.OPAQUE, [v for v in vs if v.parts]), s
                continue
            out = V.EMPTY_DICT
            for k, v in zip(vals[:n], vs):
                if O.is_strlit(k):
                    k = O.coerce(k, T.NAME)
                out = V.dict_set(out, k, v)
            yield out, s

    def ev_JoinedStr(self, node, st):
        exprs = [v.value for v in node.values if isinstance(v, ast.FormattedValue)]
        for vals, s in self.ev_many(exprs, st):
            if isinstance(vals, Raise):
                yield vals, s
                continue
            it = iter(vals)
            if self.contract.strings == "text":
                parts = []
                for v in node.values:
                    if isinstance(v, ast.Constant):
                        parts.append(z3.StringVal(v.value))
                    else:
                        if v.format_spec is not None or v.conversion not in (-1, 115):
                            raise UnsupportedError("format spec in f-string")
                        x = next(it)
                        if x.ty.kind == "opt":
                            # str(None) would silently put "None" into the text: treated as an error here
                            self.oblige("safe", s, z3.Not(V.opt_isnone(x)), "value formatted into text is not None", node.lineno)
                            s.assume(z3.Not(V.opt_isnone(x)))
                            x = V.opt_val(x)
                        parts.append(O.coerce(pure_str(x), T.STR).t)
                yield V.mk_str(z3.Concat(parts) if len(parts) > 1 else (parts[0] if parts else z3.StringVal(""))), s
            else:
                args = []
                for x in vals:
                    if isinstance(x, Val) and x.parts:
                        args.append(x)
                yield apply_uf(f"fstr_L{node.lineno}_{node.col_offset}", T.OPAQUE, args), s
