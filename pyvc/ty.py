"""Static type tags of symbolic values and their flattening into z3 sorts.

Every type flattens to a tuple of z3 sorts ("parts"); containers lift the parts of
their element type into arrays.  This makes heap fields, list elements and dict values
uniform: a field of type T of class C is stored as one z3 array Ref->sort per part.
"""
import re
import z3

NameSort = z3.DeclareSort("Name")      # strings used as identifiers (equality only)
RefSort = z3.DeclareSort("Ref")        # object references
OpaqueSort = z3.DeclareSort("Opaque")  # values we never look into (paths, loggers, ...)

_ENUMS = {}   # enum name -> (sort, {member: const}, {member: python value})


def declare_enum(name, members, values=None):
    if name in _ENUMS:
        old = _ENUMS[name]
        if list(old[1].keys()) != list(members):
            raise TypeError(f"enum {name} re-declared with different members")
        return old
    sort, consts = z3.EnumSort("E_" + name, list(members))
    _ENUMS[name] = (sort, dict(zip(members, consts)), dict(values or {}))
    return _ENUMS[name]


ENUM_LOADER = None   # set by spec.py: declares an enum from the real class body on first use


def enum_info(name):
    if name not in _ENUMS and ENUM_LOADER is not None:
        ENUM_LOADER(name)
    return _ENUMS[name]


def has_enum(name):
    return name in _ENUMS


class Ty:
    __slots__ = ("kind", "args", "name")

    def __init__(self, kind, args=(), name=None):
        self.kind = kind
        self.args = tuple(args)
        self.name = name

    def __repr__(self):
        if self.kind in ("enum", "ref"):
            return f"{self.kind.capitalize()}[{self.name}]"
        if self.args:
            return f"{self.kind.capitalize()}[{','.join(map(repr, self.args))}]"
        return self.kind

    def __eq__(self, other):
        return isinstance(other, Ty) and (self.kind, self.args, self.name) == (other.kind, other.args, other.name)

    def __hash__(self):
        return hash((self.kind, self.args, self.name))

    # ---- flattening -------------------------------------------------------------------
    def sorts(self):
        k = self.kind
        if k == "int":
            return (z3.IntSort(),)
        if k == "bool":
            return (z3.BoolSort(),)
        if k == "real":
            return (z3.RealSort(),)
        if k == "name":
            return (NameSort,)
        if k == "str":
            return (z3.StringSort(),)
        if k == "opaque":
            return (OpaqueSort,)
        if k in ("none", "empty", "strlit"):
            return ()
        if k == "enum":
            return (enum_info(self.name)[0],)
        if k in ("ref", "method"):
            return (RefSort,)        # method: a bound method value = its receiver (the method is part of the type)
        if k == "opt":
            return (z3.BoolSort(),) + self.args[0].sorts()
        if k == "set":
            (e,) = self.args[0].sorts()
            return (z3.ArraySort(e, z3.BoolSort()),)
        if k == "list":
            return tuple(z3.ArraySort(z3.IntSort(), s) for s in self.args[0].sorts()) + (z3.IntSort(),)
        if k == "dict":
            (ks,) = self.args[0].sorts()
            return (z3.ArraySort(ks, z3.BoolSort()),) + tuple(z3.ArraySort(ks, s) for s in self.args[1].sorts())
        if k == "tuple":
            out = ()
            for a in self.args:
                out += a.sorts()
            return out
        raise TypeError(f"unknown type kind {k}")

    @property
    def elem(self):
        return self.args[0]

    def is_container(self):
        return self.kind in ("set", "list", "dict")

    def is_scalar(self):
        return self.kind in ("int", "bool", "real", "name", "str", "opaque", "enum", "ref")


INT = Ty("int")
BOOL = Ty("bool")
REAL = Ty("real")
NAME = Ty("name")
STR = Ty("str")
OPAQUE = Ty("opaque")
NONE = Ty("none")


def Opt(t):
    return Ty("opt", (t,))


def SetT(t):
    return Ty("set", (t,))


def ListT(t):
    return Ty("list", (t,))


def DictT(k, v):
    return Ty("dict", (k, v))


def TupleT(*ts):
    return Ty("tuple", ts)


def Ref(cls):
    return Ty("ref", (), cls)


def Enum(name):
    return Ty("enum", (), name)


_TOK = re.compile(r"\s*([A-Za-z_][A-Za-z_0-9]*|\[|\]|,|\.)")


def parse_ty(text):
    """Parse 'Dict[Name,Ref[Job]]' style type strings."""
    if isinstance(text, Ty):
        return text
    toks = _TOK.findall(text)
    if "".join(toks) != re.sub(r"\s+", "", text):
        raise TypeError(f"bad type syntax: {text!r}")
    pos = [0]

    def peek():
        return toks[pos[0]] if pos[0] < len(toks) else None

    def take(expected=None):
        t = peek()
        if expected is not None and t != expected:
            raise TypeError(f"bad type {text!r}: expected {expected} got {t}")
        pos[0] += 1
        return t

    def parse():
        head = take()
        args = []
        if peek() == "[":
            take("[")
            if head in ("Ref", "Enum"):
                nm = take()
                take("]")
                return Ref(nm) if head == "Ref" else Enum(nm)
            if head == "Method":
                nm = take()
                while peek() == ".":
                    take(".")
                    nm += "." + take()
                take("]")
                return Ty("method", (), nm)
            args.append(parse())
            while peek() == ",":
                take(",")
                args.append(parse())
            take("]")
        simple = {"int": INT, "bool": BOOL, "real": REAL, "float": REAL, "Name": NAME, "Str": STR,
                  "Opaque": OPAQUE, "None": NONE}
        if head in simple and not args:
            return simple[head]
        if head == "Opt":
            return Opt(*args)
        if head == "Set":
            return SetT(*args)
        if head == "List":
            return ListT(*args)
        if head == "Dict":
            return DictT(*args)
        if head == "Tuple":
            return TupleT(*args)
        raise TypeError(f"unknown type {head} in {text!r}")

    t = parse()
    if pos[0] != len(toks):
        raise TypeError(f"trailing tokens in type {text!r}")
    return t
