"""./check <Cxx> [--tier quick|thorough] [--replay FILE]

Exit codes: 0 property held on everything explored; 1 violation (VIOLATION line printed);
2 undecided (an obligation could not be decided and no failing input was found);
3 checker failure (traceback, vacuous run, cover/canary failure).
"""
import argparse
import importlib
import json
import os
import random
import subprocess
import sys
import tempfile
import time
import traceback

ROOT = os.path.dirname(os.path.dirname(os.path.abspath(__file__)))
sys.path.insert(0, ROOT)

from pyvc import spec as S                     # noqa: E402
from pyvc import frontend as F                 # noqa: E402
from pyvc.verifier import verify_function      # noqa: E402
from pyvc.discharge import discharge, second_opinion   # noqa: E402
from pyvc.state import Obligation              # noqa: E402

NATIVE_PY = os.environ.get("VERIF_NATIVE_PY", "/venv/bin/python")
REPO = F.REPO

GLOBAL_TRUSTED = [
    "pyvc (this VC generator), z3 5.1 / cvc5 1.0.3, CPython ast",
    "encoding of Python semantics per DESIGN.md 3.2 (ints exact; floats as reals; containers by value, objects by reference; dict/set iteration order arbitrary)",
    "dropped by extraction: docstrings, annotations, logging/print calls (arguments still checked for attribute-safety), @timed_* decorators",
]


def load_contracts():
    cdir = os.path.join(ROOT, "contracts")
    import contracts as _c
    names = [f[:-3] for f in sorted(os.listdir(cdir)) if f.endswith(".py") and not f.startswith("_")]
    for name in [n for n in _c.ORDER if n in names] + [n for n in names if n not in _c.ORDER]:
        importlib.import_module("contracts." + name)


def load_prop(pid):
    mod = importlib.import_module("props." + pid)
    return mod.PROP


def load_findings():
    path = os.path.join(ROOT, "known_findings.json")
    if not os.path.exists(path):
        return []
    with open(path) as f:
        return json.load(f).get("findings", [])


def start_native(keys, tier, seed, budget):
    if not keys:
        return None, None
    out = tempfile.NamedTemporaryFile("w", suffix=".json", delete=False)
    out.close()
    env = dict(os.environ)
    env["PYTHONPATH"] = REPO + os.pathsep + ROOT
    env["VERIF_REPO"] = REPO
    cmd = [NATIVE_PY, os.path.join(ROOT, "replay", "native.py"), "run", "--keys", ",".join(keys), "--tier", tier,
           "--seed", str(seed), "--out", out.name, "--budget", str(budget)]
    p = subprocess.Popen(cmd, env=env, stdout=subprocess.PIPE, stderr=subprocess.PIPE, text=True, cwd=ROOT)
    return p, out.name


def finish_native(p, path, timeout):
    if p is None:
        return {"results": {}}
    try:
        so, se = p.communicate(timeout=timeout)
    except subprocess.TimeoutExpired:
        p.kill()
        so, se = p.communicate()
        return {"results": {}, "error": "native harness timed out"}
    try:
        with open(path) as f:
            data = json.load(f)
    except Exception:
        data = {"results": {}, "error": f"native harness produced no output (rc={p.returncode}): {se[-800:]}"}
    finally:
        try:
            os.unlink(path)
        except OSError:
            pass
    return data


def obligation_failed(o):
    if o.expect == "unsat":
        if o.extra.get("definite") and o.verdict != "unsat":
            return True      # the goal is literally False (e.g. an invariant over a variable that no longer exists here): fails unless the path is infeasible
        return o.verdict == "sat"
    return o.verdict == "unsat"      # cover / canary refuted


def obligation_undecided(o):
    if o.expect == "unsat":
        if o.extra.get("definite"):
            return False
        return o.verdict not in ("sat", "unsat")
    return False                     # covers: unknown == not refuted


def _finding_applies(fd, pid):
    props = fd.get("properties") or [fd.get("property")]
    return pid in props and fd.get("status", "open").startswith("open")


def finding_matches(fd, pid, func, kind, text):
    """Does the open finding `fd` cover the failing obligation (func, kind, text)?"""
    if not _finding_applies(fd, pid):
        return False
    if fd.get("function") and fd["function"] != func:
        return False
    if fd.get("kind") and fd["kind"] != kind:
        return False
    if fd.get("match") and fd["match"] not in (text or ""):
        return False
    return True


def native_finding(findings, pid, func, failure):
    """The open finding a run-time failure belongs to: every failed clause must carry the finding's `native_match` text and
    the failing input must have the finding's `witness` attributes - anything else is a different violation."""
    failed = failure.get("failed") or []
    case = failure.get("case") or {}
    for fd in findings:
        if not _finding_applies(fd, pid) or (fd.get("function") and fd["function"] != func):
            continue
        nm = fd.get("native_match")
        if not nm or not failed or not all(nm in str(x) for x in failed):
            continue
        if any(case.get(k) != v for k, v in (fd.get("witness") or {}).items()):
            continue
        return fd
    return None


def run_check(pid, tier, seed):
    t0 = time.time()
    load_contracts()
    prop = load_prop(pid)
    findings = load_findings()
    funcs = list(prop.get("functions", []))
    native_keys = list(prop.get("native", []))
    budget = prop.get("native_budget", {}).get(tier, 25 if tier == "quick" else 240)
    proc, npath = start_native(native_keys, tier, seed, budget)

    results = []
    all_obs, all_covers = [], []
    undecided_funcs = []
    for key in funcs:
        c = S.CONTRACTS.get(key)
        if c is None:
            raise RuntimeError(f"{pid}: no contract named {key}")
        res = verify_function(c, tier)
        results.append(res)
        all_obs += res["obligations"]
        all_covers += res["covers"]
        if res["status"] != "ok":
            undecided_funcs.append((key, res["reason"]))
    # lemmas over contracts
    lemma_obs = []
    for lname in prop.get("lemmas", []):
        mod = importlib.import_module("props.lemmas")
        obs = getattr(mod, lname)()
        lemma_obs += obs
    # record / attribute cross-check
    rec_problems = check_records(prop, results)

    for o in all_obs:
        # an obligation that a recorded OPEN finding sets aside is known not to be provable: no second (escalated) solver round for it
        if any(finding_matches(f, pid, o.func, o.kind, o.desc) for f in findings):
            o.extra["no_escalate"] = True
    summ = discharge(all_obs + lemma_obs, escalate=True)
    csumm = discharge(all_covers, use_cvc5=False, z3_timeout=3000)
    tlog = os.environ.get("VERIF_TIMING_LOG")
    if tlog:
        # development aid: per-obligation verdict/back end/solver time, to find obligations that sit close to their budget
        with open(tlog, "a") as f:
            for o in all_obs + lemma_obs + all_covers:
                f.write(json.dumps({"prop": pid, "id": o.id, "kind": o.kind, "expect": o.expect, "verdict": o.verdict, "backend": o.backend,
                                    "t": round(o.time or 0.0, 3), "attempts": getattr(o, "attempts", None), "sha": getattr(o, "sha", None), "reason": (getattr(o, "reason", "") or "")[:120]}) + "\n")
    disagreements = []
    cvc5_decided = 0
    second_sampled = 0
    if tier == "thorough":
        # independent second discharge with cvc5: every lemma obligation and a seeded sample of the code obligations (bounded so that the
        # thorough tier of the largest property stays within tens of minutes); the sample size is reported in the evidence
        cap = int(os.environ.get("VERIF_SECOND_OPINION_MAX", "1200"))
        pool = list(all_obs)
        random.Random(seed).shuffle(pool)
        sample = lemma_obs + pool[:cap]
        second_sampled = len(sample)
        disagreements, cvc5_decided, _ = second_opinion(sample)
    native = finish_native(proc, npath, budget * max(1, len(native_keys)) + 120)

    # ---- classify -------------------------------------------------------------------------
    obs = all_obs + lemma_obs
    failed = [o for o in obs if obligation_failed(o)]
    undec = [o for o in obs if obligation_undecided(o)]
    # vacuity: the precondition cover must not be refuted, and per function at least one exit path must be reachable
    cover_refuted = [o for o in all_covers if o.kind == "cover" and obligation_failed(o)]
    # a call site whose callee can return normally on none of the covered paths: the assumed postcondition contradicts the caller's state
    sites = {}
    for o in all_covers:
        if o.kind == "callret":
            sites.setdefault(o.extra.get("site"), []).append(o)
    for site, cs in sites.items():
        if cs and all(obligation_failed(o) for o in cs):
            cover_refuted.append(cs[0])
    by_fn = {}
    for o in all_covers:
        if o.kind == "canary":
            by_fn.setdefault(o.func, []).append(o)
    for fn_, cs in by_fn.items():
        if cs and all(obligation_failed(o) for o in cs):
            cover_refuted.append(cs[0])
    nres = native.get("results", {})
    native_err = {k: v for k, v in nres.items() if v.get("status") in ("error",) or (v.get("status") == "no-harness")}
    # run-time failures: those that are exactly a recorded open finding are set aside, the rest can witness a violation
    native_known = {}
    native_fail = {}
    for k, v in nres.items():
        for f in v.get("failures") or []:
            fd = native_finding(findings, pid, k, f)
            if fd:
                native_known.setdefault(k, []).append((fd, f))
            else:
                native_fail.setdefault(k, []).append(f)

    def pick_native(func, o):
        fs = native_fail.get(func)
        if not fs:
            # a harness registered under another function may exercise this one too: its failures name the function
            fs = [f for lst in native_fail.values() for f in lst if any(str(x).startswith(func + ":") for x in f.get("failed") or [])]
        if not fs:
            return None
        clause = (o.extra.get("clause") if o is not None else None) or ""
        for f in fs:
            if clause and any(clause[:80] in str(x) for x in f.get("failed") or []):
                return f
        return fs[0]

    violations = []      # (function, description, obligation or None, native failure or None)
    known = []
    handled_native = set()
    by_func = {}
    for o in failed:
        by_func.setdefault(o.func, []).append(o)
    for func, os_ in by_func.items():
        # one report per function; an obligation matching an open finding is set aside first
        rest = []
        for o in os_:
            fd = next((f for f in findings if finding_matches(f, pid, func, o.kind, o.desc)), None)
            if fd:
                known.append((fd, o))
            else:
                rest.append(o)
        if not rest:
            continue
        o = rest[0]
        violations.append({"function": func, "obligation": o, "native": pick_native(func, o), "all": rest})
        handled_native.add(func)
    # undecided obligations / functions: a failing real input turns them into sound alarms (or into the recorded finding)
    undecided_left = []
    for o in undec:
        fd = next((f for f in findings if finding_matches(f, pid, o.func, o.kind, o.desc)), None)
        if fd and any(fd2["id"] == fd["id"] for fd2, _ in native_known.get(o.func, [])):
            known.append((fd, o))          # undecided by the solver, witnessed on the real code by the recorded input class
            continue
        nf = pick_native(o.func, o)
        if nf:
            if o.func not in handled_native:
                violations.append({"function": o.func, "obligation": o, "native": nf, "all": [o]})
                handled_native.add(o.func)
        else:
            undecided_left.append(o)
    for key, reason in undecided_funcs:
        nf = pick_native(key, None)
        if nf and key not in handled_native:
            violations.append({"function": key, "obligation": None, "native": nf, "all": [], "reason": reason})
            handled_native.add(key)
    # run-time failures on functions whose proofs all went through (the bounded check disagrees)
    for key, fs in native_fail.items():
        if key in handled_native:
            continue
        violations.append({"function": key, "obligation": None, "native": fs[0], "all": [], "reason": "run-time contract check on the real code failed"})
    for key, lst in native_known.items():
        for fd, f in lst:
            known.append((fd, None))

    # ---- output ---------------------------------------------------------------------------
    rdir = os.path.join(ROOT, "evidence", "replay")
    os.makedirs(rdir, exist_ok=True)
    lines = []
    for i, v in enumerate(violations[:12]):
        o = v["obligation"]
        path = os.path.join(rdir, f"{pid}-{i+1}.json")
        data = {
            "property": pid, "function": v["function"], "harness": v["function"] if v["native"] else None,
            "obligation": o.id if o else None, "kind": o.kind if o else None,
            "description": o.desc if o else v.get("reason"), "line": o.line if o else None,
            "verdict": o.verdict if o else None, "backend": o.backend if o else None,
            "solver_output": {"verdict": o.verdict, "reason": getattr(o, "reason", ""), "model": o.model} if o else None,
            "path_trace": o.extra.get("trace") if o else None,
            "case": v["native"]["case"] if v["native"] else None,
            "failed_clauses_at_run_time": v["native"]["failed"] if v["native"] else None,
            "exception_at_run_time": v["native"].get("exception") if v["native"] else None,
            "other_failing_obligations": [x.id for x in v["all"][1:8]],
            "replay": f"./check {pid} --replay {path}",
        }
        with open(path, "w") as f:
            json.dump(data, f, indent=1, default=str)
        suffix = "" if v["native"] else " no-failing-input-found"
        what = (o.id + ": " + o.desc[:140]) if o else (v["function"] + ": " + str(v.get("reason"))[:140])
        lines.append(f"VIOLATION property={pid} replay={path}{suffix}")
        print(f"  failing obligation {what}")
        if v["native"]:
            print(f"  replayed on the real code: input {json.dumps(v['native']['case'], default=str)[:300]} violates {v['native']['failed'][:2]}")
    seen_known = set()
    for fd, o in known:
        if fd["id"] in seen_known:
            continue
        seen_known.add(fd["id"])
        print(f"KNOWN-FINDING: property={pid} {fd['id']} {fd['what']}")
    for ln in lines:
        print(ln)

    set_aside = [o for fd, o in known if o is not None]          # obligations that fail because of a recorded open finding
    n_ob = len(obs) - len(set_aside)
    n_dis = sum(1 for o in obs if o.verdict == "unsat" and o not in set_aside)
    status = 0
    checker_problems = []
    if cover_refuted:
        checker_problems.append("vacuity: cover/canary refuted: " + ", ".join(o.id for o in cover_refuted[:5]))
    if n_ob < prop.get("min_obligations", 1) and not undecided_funcs:
        checker_problems.append(f"only {n_ob} obligations generated (minimum {prop.get('min_obligations', 1)})")
    if disagreements:
        checker_problems.append(f"solver disagreement on {disagreements[:3]}")
    if native.get("error"):
        checker_problems.append("native: " + native["error"][:300])
    for k, v in native_err.items():
        checker_problems.append(f"native harness {k}: {v.get('status')} {str(v.get('error'))[-300:]}")
    checker_problems += rec_problems
    if violations:
        status = 1
    elif checker_problems:
        status = 3
    elif undecided_left or [u for u in undecided_funcs if u[0] not in handled_native]:
        status = 2
    for pr in checker_problems:
        print("CHECKER-PROBLEM:", pr)
    for key, reason in undecided_funcs:
        print(f"UNDECIDED function {key}: {reason}")
    for o in undecided_left[:10]:
        print(f"UNDECIDED obligation {o.id} ({o.verdict}: {getattr(o, 'reason', '')[:80]}): {o.desc[:120]}")

    # ---- evidence -------------------------------------------------------------------------
    by_backend = {}
    for o in obs:
        if o.verdict == "unsat":
            by_backend[o.backend] = by_backend.get(o.backend, 0) + 1
    assumed = {}
    inlined = {}
    for r in results:
        for k, n in r["assumed_used"].items():
            assumed[k] = assumed.get(k, 0) + n
        for k, n in r["inlined_used"].items():
            inlined[k] = inlined.get(k, 0) + n
    trusted = list(GLOBAL_TRUSTED)
    for k in sorted(assumed):
        c = S.CONTRACTS.get(k)
        if c is not None:
            trusted.append(f"assumed contract {k} (used {assumed[k]}x): {c.note or 'library/boundary function'}")
        elif k.startswith("trusted clauses of "):
            cc = S.CONTRACTS.get(k[len("trusted clauses of "):])
            trusted.append(f"UNCHECKED clauses assumed from {k[19:]} (used {assumed[k]}x): " + " ;; ".join(cc.trusted_ensures if cc else []))
        else:
            trusted.append(f"assumed pure library function {k} (used {assumed[k]}x): result is an uninterpreted function of its arguments")
    for k in sorted(inlined):
        trusted.append(f"inlined accessor {k} (executed from the real source at {inlined[k]} call sites)")
    trusted += prop.get("trusted", [])
    samples = []
    for o in (failed + undec + obs)[:8]:
        samples.append({"id": o.id, "kind": o.kind, "line": o.line, "what": o.desc[:200], "verdict": o.verdict, "backend": o.backend,
                        "solver_s": round(o.time, 3), "smt2_bytes": len(o.smt2 or "")})
    kinds = {}
    for o in obs:
        kinds[o.kind] = kinds.get(o.kind, 0) + 1
    fn_rows = []
    for r in results:
        info = r["info"] or {}
        fn_rows.append({"function": r["key"], "file": r["file"], "lines": f"{info.get('lineno')}-{info.get('end_lineno')}", "source_sha1": info.get("sha1"),
                        "status": r["status"], "reason": r["reason"], "obligations": len(r["obligations"]),
                        "discharged": sum(1 for o in r["obligations"] if o.verdict == "unsat"), "exit_paths": r["paths"],
                        "vcgen_s": round(r["time"], 2)})
    native_rows = {k: {x: v.get(x) for x in ("status", "cases", "distinct", "precondition_rejected", "wall_s")} | {"failures": len(v.get("failures", []))}
                   for k, v in nres.items()}
    level = prop.get("level", "proof")
    evidence = {
        "property_id": pid, "tier": tier, "seed": seed, "level": level,
        "coverage": {
            "obligations": n_ob, "discharged": n_dis,
            "checker_cmd": f"./check {pid} --tier {tier}",
            "trusted_base": trusted,
            "samples": samples,
            "explanation": prop.get("explanation", ""),
            "functions_under_contract": fn_rows,
            "obligations_by_kind": kinds,
            "lemma_obligations": len(lemma_obs),
            "by_backend": by_backend,
            "solver_time_s": round(summ["solver_time"], 2),
            "escalated_obligations": {"second_round": summ.get("escalated", 0),
                                      "decided_there": sorted(o.id for o in obs if str(o.backend or "").endswith("-escalated")),
                                      "note": "obligations the first portfolio round left open get one more round with 4x the time budget before they count as undecided"},
            "covers": {"total": len(all_covers), "sat": sum(1 for o in all_covers if o.verdict == "sat"),
                       "not_refuted_within_budget": sum(1 for o in all_covers if o.verdict not in ("sat", "unsat")),
                       "refuted": len(cover_refuted)},
            "second_solver": {"cvc5_checked": second_sampled, "cvc5_decided": cvc5_decided, "disagreements": len(disagreements)} if tier == "thorough" else None,
            "bounded_standins": {"note": "run-time evaluation of the same contract clauses on the real code over generated inputs; BOUNDED, never counted as proved",
                                 "harnesses": native_rows},
            "traces_validated_against_impl": sum(v.get("cases", 0) or 0 for v in nres.values()),
            "undecided": [o.id for o in undecided_left] + [f"{k}: {r}" for k, r in undecided_funcs],
            "known_findings": sorted(seen_known),
            "obligations_set_aside_for_known_findings": [{"id": o.id, "finding": fd["id"], "what": o.desc[:160], "verdict": o.verdict} for fd, o in known if o is not None],
            "not_decided": prop.get("not_decided", []),
        },
        "assumptions": prop.get("assumptions", []) + [t for t in trusted if t.startswith("assumed contract")],
        "wall_s": round(time.time() - t0, 2),
        "violations": len(violations),
    }
    os.makedirs(os.path.join(ROOT, "evidence"), exist_ok=True)
    with open(os.path.join(ROOT, "evidence", f"{pid}.json"), "w") as f:
        json.dump(evidence, f, indent=1, default=str)
    print(f"{pid} [{tier}] functions={len(funcs)} obligations={n_ob} discharged={n_dis} lemma={len(lemma_obs)} covers={len(all_covers)} "
          f"native_cases={evidence['coverage']['traces_validated_against_impl']} violations={len(violations)} known={len(seen_known)} "
          f"undecided={len(undecided_left) + len(undecided_funcs)} wall={evidence['wall_s']}s exit={status}")
    return status


def check_records(prop, results):
    """Every modelled field of a record bound to a real class must exist there."""
    problems = []
    used = set(prop.get("records", []))
    for name in used:
        rec = S.RECORDS.get(name)
        if rec is None or rec.file is None:
            continue
        try:
            names, complete = F.class_attributes(rec.file, rec.cls)
        except F.ExtractionError as exc:
            problems.append(f"record {name}: {exc}")
            continue
        if rec.pydantic:
            names = set(names)
        for fld in rec.fields:
            if fld not in names and fld not in rec.extra_attrs and complete:
                problems.append(f"record {name}: modelled field {fld} does not exist in {rec.file}:{rec.cls}")
    return problems


def run_replay(pid, path):
    env = dict(os.environ)
    env["PYTHONPATH"] = REPO + os.pathsep + ROOT
    env["VERIF_REPO"] = REPO
    p = subprocess.run([NATIVE_PY, os.path.join(ROOT, "replay", "native.py"), "replay", "--file", path], env=env, cwd=ROOT)
    return p.returncode


def main(argv=None):
    ap = argparse.ArgumentParser()
    ap.add_argument("prop")
    ap.add_argument("--tier", default=os.environ.get("VERIF_TIER", "quick"), choices=["quick", "thorough"])
    ap.add_argument("--replay")
    args = ap.parse_args(argv)
    seed = int(os.environ.get("VERIF_SEED", "0") or 0)
    if args.replay:
        return run_replay(args.prop, args.replay)
    try:
        return run_check(args.prop, args.tier, seed)
    except Exception:
        traceback.print_exc()
        print(f"CHECKER-PROBLEM: {args.prop}: internal error (no verdict)")
        return 3


if __name__ == "__main__":
    sys.exit(main())
