"""Symbolic values: a type tag plus the flattened z3 terms ("parts")."""
import itertools
import z3
from . import ty as T

_counter = itertools.count()


def fresh_name(hint):
    return f"{hint}!{next(_counter)}"


def fresh_mark():
    """Names created from now on have a serial >= the returned mark (see free_symbols)."""
    n = next(_counter)
    return n


def free_symbols(term, _memo=None):
    """Names of the uninterpreted constants / functions occurring free in a z3 term."""
    out = set()
    seen = set()
    stack = [term]
    while stack:
        t = stack.pop()
        i = t.get_id()
        if i in seen:
            continue
        seen.add(i)
        if z3.is_quantifier(t):
            stack.append(t.body())
            continue
        if z3.is_app(t):
            d = t.decl()
            if d.kind() == z3.Z3_OP_UNINTERPRETED:
                out.add(d.name())
            stack.extend(t.children())
    return out


def serial_of(name):
    try:
        return int(name.rsplit("!", 1)[1])
    except (IndexError, ValueError):
        return -1


class Val:
    __slots__ = ("ty", "parts")

    def __init__(self, ty, parts):
        self.ty = ty
        self.parts = tuple(parts)
        assert len(self.parts) == len(ty.sorts()), (ty, self.parts)

    def __repr__(self):
        return f"<{self.ty}: {', '.join(str(p) for p in self.parts)}>"

    @property
    def t(self):
        """The single z3 term of a scalar / set value."""
        assert len(self.parts) == 1, self
        return self.parts[0]


class UnsupportedError(Exception):
    """Construct outside the verified subset: the function is undecided, never proved."""


def fresh(ty, hint="v"):
    return Val(ty, [z3.Const(fresh_name(hint), s) for s in ty.sorts()])


def mk_int(n):
    return Val(T.INT, [z3.IntVal(n) if isinstance(n, int) else n])


def mk_bool(b):
    return Val(T.BOOL, [z3.BoolVal(b) if isinstance(b, bool) else b])


def mk_real(x):
    return Val(T.REAL, [z3.RealVal(x) if isinstance(x, (int, float, str)) else x])


def mk_str(s):
    return Val(T.STR, [z3.StringVal(s) if isinstance(s, str) else s])


NONE = Val(T.NONE, [])

_name_consts = {}


def name_const(text):
    """A string literal used as an identifier: distinct literals are distinct names."""
    if text not in _name_consts:
        _name_consts[text] = z3.Const("nm_" + "".join(c if c.isalnum() else "_" for c in text) + f"_{len(_name_consts)}", T.NameSort)
    return Val(T.NAME, [_name_consts[text]])


def name_distinctness():
    cs = list(_name_consts.values())
    return [z3.Distinct(*cs)] if len(cs) > 1 else []


_opaque_consts = {}


def opaque_const(text):
    if text not in _opaque_consts:
        _opaque_consts[text] = z3.Const(f"opq_{len(_opaque_consts)}", T.OpaqueSort)
    return Val(T.OPAQUE, [_opaque_consts[text]])


def opaque_distinctness():
    cs = list(_opaque_consts.values())
    return [z3.Distinct(*cs)] if len(cs) > 1 else []


def enum_const(enum, member):
    sort, consts, _ = T.enum_info(enum)
    return Val(T.Enum(enum), [consts[member]])


# ---- option ------------------------------------------------------------------------------
def some(v):
    return Val(T.Opt(v.ty), (z3.BoolVal(False),) + v.parts)


def none_of(ty):
    """None as a value of Opt[ty]."""
    # canonical payload: None must be one value, whatever expression produced it
    dummy = [z3.Const(f"nil_{i}_{s.sexpr()}".replace(" ", "_").replace("(", "").replace(")", ""), s) for i, s in enumerate(ty.sorts())]
    return Val(T.Opt(ty), (z3.BoolVal(True),) + tuple(dummy))


def opt_isnone(v):
    assert v.ty.kind == "opt"
    return v.parts[0]


def opt_val(v):
    assert v.ty.kind == "opt"
    return Val(v.ty.args[0], v.parts[1:])


# ---- generic ------------------------------------------------------------------------------
def ite(c, a, b):
    a, b = unify(a, b)
    return Val(a.ty, [z3.If(c, x, y) for x, y in zip(a.parts, b.parts)])


def coerce(v, ty):
    """Adapt a value to a declared type (None -> Opt, T -> Opt[T], int -> real)."""
    if v.ty == ty:
        return v
    if ty.kind == "opt":
        if v.ty.kind == "none":
            return none_of(ty.args[0])
        if v.ty.kind == "opt":
            inner = coerce(opt_val(v), ty.args[0])
            return Val(ty, (v.parts[0],) + inner.parts)
        return some(coerce(v, ty.args[0]))
    if ty.kind == "real" and v.ty.kind == "int":
        return Val(T.REAL, [z3.ToReal(v.t)])
    if v.ty.kind == "empty":
        if ty.kind == "list" and v.ty.name == "list":
            return empty_list(ty.elem)
        if ty.kind == "set" and v.ty.name == "set":
            return empty_set(ty.elem)
        if ty.kind == "dict" and v.ty.name in ("dict",):
            return empty_dict(ty.args[0], ty.args[1])
    if ty.kind == "list" and v.ty.kind == "list":
        # element-wise coercion is only supported when the flattening is identical
        if v.ty.elem.sorts() == ty.elem.sorts():
            return Val(ty, v.parts)
    if ty.kind == "tuple" and v.ty.kind == "tuple" and len(ty.args) == len(v.ty.args):
        parts = []
        for sub, want in zip(tuple_items(v), ty.args):
            parts += coerce(sub, want).parts
        return Val(ty, parts)
    if ty.kind == "method" and v.ty.kind == "method":
        from . import ops as _O
        (vc, vm), (tc, tm) = v.ty.name.rsplit(".", 1), ty.name.rsplit(".", 1)
        if vm == tm and (_O.is_subrecord(vc, tc) or _O.is_subrecord(tc, vc)):
            return Val(ty, v.parts)
        raise UnsupportedError(f"bound method {v.ty.name} passed where {ty.name} is declared")
    if ty.kind == "opaque" and v.ty.kind == "method":
        from .speceval import apply_uf
        return apply_uf("boundmethod:" + v.ty.name.rsplit(".", 1)[1], T.OPAQUE, [Val(T.Ref(v.ty.name.rsplit(".", 1)[0]), v.parts)])
    if ty.kind == "opaque" and v.parts:
        return to_opaque(v)
    if ty.kind == "opaque" and v.ty.kind == "none":
        return opaque_const("None")
    if ty.kind == "opaque" and v.ty.kind == "empty":
        return opaque_const("empty:" + v.ty.name)
    if ty.kind == "name" and v.ty.kind == "opaque":
        return Val(T.NAME, [_name_of_opaque()(v.t)])
    if ty.kind == "str" and v.ty.kind == "name":
        return Val(T.STR, [_str_of_name()(v.t)])       # the text of an identifier: an uninterpreted function Name -> String
    if ty.kind == "str" and v.ty.kind == "opaque":
        return Val(T.STR, [_str_of_opaque()(v.t)])     # str(x) of an unmodelled value: an uninterpreted function Opaque -> String
    raise UnsupportedError(f"cannot use a value of type {v.ty} where {ty} is declared")


_noo = []
_son = []
_soo = []


def _str_of_opaque():
    if not _soo:
        _soo.append(z3.Function("str_of_opaque", T.OpaqueSort, z3.StringSort()))
    return _soo[0]


def _str_of_name():
    if not _son:
        _son.append(z3.Function("str_of_name", T.NameSort, z3.StringSort()))
    return _son[0]


def _name_of_opaque():
    if not _noo:
        _noo.append(z3.Function("name_of_opaque", T.OpaqueSort, T.NameSort))
    return _noo[0]


_to_opaque_fns = {}


def to_opaque(v):
    if v.ty.kind == "opaque":
        return v
    key = repr(v.ty)
    if key not in _to_opaque_fns:
        _to_opaque_fns[key] = z3.Function("opaque_of_" + v.ty.kind, *(v.ty.sorts() + (T.OpaqueSort,)))
    return Val(T.OPAQUE, [_to_opaque_fns[key](*v.parts)])


def unify(a, b):
    if a.ty == b.ty:
        return a, b
    # None vs T / Opt[T]
    for x, y, flip in ((a, b, False), (b, a, True)):
        if x.ty.kind == "none":
            if y.ty.kind == "none":
                return a, b
            target = y.ty if y.ty.kind == "opt" else T.Opt(y.ty)
            r = (coerce(x, target), coerce(y, target))
            return (r[1], r[0]) if flip else r
    if a.ty.kind == "opt" and b.ty.kind != "opt":
        return a, coerce(b, a.ty)
    if b.ty.kind == "opt" and a.ty.kind != "opt":
        return coerce(a, b.ty), b
    if {a.ty.kind, b.ty.kind} == {"int", "real"}:
        return coerce(a, T.REAL), coerce(b, T.REAL)
    try:
        return a, coerce(b, a.ty)
    except UnsupportedError:
        return coerce(a, b.ty), b


def eq(a, b):
    """Python `==` as a z3 Bool."""
    if a.ty.kind == "none" and b.ty.kind == "none":
        return z3.BoolVal(True)
    try:
        a, b = unify(a, b)
    except UnsupportedError:
        # values of unrelated types are never equal in Python
        raise
    k = a.ty.kind
    if k == "opt":
        na, nb = a.parts[0], b.parts[0]
        inner = eq(opt_val(a), opt_val(b))
        return z3.And(na == nb, z3.Or(na, inner))
    if k == "list":
        i = z3.Int(fresh_name("qi"))
        la, lb = list_len(a), list_len(b)
        body = eq(list_get(a, i), list_get(b, i))
        return z3.And(la == lb, z3.ForAll([i], z3.Implies(z3.And(0 <= i, i < la), body)))
    if k == "dict":
        (ks,) = a.ty.args[0].sorts()
        kk = z3.Const(fresh_name("qk"), ks)
        kv = Val(a.ty.args[0], [kk])
        body = eq(dict_get(a, kv), dict_get(b, kv))
        return z3.And(a.parts[0] == b.parts[0], z3.ForAll([kk], z3.Implies(z3.Select(a.parts[0], kk), body)))
    if k == "tuple":
        return z3.And([eq(x, y) for x, y in zip(tuple_items(a), tuple_items(b))])
    if not a.parts:
        return z3.BoolVal(True)
    return z3.And([x == y for x, y in zip(a.parts, b.parts)]) if len(a.parts) > 1 else a.parts[0] == b.parts[0]


def tuple_items(v):
    out, i = [], 0
    for t in v.ty.args:
        n = len(t.sorts())
        out.append(Val(t, v.parts[i:i + n]))
        i += n
    return out


def mk_tuple(items):
    parts = []
    for it in items:
        parts += it.parts
    return Val(T.TupleT(*[it.ty for it in items]), parts)


# ---- empty container literals -------------------------------------------------------
# `set()`, `[]`, `{}` have no element type yet: they are zero-part values of kind "empty"
# that are re-typed by coerce() (declared local/field/parameter type) or by the first
# operation that adds an element.
EMPTY_SET = Val(T.Ty("empty", (), "set"), [])
EMPTY_LIST = Val(T.Ty("empty", (), "list"), [])
EMPTY_DICT = Val(T.Ty("empty", (), "dict"), [])


def is_empty_literal(v, which=None):
    return v.ty.kind == "empty" and (which is None or v.ty.name == which)


# ---- sets -------------------------------------------------------------------------------
def empty_set(elem_ty):
    (s,) = elem_ty.sorts()
    return Val(T.SetT(elem_ty), [z3.K(s, z3.BoolVal(False))])


_card_fns = {}


def set_card(v):
    """len(set): an uninterpreted function of the characteristic array; the facts needed are
    added by the set operations that build new sets (see symexec.SetOps)."""
    (s,) = v.ty.sorts()
    key = s.sexpr()
    if key not in _card_fns:
        _card_fns[key] = z3.Function(f"card{len(_card_fns)}", s, z3.IntSort())
    return _card_fns[key](v.t)


def set_has(s, x):
    return z3.Select(s.t, x.t)


# ---- lists ------------------------------------------------------------------------------
def empty_list(elem_ty):
    arrs = [z3.Const(fresh_name("nil"), z3.ArraySort(z3.IntSort(), s)) for s in elem_ty.sorts()]
    return Val(T.ListT(elem_ty), arrs + [z3.IntVal(0)])


def list_len(v):
    return v.parts[-1]


def list_get(v, i):
    return Val(v.ty.elem, [z3.Select(a, i) for a in v.parts[:-1]])


def list_set(v, i, x):
    x = coerce(x, v.ty.elem)
    return Val(v.ty, [z3.Store(a, i, p) for a, p in zip(v.parts[:-1], x.parts)] + [v.parts[-1]])


def list_append(v, x):
    if is_empty_literal(v, "list"):
        v = empty_list(x.ty)
    x = coerce(x, v.ty.elem)
    n = list_len(v)
    return Val(v.ty, [z3.Store(a, n, p) for a, p in zip(v.parts[:-1], x.parts)] + [n + 1])


# ---- dicts ------------------------------------------------------------------------------
def empty_dict(kty, vty):
    (ks,) = kty.sorts()
    arrs = [z3.Const(fresh_name("nild"), z3.ArraySort(ks, s)) for s in vty.sorts()]
    return Val(T.DictT(kty, vty), [z3.K(ks, z3.BoolVal(False))] + arrs)


def dict_has(d, k):
    return z3.Select(d.parts[0], k.t)


def dict_get(d, k):
    return Val(d.ty.args[1], [z3.Select(a, k.t) for a in d.parts[1:]])


def dict_set(d, k, v):
    if is_empty_literal(d, "dict"):
        d = empty_dict(k.ty, v.ty)
    k = coerce(k, d.ty.args[0])
    v = coerce(v, d.ty.args[1])
    return Val(d.ty, [z3.Store(d.parts[0], k.t, z3.BoolVal(True))] + [z3.Store(a, k.t, p) for a, p in zip(d.parts[1:], v.parts)])


def dict_del(d, k):
    return Val(d.ty, [z3.Store(d.parts[0], k.t, z3.BoolVal(False))] + list(d.parts[1:]))


def dict_keys(d):
    return Val(T.SetT(d.ty.args[0]), [d.parts[0]])
