"""Verification of one function against its contract: VC generation."""
import ast
import time
import z3
from . import ty as T
from . import values as V
from . import ops as O
from . import spec as S
from . import frontend as F
from .values import Val, UnsupportedError
from .state import State, Raise, GlobalRef, Obligation
from .speceval import SpecEval, SpecError
from .exec_stmt import StmtMixin


class Exec(StmtMixin):
    def __init__(self, contract, tier="quick"):
        super().__init__(contract, tier)
        self.exc_stack = []
        self.exc_names = {}
        self.const_tuples = {}
        self.param_containers = set()
        self.last_call_fresh = True
        self.info = None
        self.covers = []
        self.callret_seen = {}

    # override: remember freshness of call results for alias tracking
    def call_contract(self, c, recv, pos, kw, st, node, recv_node=None, arg_nodes=None):
        self.last_call_fresh = bool(c.fresh_result) or recv == "new"
        yield from super().call_contract(c, recv, pos, kw, st, node, recv_node=recv_node, arg_nodes=arg_nodes)

    def check_signature(self, fn, info):
        c = self.contract
        real = [a.arg for a in fn.args.posonlyargs + fn.args.args] + [a.arg for a in fn.args.kwonlyargs]
        declared = c.param_names()
        if info["kind"] == "classmethod" and declared and declared[0] != "cls" and real and real[0] == "cls":
            real = real[1:]
        if real != declared:
            raise UnsupportedError(f"signature of {c.key} changed: real parameters {real}, contract declares {declared}")
        if fn.args.vararg:
            raise UnsupportedError(f"{c.key} takes *args")
        if fn.args.kwarg:
            # a catch-all **kwargs that is only forwarded is tolerated (opaque pass-through)
            self.own_kwarg = fn.args.kwarg.arg
            for n in ast.walk(fn):
                if isinstance(n, ast.Name) and n.id == self.own_kwarg and isinstance(n.ctx, ast.Load):
                    pass

    def run(self):
        c = self.contract
        t0 = time.time()
        O.STRLIT_MODE[0] = c.strings
        from . import exec_core as _EC
        _EC._qcache.clear()      # keyed by z3 ast ids, which are only stable while the terms are alive
        fn, info = F.find_function(c.file, c.qualname)
        self.info = info
        self.check_signature(fn, info)
        allowed = {"timed_debug", "timed_info", "staticmethod", "classmethod", "property", "abc.abstractmethod"}
        for d in info["decorators"]:
            if d not in allowed and not d.startswith("click.") and not d.endswith(".setter"):
                raise UnsupportedError(f"decorator @{d} on {c.key}")
        # loop ordinals in source order
        loops = sorted([n for n in ast.walk(fn) if isinstance(n, (ast.For, ast.While))], key=lambda n: (n.lineno, n.col_offset))
        for i, n in enumerate(loops):
            self.loop_ids[id(n)] = i + 1
        self.loop_ordinal = len(loops)
        self.fn_names = ({n.id for n in ast.walk(fn) if isinstance(n, ast.Name) and isinstance(n.ctx, ast.Store)}
                         | {a.arg for n in ast.walk(fn) if isinstance(n, ast.arguments) for a in n.args + n.kwonlyargs + n.posonlyargs}
                         | {n.name for n in ast.walk(fn) if isinstance(n, ast.ExceptHandler) and n.name})
        missing = [k for k in c.loops if k > len(loops)]
        if missing:
            raise UnsupportedError(f"{c.key}: contract has invariants for loops {missing} but the function has {len(loops)} loops")
        is_generator = any(isinstance(n, (ast.Yield, ast.YieldFrom)) for n in ast.walk(fn))
        st = State()
        for name, ty, default in c.params:
            v = V.fresh(ty, "p_" + name)
            st.locals[name] = v
            if ty.is_container() or (ty.kind == "opt" and ty.args[0].is_container()):
                self.param_containers.add(name)
            if ty.kind == "list":
                st.assume(V.list_len(v) >= 0)
        if is_generator:
            st.locals["__yielded__"] = V.EMPTY_LIST
            st.fresh_locals.add("__yielded__")
        st.entry = None
        facts = []
        entry0 = st.snapshot()
        for text in c.requires:
            try:
                g = SpecEval(self, st, entry0, {}, facts).clause(text)
            except SpecError as exc:
                raise UnsupportedError(f"precondition: {exc}")
            st.assume(*facts)
            del facts[:]
            st.assume(g)
        st.entry = st.snapshot()
        st.entry.entry = st.entry
        # cover: the precondition is satisfiable
        self.covers.append(Obligation(f"{c.key}/cover/pre", "cover", c.key, info["lineno"], "precondition is satisfiable", st.pc, None, expect="sat"))
        body = F.strip_docstring(fn.body)
        exits = []
        for flow, s in self.exec_block(body, st):
            exits.append((flow, s))
        n_normal = 0
        for flow, s in exits:
            kind = flow[0]
            if kind in ("next", "return"):
                n_normal += 1
                rv = flow[1] if kind == "return" and flow[1] is not None else V.NONE
                if is_generator:
                    rv = s.locals.get("__yielded__", V.EMPTY_LIST)
                if c.qualname.endswith("__init__"):
                    rv = s.locals["self"]
                self.check_post(s, rv)
            elif kind == "raise":
                self.check_post_exc(s, flow[1])
            else:
                raise UnsupportedError(f"{kind} outside a loop")
        self.exit_states = exits
        # canary: at least one exit must be reachable (otherwise every postcondition is vacuous)
        reach = [s for flow, s in exits if flow[0] in ("next", "return")] or [s for _, s in exits]
        if not reach:
            raise UnsupportedError(f"{c.key}: no exit path was generated")
        for i, s in enumerate(reach[:6]):
            self.covers.append(Obligation(f"{c.key}/canary/{i+1}", "canary", c.key, info["lineno"],
                                          "`ensures False` must not be provable: an exit path is reachable", s.pc, None, expect="sat"))
        self.time = time.time() - t0
        return self.obligations

    # ---- postconditions -------------------------------------------------------------------
    def check_post(self, st, rv):
        c = self.contract
        line = self.info["lineno"]
        if rv.ty.kind == "opt" and c.returns.kind not in ("opt", "none", "opaque"):
            self.oblige("post", st, z3.Not(V.opt_isnone(rv)), f"the returned value is not None (declared {c.returns})", line, extra={"clause": "return not None"})
            st.assume(z3.Not(V.opt_isnone(rv)))
            rv = V.opt_val(rv)
        try:
            if c.returns.kind == "none" and rv.ty.kind != "none":
                rv = V.NONE if not c.ensures else rv
            result = O.coerce(rv, c.returns) if not (c.returns.kind == "none") else V.NONE
        except UnsupportedError as exc:
            raise UnsupportedError(f"return value of {c.key}: {exc}")
        env = {"retval": result}
        if "result" not in c.param_names():
            env["result"] = result
        facts = []
        if c.ghost_ensures:
            # ghost bookkeeping has no code: the ghost cells named in `modifies` take the values the
            # ghost_ensures clauses define (exactly what callers assume), then the real clauses are checked
            for m in c.modifies:
                last = m.split(".")[-1]
                if m.startswith("ghost.") and any(m in t for t in c.ghost_ensures):
                    st.ghost_set(m[6:], V.fresh(S.GHOST[m[6:]], "G_" + m[6:]))
                elif last.startswith("g_") or (last in ("blocking", "cancel_on_blocking_job_failure") and any(("." + last) in t for t in c.ghost_ensures)):
                    parts = m.split(".")
                    if parts[0] in st.entry.locals:
                        cur = st.entry.locals[parts[0]]
                        for p in parts[1:-1]:
                            cur = self.attr_read_pure(cur, p, st)
                        cur = O.strip_opt(cur)
                        rec, fty = S.lookup_field(cur.ty.name, last)
                        st.heap.write(rec, last, fty, cur.t, V.fresh(fty, "gh_" + last))
            for text in c.ghost_ensures:
                try:
                    st.assume(SpecEval(self, st, st.entry, env, facts).clause(text))
                except SpecError as exc:
                    raise UnsupportedError(f"ghost_ensures: {exc}")
                st.assume(*facts)
                del facts[:]
        if c.fresh_result and result.ty.kind == "ref" and not c.qualname.endswith("__init__"):
            self.oblige("post", st, z3.Not(z3.Select(st.entry.alloc_map(result.ty.name), result.t)),
                        "the returned object is newly allocated (fresh_result)", line, extra={"clause": "fresh_result"})
        for text in list(c.ensures) + list(c.exit_ensures):
            try:
                g = SpecEval(self, st, st.entry, env, facts).clause(text)
            except SpecError as exc:
                raise UnsupportedError(f"postcondition: {exc}")
            st.assume(*facts)
            del facts[:]
            self.oblige("post", st, g, f"postcondition: {text}", line, extra={"clause": text})
        # two-directional exceptional clauses: a normal return means the raise condition was false
        for exc, spec in c.raises.items():
            if spec.get("iff") and spec.get("when"):
                ev = SpecEval(self, st.entry, st.entry, {}, facts)
                try:
                    cond = z3.And([ev.clause(t) for t in spec["when"]])
                except SpecError as exc2:
                    raise UnsupportedError(f"raises-when: {exc2}")
                st.assume(*facts)
                del facts[:]
                self.oblige("post", st, z3.Not(cond), f"normal return only when not ({' and '.join(spec['when'])}) [raises {exc} iff]", line,
                            extra={"clause": "iff:" + exc})
        self.check_frame(st)

    def check_post_exc(self, st, r):
        c = self.contract
        line = r.line or self.info["lineno"]
        match = None
        if r.exc in c.raises:
            match = (r.exc, c.raises[r.exc])        # the most specific clause wins, whatever the order of declaration
        for exc, spec in c.raises.items():
            if match is not None:
                break
            if S.exc_is_a(r.exc, exc) or (r.exc == "AnyException" and exc == "AnyException"):
                match = (exc, spec)
                break
        if match is None and r.exc == "AnyException" and "Exception" in c.raises:
            match = ("Exception", c.raises["Exception"])
        if match is None:
            self.oblige("post-exc", st, z3.BoolVal(False), f"undeclared exception {r.exc} escapes ({r.why}) at line {r.line}", line,
                        extra={"exc": r.exc})
            return
        exc, spec = match
        facts = []
        ev = SpecEval(self, st, st.entry, {}, facts)
        try:
            for text in spec.get("when", []):
                g = SpecEval(self, st.entry, st.entry, {}, facts).clause(text)
                st.assume(*facts)
                del facts[:]
                self.oblige("post-exc", st, g, f"{exc} is raised only when: {text}", line, extra={"clause": text, "exc": exc})
            for text in spec.get("ensures", []):
                g = ev.clause(text)
                st.assume(*facts)
                del facts[:]
                self.oblige("post-exc", st, g, f"exceptional postcondition ({exc}): {text}", line, extra={"clause": text, "exc": exc})
        except SpecError as exc2:
            raise UnsupportedError(f"exceptional postcondition: {exc2}")
        if spec.get("frame", True):
            self.check_frame(st, exceptional=True)

    def check_frame(self, st, exceptional=False):
        """Only the declared state may have changed."""
        c = self.contract
        line = self.info["lineno"]
        entry = st.entry
        allowed_fields = set()      # (rec, field) wholly modifiable
        allowed_cells = {}          # (rec, field) -> [ref terms]
        allowed_params = set()
        allowed_ghost = set()
        for m in c.modifies:
            parts = m.split(".")
            if m.startswith("ghost."):
                allowed_ghost.add(m[6:])
            elif len(parts) == 1:
                allowed_params.add(m)
            elif parts[0] in S.RECORDS and parts[0] not in entry.locals and len(parts) == 2:
                rec, _ = S.lookup_field(parts[0], parts[1])
                allowed_fields.add(S.fkey(rec, parts[1]))
            else:
                cur = entry.locals[parts[0]]
                for p in parts[1:-1]:
                    cur = self.attr_read_pure(cur, p, entry)
                cur = O.strip_opt(cur)
                rec, _ = S.lookup_field(cur.ty.name, parts[-1])
                allowed_cells.setdefault(S.fkey(rec, parts[-1]), []).append(cur.t)
        for (rec, field, i), arr in st.heap.maps.items():
            if (rec, field) in allowed_fields:
                continue
            old = entry.heap.maps.get((rec, field, i))
            if old is None:
                _, fty = S.lookup_field(rec, field)
                if fty is None:
                    raise UnsupportedError(f"internal: heap map for unknown field {rec}.{field}")
                old = entry.heap.key_arrays(rec, field, fty)[i]
            if arr.eq(old):
                continue
            cells = allowed_cells.get((rec, field))
            if cells:
                r = z3.Const(V.fresh_name("qr"), T.RefSort)
                goal = z3.ForAll([r], z3.Implies(z3.And([r != cterm for cterm in cells]), z3.Select(arr, r) == z3.Select(old, r)))
            else:
                goal = arr == old
            self.oblige("frame", st, goal, f"field {rec}.{field} is not modified outside the declared frame", line,
                        extra={"field": f"{rec}.{field}"})
        for name in self.param_containers:
            if name in allowed_params or name not in st.locals:
                continue
            # a re-bound parameter name is a local change, invisible to the caller; only in-place
            # mutation matters, which our value semantics tracks through the same local.
            new, old = st.rebound.get(name, st.locals[name]), entry.locals[name]
            if new.ty != old.ty or all(a.eq(b) for a, b in zip(new.parts, old.parts)):
                continue
            self.oblige("frame", st, O.py_eq(new, old), f"container parameter `{name}` is not mutated (not in modifies)", line)
        for g, v in st.ghost.items():
            if g in allowed_ghost:
                continue
            old = entry.ghost.get(g)
            if old is None or all(a.eq(b) for a, b in zip(v.parts, old.parts)):
                continue
            self.oblige("frame", st, O.py_eq(v, old), f"ghost variable {g} is not modified outside the declared frame", line)

    @property
    def rebound_params(self):
        return getattr(self, "_rebound", set())


def verify_function(contract, tier="quick"):
    """-> dict(result fields); never raises for unsupported code (reported as undecided)."""
    ex = Exec(contract, tier)
    out = {"key": contract.key, "file": contract.file, "qualname": contract.qualname, "obligations": [], "covers": [],
           "status": "ok", "reason": "", "info": None, "time": 0.0, "assumed_used": {}, "inlined_used": {}, "paths": 0}
    t0 = time.time()
    try:
        ex.run()
        out["obligations"] = ex.obligations
        out["covers"] = ex.covers
    except (UnsupportedError, F.ExtractionError) as exc:
        out["status"] = "undecided"
        out["reason"] = f"{type(exc).__name__}: {exc}"
        out["obligations"] = ex.obligations
    except (AssertionError, TypeError, KeyError, AttributeError, IndexError, z3.Z3Exception) as exc:
        # the symbolic executor met a shape of code it was not built for (typically after an edit of the function): the function is
        # undecided - never "proved", never a violation by itself; the run-time contract harness decides
        import traceback
        out["status"] = "undecided"
        out["reason"] = f"engine limitation ({type(exc).__name__}: {str(exc)[:200]}) at {traceback.extract_tb(exc.__traceback__)[-1][:3]}"
        out["obligations"] = ex.obligations
    out["info"] = ex.info
    out["time"] = time.time() - t0
    out["assumed_used"] = ex.used_assumed
    out["inlined_used"] = ex.used_inlined
    out["paths"] = len(ex.exit_states)
    out["solver_checks"] = ex.solver_checks
    return out
