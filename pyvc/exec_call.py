"""Calls: built-ins, container methods, contracts (modular), inlined accessors, comprehensions."""
import ast
import z3
from . import ty as T
from . import values as V
from . import ops as O
from . import spec as S
from . import frontend as F
from .values import Val, UnsupportedError
from .state import State, Raise, GlobalRef, BoundMethod
from .speceval import generalize_facts, SpecEval, SpecError, const_value, pure_len, pure_str, pure_method, apply_uf, fold_facts_append, fold_facts_concat
from .exec_expr import ExprMixin
from .exec_core import _has_quantifier, LOG_ROOTS, DROPPED_CALLS

_pure_fns = {}

MUTATORS = {
    "set": {"add", "clear", "remove", "discard", "update", "difference_update", "intersection_update", "pop"},
    "list": {"append", "extend", "pop", "clear", "remove", "insert", "sort", "reverse"},
    "dict": {"pop", "clear", "update", "setdefault", "popitem"},
    "empty": {"add", "append", "extend", "update", "clear", "pop", "discard", "difference_update"},
}


OPAQUE_STR_METHODS = {"replace", "strip", "lower", "upper", "format", "lstrip", "rstrip", "split", "join"}


class CallMixin(ExprMixin):
    def ev_Call(self, node, st):
        self.cur_line = node.lineno
        f = node.func
        if any(k.arg is None for k in node.keywords):
            # `**kwargs` forwarding of the function's own catch-all parameter: opaque pass-through
            own = getattr(self, "own_kwarg", None)
            if all(k.arg is not None or (isinstance(k.value, ast.Name) and k.value.id == own) for k in node.keywords):
                node = ast.Call(func=node.func, args=node.args, keywords=[k for k in node.keywords if k.arg is not None])
                ast.copy_location(node, f if False else node.func)
                node.lineno = getattr(node.func, "lineno", self.cur_line)
                node.col_offset = getattr(node.func, "col_offset", 0)
                f = node.func
        if any(isinstance(a, ast.Starred) for a in node.args) or any(k.arg is None for k in node.keywords):
            if isinstance(f, ast.Name) and f.id in S.RECORDS and f.id not in st.locals and not node.args and len(node.keywords) == 1:
                # Cls(**mapping): a new object whose fields are whatever the mapping holds - modelled as a fresh object with unconstrained fields
                # (sound over-approximation; the constructor may also reject the mapping)
                for _v, s0 in self.ev(node.keywords[0].value, st):
                    if isinstance(_v, Raise):
                        yield _v, s0
                        continue
                    ref = V.fresh(T.Ref(f.id), "new_" + f.id)
                    s0.allocate(f.id, ref.t)
                    if s0.written_alloc is not None:
                        from .state import root_record
                        s0.written_alloc.add(root_record(f.id))
                    bad = s0.clone()
                    bad.trace.append(f"L{node.lineno}:{f.id}(**...) raises ValidationError")
                    yield Raise("ValidationError", node.lineno, f"{f.id}(**mapping) rejected"), bad
                    self.last_call_fresh = True
                    yield ref, s0
                return
            raise UnsupportedError(f"*args/**kwargs in call at line {node.lineno}")
        # logging and print: dropped (arguments still evaluated for attribute-safety)
        root = f
        while isinstance(root, ast.Attribute):
            root = root.value
        if (isinstance(root, ast.Name) and root.id in LOG_ROOTS and root.id not in st.locals and isinstance(f, ast.Attribute)) or \
                (isinstance(f, ast.Name) and f.id in DROPPED_CALLS and f.id not in st.locals):
            yield from self.eval_dropped_args(node, st)
            return
        if isinstance(f, ast.Name) and f.id not in st.locals:
            name = f.id
            if name == "cls" and self.info and self.info.get("kind") == "classmethod" and "." in self.contract.key:
                name = self.contract.key.split(".")[0]
            name = self.contract.call_alias.get(name, name)
            if name in S.CONTRACTS and name != "sorted":
                yield from self.call_by_key(S.CONTRACTS[name], None, node, st)
                return
            if name in S.RECORDS:
                c = S.CONTRACTS.get(f"{name}.__init__")
                if c is None:
                    raise UnsupportedError(f"constructor {name} has no contract (line {node.lineno})")
                yield from self.call_by_key(c, "new", node, st)
                return
            h = getattr(self, "bi_" + name, None)
            if h is not None:
                yield from h(node, st)
                return
            if name in S.OPAQUE_FUNCS:
                yield from self.call_opaque(name, None, node, st)
                return
            raise UnsupportedError(f"call to unknown function {name} at line {node.lineno}")
        if isinstance(f, ast.Attribute):
            for recv, s in self.ev(f.value, st):
                if isinstance(recv, Raise):
                    yield recv, s
                    continue
                yield from self.call_attr(recv, f.attr, node, s)
            return
        if isinstance(f, ast.Name):
            v = st.locals[f.id]
            if isinstance(v, Val) and v.ty.kind == "method":
                # a callback whose target is fixed by the declared type Method[Class.meth]: an ordinary modular call on its receiver
                cname, mname = v.ty.name.rsplit(".", 1)
                tc = S.lookup_method(cname, mname)
                if tc is None:
                    raise UnsupportedError(f"no contract for the callback target {v.ty.name} (line {node.lineno})")
                yield from self.call_by_key(tc, Val(T.Ref(cname), v.parts), node, st)
                return
            raise UnsupportedError(f"call of local value {f.id} at line {node.lineno}")
        raise UnsupportedError(f"call form at line {node.lineno}")

    def eval_dropped_args(self, node, st):
        # Arguments of log calls are evaluated only to catch AttributeError-type defects.
        states = [st]
        for a in list(node.args) + [k.value for k in node.keywords]:
            nxt = []
            for s in states:
                try:
                    for r, s2 in self.ev(a, s):
                        if isinstance(r, Raise):
                            if r.exc == "AttributeError":
                                yield r, s2
                            continue
                        nxt.append(s2)
                        break    # one representative outcome is enough: no state change is kept
                    else:
                        nxt.append(s)
                except UnsupportedError:
                    nxt.append(s)
            states = nxt or [st]
        yield V.NONE, st

    def call_attr(self, recv, attr, node, st):
        if isinstance(recv, GlobalRef):
            if recv.kind == "class":
                key = f"{recv.name}.{attr}"
                alias = self.contract.call_alias.get(key)
                c = S.CONTRACTS.get(alias) if alias else S.lookup_method(recv.name, attr)
                if c is None:
                    raise UnsupportedError(f"no contract for {key} (line {node.lineno})")
                yield from self.call_by_key(c, "static", node, st)
                return
            if recv.kind == "enum":
                raise UnsupportedError(f"call on enum {recv.name}.{attr}")
            dotted = f"{recv.name}.{attr}"
            c = S.CONTRACTS.get(self.contract.call_alias.get(dotted, dotted))
            if dotted in ("copy.copy", "copy.deepcopy") and len(node.args) == 1 and not node.keywords:
                # containers are values here: a copy is the value itself, and it is fresh
                for r, s in self.ev_value(node.args[0], st):
                    self.last_call_fresh = True
                    yield r, s
                return
            if c is None and dotted in S.OPAQUE_FUNCS:
                yield from self.call_opaque(dotted, None, node, st)
                return
            if c is None:
                raise UnsupportedError(f"no contract for external call {dotted} (line {node.lineno})")
            yield from self.call_by_key(c, None, node, st)
            return
        if isinstance(recv, BoundMethod):
            raise UnsupportedError("call on bound method attribute")
        v = recv
        if v.ty.kind == "opt":
            self.oblige("safe", st, z3.Not(V.opt_isnone(v)), f"receiver of .{attr}() is not None", node.lineno)
            st.assume(z3.Not(V.opt_isnone(v)))
            v = V.opt_val(v)
        if v.ty.kind == "ref":
            c = S.lookup_method(v.ty.name, attr)
            if c is None:
                names, complete = self.real_attrs(v.ty.name)
                if complete and attr not in names:
                    self.oblige("attr", st, z3.BoolVal(False), f"{v.ty.name} object has no attribute '{attr}' (AttributeError)", node.lineno)
                    yield Raise("AttributeError", node.lineno), st
                    return
                raise UnsupportedError(f"no contract for method {v.ty.name}.{attr} (line {node.lineno})")
            if c.file and not c.inline and c.kind == "verified":
                try:
                    if F.find_function(c.file, c.qualname)[1]["kind"] == "staticmethod":
                        yield from self.call_by_key(c, "static", node, st)      # obj.static_method(...): no receiver is bound
                        return
                except F.ExtractionError:
                    pass
            yield from self.call_by_key(c, v, node, st, recv_node=node.func.value)
            return
        yield from self.call_container_method(v, attr, node, st)

    # ---- argument binding ----------------------------------------------------------------
    def call_lock_wrapper(self, c, recv, node, st):
        """`wrapper(func, *args, **kw)`: acquire the lock, call func(*args, **kw) exactly once while it is
        held, release on every exit (parametric contract; the wrapper's own body - SoftFileLock - is trusted)."""
        lw = c.lock_wrapper
        self.used_assumed[c.key] = self.used_assumed.get(c.key, 0) + 1
        fi = lw.get("func_index", 0)
        if len(node.args) <= fi:
            raise UnsupportedError(f"lock wrapper {c.key}: missing callable argument (line {node.lineno})")
        target = None
        for fv, s0 in self.ev(node.args[fi], st):
            if isinstance(fv, Raise):
                yield fv, s0
                continue
            if isinstance(fv, BoundMethod) and isinstance(fv.recv, Val) and fv.recv.ty.kind == "ref":
                tc = S.lookup_method(fv.recv.ty.name, fv.name)
                trecv = fv.recv
            elif isinstance(fv, GlobalRef) and fv.kind == "classattr":
                cname, mname = fv.name.split(".", 1)
                tc = S.lookup_method(cname, mname)
                trecv = "static"
            else:
                raise UnsupportedError(f"lock wrapper {c.key}: argument is not a bound method (line {node.lineno})")
            if tc is None:
                raise UnsupportedError(f"lock wrapper {c.key}: no contract for the wrapped function {ast.unparse(node.args[fi])}")
            rest = [a for i, a in enumerate(node.args) if i > fi]
            for vals, s in self.ev_many(rest + [k.value for k in node.keywords], s0):
                if isinstance(vals, Raise):
                    yield vals, s
                    continue
                pos = vals[:len(rest)]
                kw = {k.arg: v for k, v in zip(node.keywords, vals[len(rest):])}
                if lw.get("ghost_set"):
                    # one lock per file: ghost set of the lock files this process holds, keyed by an expression over the wrapper's receiver
                    g = lw["ghost_set"]
                    key = SpecEval(self, s, s, {"self": recv} if isinstance(recv, Val) else {}).ev(S.parse_clause(lw["key"]))
                    heldset = s.ghost_get(g)
                    key = O.coerce(key, heldset.ty.elem)
                    is_held = z3.Select(heldset.t, key.t)
                    acquire = lambda st_: st_.ghost_set(g, Val(heldset.ty, [z3.Store(st_.ghost_get(g).t, key.t, z3.BoolVal(True))]))
                    release = lambda st_: st_.ghost_set(g, Val(heldset.ty, [z3.Store(st_.ghost_get(g).t, key.t, z3.BoolVal(False))]))
                    clause = f"{lw['key']} not in ghost.{g}"
                else:
                    g = lw["ghost"]
                    is_held = s.ghost_get(g).t
                    acquire = lambda st_: st_.ghost_set(g, V.mk_bool(True))
                    release = lambda st_: st_.ghost_set(g, V.mk_bool(False))
                    clause = "not ghost." + g
                self.oblige("pre", s, z3.Not(is_held), f"lock of {c.key} is not already held by this process (a nested acquisition of the SoftFileLock times out)",
                            node.lineno, extra={"callee": c.key, "clause": clause})
                # lock acquisition may time out: nothing happened
                if "Timeout" in c.raises or lw.get("timeout", True):
                    t = s.clone()
                    t.trace.append(f"L{node.lineno}:lock Timeout")
                    yield Raise("Timeout", node.lineno, f"lock acquisition in {c.key} timed out"), t
                acquire(s)
                for r, s2 in self.call_contract(tc, trecv, pos, kw, s, node):
                    release(s2)
                    if isinstance(r, Raise) and lw.get("marker"):
                        s2.ghost_set(lw["marker"], V.mk_bool(True))
                    yield r, s2

    def call_by_key(self, c, recv, node, st, recv_node=None):
        if c.lock_wrapper:
            yield from self.call_lock_wrapper(c, recv, node, st)
            return
        for vals, s in self.ev_many(list(node.args) + [k.value for k in node.keywords], st):
            if isinstance(vals, Raise):
                yield vals, s
                continue
            npos = len(node.args)
            pos = vals[:npos]
            kw = {k.arg: v for k, v in zip(node.keywords, vals[npos:])}
            arg_nodes = {"#%d" % i: a for i, a in enumerate(node.args)}
            arg_nodes.update({k.arg: k.value for k in node.keywords})
            yield from self.call_contract(c, recv, pos, kw, s, node, recv_node=recv_node, arg_nodes=arg_nodes)

    def bind_params(self, c, recv, pos, kw, st, node):
        """-> (env name->Val, map param name -> arg key) ; self is bound when recv is a value."""
        params = list(c.params)
        env = {}
        argkey = {}
        if params and params[0][0] in ("self", "cls"):
            first = params.pop(0)
            if isinstance(recv, Val):
                env[first[0]] = O.coerce(recv, first[1])
            elif first[0] == "self" and recv != "new":
                raise UnsupportedError(f"method {c.key} called without receiver (line {node.lineno})")
        if len(pos) > len(params):
            raise UnsupportedError(f"too many positional arguments for {c.key} (line {node.lineno})")
        def fit(v, ty, pname):
            if ty.kind == "opaque":
                if v.ty.kind == "none":
                    return V.opaque_const("None")
                if v.ty.kind == "opt" and v.ty.args[0].kind == "opaque" and not self.discovering and not self.feasible(st, V.opt_isnone(v)):
                    return V.opt_val(v)      # known not to be None here: the value itself is passed
                return O.coerce(v, ty) if (v.parts or O.is_strlit(v) or v.ty.kind == "empty") else V.opaque_const("unit")
            if v.ty.kind == "list" and ty.kind == "list" and v.ty.elem.kind == "opt" and v.ty.elem.args[0] == ty.elem:
                qi = z3.Int(V.fresh_name("qi"))
                self.oblige("safe", st, z3.ForAll([qi], z3.Implies(z3.And(0 <= qi, qi < V.list_len(v)), z3.Not(z3.Select(v.parts[0], qi)))),
                            f"no element of list argument `{pname}` of {c.key} is None", node.lineno)
                return Val(ty, v.parts[1:])
            if v.ty.kind in ("opt", "none") and ty.kind not in ("opt", "none"):
                self.oblige("safe", st, z3.Not(O.is_none(v)), f"argument `{pname}` of {c.key} is not None (TypeError)", node.lineno)
                st.assume(z3.Not(O.is_none(v)))
                if v.ty.kind == "none":
                    return V.fresh(ty, "unreach")
                v = V.opt_val(v)
            return O.coerce(v, ty)

        for i, v in enumerate(pos):
            name, ty, _ = params[i]
            env[name] = fit(v, ty, name)
            argkey[name] = "#%d" % i
        for k, v in kw.items():
            match = [p for p in params if p[0] == k]
            if not match:
                raise UnsupportedError(f"unknown keyword {k} for {c.key} (line {node.lineno})")
            if k in env:
                raise UnsupportedError(f"duplicate argument {k} for {c.key}")
            env[k] = fit(v, match[0][1], k)
            argkey[k] = k
        for name, ty, default in params:
            if name not in env:
                if default is None:
                    raise UnsupportedError(f"missing argument {name} for {c.key} (line {node.lineno})")
                dv = SpecEval(self, st, st, env, None, c.defs).ev(S.parse_clause(default))
                env[name] = O.coerce(dv, ty)
        return env, argkey

    def pure_app(self, c, env, st):
        """Result of a pure contract: an uninterpreted function of the arguments and of the fields of the records it reads."""
        uf_args = [env[n] for n in sorted(env) if env[n].parts]
        harrs = []
        if c.note != "heap-independent":
            recs = list(getattr(c, "reads", None) or [])
            if not recs:
                for n in sorted(env):
                    t = env[n].ty
                    t = t.args[0] if t.kind == "opt" else t
                    if t.kind == "ref" and t.name in S.RECORDS:
                        recs.append(t.name)
            for rname in recs:
                seen, todo = set(), [rname]
                while todo:
                    r = todo.pop()
                    if r in seen or r not in S.RECORDS:
                        continue
                    seen.add(r)
                    rec = S.RECORDS[r]
                    for fld in sorted(rec.fields):
                        harrs += st.heap.key_arrays(*S.lookup_field(r, fld)[:1], fld, rec.fields[fld])
                    todo.extend(rec.bases)
        parts = []
        for a in uf_args:
            parts += list(a.parts)
        parts += harrs
        sorts = [p.sort() for p in parts]
        outp = []
        for i, rs in enumerate(c.returns.sorts()):
            key = ("pure:" + c.key, i, tuple(x.sexpr() for x in sorts))
            if key not in _pure_fns:
                _pure_fns[key] = z3.Function(f"pure_{c.key.replace('.', '_')}_{i}_{len(_pure_fns)}", *(sorts + [rs])) if parts else None
            outp.append(_pure_fns[key](*parts) if parts else z3.Const(f"purec_{c.key}_{i}", rs))
        return Val(c.returns, outp)

    # ---- contract application (modular: callers see only the contract) -------------------------
    def call_contract(self, c, recv, pos, kw, st, node, recv_node=None, arg_nodes=None):
        if c.inline == "generator":
            yield from self.call_generator_view(c, recv, pos, kw, st, node)
            return
        if c.inline:
            yield from self.call_inline(c, recv, pos, kw, st, node)
            return
        line = node.lineno
        env, argkey = self.bind_params(c, recv, pos, kw, st, node)
        new_ref = None
        if recv == "new":
            new_ref = V.fresh(c.returns, "new_" + (c.returns.name or "obj"))
            env["self"] = new_ref
        if c.kind == "assumed":
            self.used_assumed[c.key] = self.used_assumed.get(c.key, 0) + 1
        pre = st.snapshot()
        facts = []
        for text in c.requires:
            try:
                g = SpecEval(self, st, pre, env, facts, c.defs).clause(text)
            except SpecError as exc:
                raise UnsupportedError(f"precondition of {c.key}: {exc}")
            st.assume(*facts)
            del facts[:]
            can_hold = z3.is_true(z3.simplify(g)) or _has_quantifier(g) or self.feasible(st, g)
            extra = {"callee": c.key, "clause": text}
            if not can_hold and self.feasible(st):
                extra["definite"] = True      # refuted by the quantifier-free part of the path condition alone
            self.oblige("pre", st, g, f"precondition of {c.key} at call site: {text}", line, extra=extra)
            if can_hold:
                st.assume(g)
            # else: the clause cannot hold on this path - the obligation above fails for certain.  It is not assumed (that would
            # make the rest of the path vacuous): the callee's postcondition is applied as if the call went through, so the
            # remainder of the caller is still checked.
        post = st            # mutate in place: the pre-state is the snapshot
        # pure contracts are functions of their arguments and of the fields of the records they read
        pure_result = None
        if c.pure and not c.modifies and c.returns.kind != "none":
            pure_result = self.pure_app(c, env, st)
        memo_key = None
        post_env = dict(env)
        modified_params = []
        cell_mods = []
        for m in c.modifies:
            cm = self.havoc_target(m, env, post_env, post, c, modified_params)
            if cm is not None:
                cell_mods.append(cm)
        if recv == "new":
            result = new_ref
        elif pure_result is not None:
            result = pure_result
        else:
            result = V.fresh(c.returns, "ret_" + c.key.replace(".", "_")) if c.returns.kind != "none" else V.NONE
        if "result" not in env:
            post_env["result"] = result
        post_env["retval"] = result
        # exceptional outcomes
        normal_extra = []
        for exc, spec in c.raises.items():
            if exc == "AnyException":
                continue         # only taken as the anonymous outcome below, in crash-aware callers
            se = post.clone()
            if spec.get("frame") is True:
                # the callee is proved (or assumed) to change nothing when it raises this: heap, ghost state and allocation are those before the call
                se.heap = pre.heap.clone()
                se.ghost = dict(pre.ghost)
                se.alloc = dict(pre.alloc)
            ok = True
            try:
                ev = SpecEval(self, se, pre, post_env if spec.get("frame") is not True else env, facts, c.defs, env)
                # `when` speaks about the state before the call
                conds = [SpecEval(self, pre, pre, env, facts, c.defs, env).clause(t) for t in spec.get("when", [])]
                ens = [ev.clause(t) for t in spec.get("ensures", [])]
            except SpecError as exc2:
                raise UnsupportedError(f"exceptional postcondition of {c.key}: {exc2}")
            se.assume(*facts)
            del facts[:]
            se.assume(*conds)
            se.assume(*ens)
            if spec.get("iff") and conds:
                normal_extra.append(z3.Not(z3.And(conds)))
            if self.feasible(se):
                se.trace.append(f"L{line}:{c.key} raises {exc}")
                self.writeback(modified_params, post_env, argkey, arg_nodes, recv_node, se, node)
                yield Raise(exc, line, f"raised by {c.key}"), se
        if self.anon_raise_enabled() and not c.pure:
            se = post.clone()
            ev = SpecEval(self, se, pre, post_env, facts, c.defs, env)
            for t in (c.raises.get("AnyException", {}) or {}).get("ensures", []):
                se.assume(ev.clause(t))
            se.trace.append(f"L{line}:{c.key} raises (anonymous)")
            yield Raise("AnyException", line, f"anonymous exception from {c.key}"), se
        # newly allocated results exist in the post-state the ensures talk about (allocated(result), fresh(result[i]))
        if (c.fresh_result or recv == "new") and isinstance(result, Val):
            from .state import root_record
            fresh_refs = []
            if result.ty.kind == "ref":
                fresh_refs = [result]
            elif result.ty.kind == "tuple":       # (new object, flag): the object components are newly allocated
                fresh_refs = [it for it in V.tuple_items(result) if it.ty.kind == "ref"]
            for fr in fresh_refs:
                post.allocate(fr.ty.name, fr.t)
                if post.written_alloc is not None:
                    post.written_alloc.add(root_record(fr.ty.name))
            if result.ty.kind == "list" and result.ty.elem.kind == "ref":
                # a fresh list of objects: every element is new, and nothing else was allocated
                rec = root_record(result.ty.elem.name)
                a_old = post.alloc_map(rec)
                a_new = z3.Const(V.fresh_name(f"A_{rec}"), z3.ArraySort(T.RefSort, z3.BoolSort()))
                qi, qr = z3.Int(V.fresh_name("qi")), z3.Const(V.fresh_name("qr"), T.RefSort)
                idx = z3.Function(V.fresh_name("alloc_idx"), T.RefSort, z3.IntSort())
                n_ = V.list_len(result)
                el = lambda k: V.list_get(result, k).t
                post.assume(z3.ForAll([qi], z3.Implies(z3.And(0 <= qi, qi < n_), z3.And(z3.Not(z3.Select(a_old, el(qi))), z3.Select(a_new, el(qi))))))
                post.assume(z3.ForAll([qr], z3.Implies(z3.Select(a_old, qr), z3.Select(a_new, qr))))
                post.assume(z3.ForAll([qr], z3.Implies(z3.And(z3.Select(a_new, qr), z3.Not(z3.Select(a_old, qr))),
                                                       z3.And(0 <= idx(qr), idx(qr) < n_, el(idx(qr)) == qr))))
                post.alloc[rec] = a_new
                if post.written_alloc is not None:
                    post.written_alloc.add(rec)
        try:
            ev = SpecEval(self, post, pre, post_env, facts, c.defs, env)
            ens = [ev.clause(t) for t in list(c.ensures) + list(c.ghost_ensures) + list(c.trusted_ensures)]
            if c.trusted_ensures:
                self.used_assumed["trusted clauses of " + c.key] = self.used_assumed.get("trusted clauses of " + c.key, 0) + 1
        except SpecError as exc:
            raise UnsupportedError(f"postcondition of {c.key}: {exc}")
        post.assume(*facts)
        post.assume(*ens)
        post.assume(*normal_extra)
        if self.fold_seen and cell_mods:
            from .speceval import fold_facts_point_update
            whole = set()
            for m_ in c.modifies:
                ps_ = m_.split(".")
                if len(ps_) == 2 and ps_[0] in S.RECORDS and ps_[0] not in env:
                    r_, _t = S.lookup_field(ps_[0], ps_[1])
                    if r_ is not None:
                        whole.add(S.fkey(r_, ps_[1]))
            keys_ = [S.fkey(r, f) for r, f, _ in cell_mods]
            for (rec_, fld_, ref_), k_ in zip(cell_mods, keys_):
                if k_ not in whole and keys_.count(k_) == 1:      # the field map changed at exactly this cell
                    post.assume(*fold_facts_point_update(self, rec_, fld_, ref_, pre, post))
        self.wf(post, result)
        for name in modified_params:
            self.wf(post, post_env[name])
        self.writeback(modified_params, post_env, argkey, arg_nodes, recv_node, post, node)
        if memo_key is not None:
            post.pure_memo[memo_key] = result
        alive = self.feasible(post)
        if not self.discovering and c.ensures != ["False"] and (c.kind == "assumed" or not alive):
            # vacuity guard: an assumed postcondition that contradicts the caller's state would silently end the path here.
            # Up to three paths per call site get a cover; the site counts as refuted only if none of them can return.
            site = (c.key, line)
            seen = self.callret_seen.setdefault(site, 0)
            if seen < 3:
                self.callret_seen[site] = seen + 1
                from .state import Obligation
                self.covers.append(Obligation(f"{self.contract.key}/callret/L{line}:{c.key}/{seen + 1}", "callret", self.contract.key, line,
                                              f"the call of {c.key} at line {line} can return normally (its postcondition is consistent with the caller's state)",
                                              list(post.pc), None, expect="sat", extra={"site": f"{self.contract.key}@{line}:{c.key}"}))
                if alive and isinstance(result, Val) and result.ty.kind == "list":
                    # ... and with a non-empty list: a quantified contradiction over the elements (found once: fresh(result[i]) without
                    # allocation) leaves only the empty list and makes everything about the elements vacuous
                    self.covers.append(Obligation(f"{self.contract.key}/callret/L{line}:{c.key}/nonempty{seen + 1}", "callret", self.contract.key, line,
                                                  f"the call of {c.key} at line {line} can return a non-empty list",
                                                  list(post.pc) + [V.list_len(result) >= 1], None, expect="sat",
                                                  extra={"site": f"{self.contract.key}@{line}:{c.key}:nonempty"}))
        if not alive:
            return
        yield result, post

    def anon_raise_enabled(self):
        """C11: in functions with a crash invariant (or an AnyException clause) every call may raise."""
        return bool(self.contract.crash_inv) or "AnyException" in self.contract.raises

    def havoc_target(self, m, env, post_env, st, c, modified_params):
        if m.startswith("ghost."):
            name = m[6:]
            st.ghost_get(name)
            st.ghost_set(name, V.fresh(S.GHOST[name], "G_" + name))
            return
        parts = m.split(".")
        if len(parts) == 1:
            name = parts[0]
            if name not in env:
                raise UnsupportedError(f"modifies {m}: {c.key} has no such parameter")
            post_env[name] = V.fresh(env[name].ty, "post_" + name)
            modified_params.append(name)
            return
        if parts[0] in S.RECORDS and parts[0] not in env and len(parts) == 2:
            rec, fty = S.lookup_field(parts[0], parts[1])
            if rec is None:
                raise UnsupportedError(f"modifies {m}: unknown field")
            st.heap.havoc_field(rec, parts[1], fty)
            self.note_heap_write(st, rec, parts[1])
            # a callee that may write a whole field map may also have created objects of that class
            from .state import root_record
            if root_record(parts[0]) in st.alloc:      # allocation is tracked lazily: only for classes some spec mentions
                st.havoc_alloc(parts[0])
                if st.written_alloc is not None:
                    st.written_alloc.add(root_record(parts[0]))
            return
        # param.f(.g)* : single cell
        if parts[0] not in env:
            raise UnsupportedError(f"modifies {m}: unknown root {parts[0]} in {c.key}")
        cur = env[parts[0]]
        for p in parts[1:-1]:
            cur = self.attr_read_pure(cur, p, st)
        cur = O.strip_opt(cur)
        if cur.ty.kind != "ref":
            raise UnsupportedError(f"modifies {m}: {cur.ty} is not an object")
        rec, fty = S.lookup_field(cur.ty.name, parts[-1])
        if rec is None:
            raise UnsupportedError(f"modifies {m}: unknown field {parts[-1]}")
        st.heap.write(rec, parts[-1], fty, cur.t, V.fresh(fty, "post_" + parts[-1]))
        self.note_heap_write(st, rec, parts[-1], cur.t)
        return (rec, parts[-1], cur.t)

    def writeback(self, modified_params, post_env, argkey, arg_nodes, recv_node, st, node):
        for name in modified_params:
            key = argkey.get(name)
            an = (arg_nodes or {}).get(key) if key else None
            if an is None:
                continue
            if isinstance(an, (ast.Name, ast.Attribute, ast.Subscript)):
                val = post_env[name]
                if val.ty.kind == "opt" and isinstance(an, ast.Name) and an.id in st.locals and st.locals[an.id].ty.kind != "opt":
                    # the caller's variable is not optional: the callee must not have turned it into None
                    self.oblige("safe", st, z3.Not(V.opt_isnone(val)), f"argument `{name}` is still not None after the call", node.lineno)
                    st.assume(z3.Not(V.opt_isnone(val)))
                    val = V.opt_val(val)
                for _ in self.assign(an, val, st, keep_fresh=True):
                    pass
            # a temporary (display, call result) passed to a mutating callee: nothing to write back

    # ---- inlined accessors ---------------------------------------------------------------
    def call_inline(self, c, recv, pos, kw, st, node):
        fn, info = F.find_function(c.file, c.qualname)
        self.used_inlined[c.key] = self.used_inlined.get(c.key, 0) + 1
        env, _ = self.bind_params(c, recv, pos, kw, st, node)
        saved_locals, saved_fresh = st.locals, st.fresh_locals
        saved_contract_locals = self.contract.locals
        body = F.strip_docstring(fn.body)
        if len(body) > 12:
            raise UnsupportedError(f"inline body of {c.key} is too large")
        inner = st
        inner.locals = dict(env)
        inner.fresh_locals = set()
        saved_line = self.cur_line
        self.inlining = getattr(self, "inlining", 0) + 1
        results = list(self.exec_block(body, inner))
        self.inlining -= 1
        for flow, s in results:
            loc = s.locals
            s.locals = dict(saved_locals)
            s.fresh_locals = set(saved_fresh)
            kind = flow[0]
            if kind == "return":
                yield (flow[1] if flow[1] is not None else V.NONE), s
            elif kind == "next":
                yield V.NONE, s
            elif kind == "raise":
                yield flow[1], s
            else:
                raise UnsupportedError(f"flow {kind} escaped inlined {c.key}")
        self.cur_line = saved_line

    def dict_values_list(self, d, st):
        """list(d.values()) in an arbitrary but fixed order: index <-> key bijection (Skolem functions)."""
        kty, vty = d.ty.args
        (ks,) = kty.sorts()
        out = V.fresh(T.ListT(vty), "Dvals")
        m = V.list_len(out)
        key_of = z3.Function(V.fresh_name("key_of"), z3.IntSort(), ks)
        idx_of = z3.Function(V.fresh_name("idx_of"), ks, z3.IntSort())
        i = z3.Int(V.fresh_name("qi"))
        k = z3.Const(V.fresh_name("qk"), ks)
        dom = V.dict_keys(d)
        st.assume(*O.facts_for_card(dom))
        st.assume(m == V.set_card(dom), m >= 0)
        st.assume(z3.ForAll([i], z3.Implies(z3.And(0 <= i, i < m), z3.And(
            z3.Select(d.parts[0], key_of(i)), V.eq(V.list_get(out, i), V.dict_get(d, Val(kty, [key_of(i)]))), idx_of(key_of(i)) == i))))
        st.assume(z3.ForAll([k], z3.Implies(z3.Select(d.parts[0], k), z3.And(0 <= idx_of(k), idx_of(k) < m, key_of(idx_of(k)) == k))))
        self.last_call_fresh = True
        return out

    def call_opaque(self, name, recv, node, st):
        """Pure library function without a contract of its own: result = uninterpreted function
        of the arguments (deterministic, no effect on the modelled state)."""
        self.used_assumed["opaque:" + name] = self.used_assumed.get("opaque:" + name, 0) + 1
        for vals, s in self.ev_many(list(node.args) + [k.value for k in node.keywords], st):
            if isinstance(vals, Raise):
                yield vals, s
                continue
            args = ([recv] if recv is not None else []) + [O.coerce(v, T.OPAQUE) if O.is_strlit(v) else v for v in vals]
            args = [a for a in args if isinstance(a, Val) and a.parts]
            tag = name + "/" + ",".join([k.arg for k in node.keywords])
            yield apply_uf(tag, T.OPAQUE, args), s

    def call_generator_view(self, c, recv, pos, kw, st, node):
        """A generator of the form  [assert ...]* for x in <pure list expr>: [if <pure>: continue]* yield x
        is read from the real source and evaluated eagerly as the filtered list (DESIGN 3.4.3)."""
        fn, info = F.find_function(c.file, c.qualname)
        self.used_inlined[c.key] = self.used_inlined.get(c.key, 0) + 1
        env, _ = self.bind_params(c, recv, pos, kw, st, node)
        body = F.strip_docstring(fn.body)
        loop = None
        for stmt in body:
            if isinstance(stmt, ast.Assert):
                g = SpecEval(self, st, st, env).boolean(self.pure_expr(stmt.test, st))
                self.oblige("safe", st, g, f"in-code assertion `{ast.unparse(stmt.test)[:60]}` of {c.key} cannot fail", node.lineno, extra={"assert": True})
                st.assume(g)
            elif isinstance(stmt, ast.For) and loop is None:
                loop = stmt
            else:
                raise UnsupportedError(f"generator {c.key} is not of the simple filtered-view form (statement {type(stmt).__name__})")
        if loop is None or not isinstance(loop.target, ast.Name) or loop.orelse:
            raise UnsupportedError(f"generator {c.key} is not of the simple filtered-view form")
        var = loop.target.id
        conds = []
        stmts = list(loop.body)
        last = stmts.pop() if stmts else None
        if not (isinstance(last, ast.Expr) and isinstance(last.value, ast.Yield) and isinstance(last.value.value, ast.Name) and last.value.value.id == var):
            raise UnsupportedError(f"generator {c.key}: last statement of the loop must be `yield {var}`")
        for s_ in stmts:
            if isinstance(s_, ast.If) and len(s_.body) == 1 and isinstance(s_.body[0], ast.Continue) and not s_.orelse:
                conds.append(self.pure_expr(s_.test, st))
            else:
                raise UnsupportedError(f"generator {c.key}: only `if <cond>: continue` filters are supported")
        facts = []
        src = O.strip_opt(SpecEval(self, st, st, env, facts).ev(self.pure_expr(loop.iter, st)))
        st.assume(*facts)
        if src.ty.kind != "list":
            raise UnsupportedError(f"generator {c.key} iterates over {src.ty}")
        self.last_call_fresh = True
        if not conds:
            yield src, st
            return
        def cond(idx):
            e = dict(env)
            e[var] = V.list_get(src, idx)
            f2 = []
            r = z3.And([z3.Not(SpecEval(self, st, st, e, f2).boolean(t)) for t in conds])
            return r
        probe = z3.simplify(cond(z3.Int(V.fresh_name("pi"))))
        if z3.is_true(probe):
            yield src, st          # the filter keeps everything (e.g. state=None)
            return
        yield self.filtered_list(src, cond, st), st

    # ---- container methods -----------------------------------------------------------------
    def call_container_method(self, v, attr, node, st):
        kind = v.ty.kind
        recv_node = node.func.value
        for vals, s in self.ev_many(list(node.args), st):
            if isinstance(vals, Raise):
                yield vals, s
                continue
            if node.keywords:
                raise UnsupportedError(f"keyword arguments to .{attr}() at line {node.lineno}")
            # re-read receiver: argument evaluation cannot change it (args are pure here) but states forked
            if (kind == "str" or (kind == "strlit" and self.contract.strings == "text")) and ("Str." + attr) in S.CONTRACTS:
                recv_s = O.coerce(v, T.STR) if kind == "strlit" else v
                yield from self.call_contract(S.CONTRACTS["Str." + attr], recv_s, vals, {}, s, node, recv_node=recv_node)
            elif kind == "opaque" and ("Opaque." + attr) in S.CONTRACTS:
                kwv = {}
                yield from self.call_contract(S.CONTRACTS["Opaque." + attr], v, vals, kwv, s, node, recv_node=recv_node)
            elif kind in ("opaque", "name", "strlit") and attr in OPAQUE_STR_METHODS:
                args = [v if not O.is_strlit(v) else O.coerce(v, T.OPAQUE)] + [O.coerce(a, T.OPAQUE) if O.is_strlit(a) else a for a in vals]
                yield apply_uf("strm_" + attr, T.OPAQUE, [a for a in args if a.parts]), s
            elif kind in MUTATORS and attr in MUTATORS[kind]:
                yield from self.mutate(v, attr, vals, recv_node, s, node)
            elif kind == "dict" and attr == "values":
                yield self.dict_values_list(v, s), s
            elif kind == "dict" and attr == "keys":
                yield V.dict_keys(v), s
            elif kind == "dict" and attr == "items":
                raise UnsupportedError(f".items() outside a for loop at line {node.lineno}")
            elif kind == "str" and attr == "join":
                raise UnsupportedError("str.join")
            else:
                facts = []
                r = pure_method(v, attr, vals, facts)
                s.assume(*facts)
                yield r, s

    def check_mutable_target(self, recv_node, st, node):
        """Value semantics for containers is sound only without aliasing: a local that was bound
        from another variable/field may share the object, so mutating through it is unsupported."""
        if isinstance(recv_node, ast.Name):
            n = recv_node.id
            if n in st.fresh_locals or n in self.param_containers:
                return
            raise UnsupportedError(f"mutation through possibly aliased local `{n}` at line {node.lineno}")
        if isinstance(recv_node, (ast.Attribute, ast.Subscript)):
            return
        raise UnsupportedError(f"mutation of a temporary at line {node.lineno}")

    def mutate(self, v, attr, args, recv_node, st, node):
        self.check_mutable_target(recv_node, st, node)
        if attr in ("update", "extend", "difference_update", "intersection_update") and args and args[0].ty.kind == "opt":
            self.oblige("safe", st, z3.Not(V.opt_isnone(args[0])), f"argument of .{attr}() is not None (TypeError)", node.lineno)
            st.assume(z3.Not(V.opt_isnone(args[0])))
            args = [V.opt_val(args[0])] + list(args[1:])
        facts = []
        kind = v.ty.kind
        result = V.NONE
        new = None
        line = node.lineno
        if kind == "empty":
            if attr in ("clear",):
                new = v
            elif attr == "add":
                new = O.set_add(V.EMPTY_SET, args[0], facts)
            elif attr == "append":
                new = V.list_append(V.EMPTY_LIST, self._lit(args[0]))
            elif attr in ("extend", "update"):
                new = args[0]
            elif attr in ("difference_update", "discard"):
                new = v
            elif attr == "pop" and v.ty.name == "dict" and len(args) == 2:
                new, result = v, args[1]
            else:
                self.oblige("safe", st, z3.BoolVal(False), f".{attr}() on an empty container", line)
                yield Raise("KeyError", line), st
                return
        elif kind == "set":
            if attr == "add":
                new = O.set_add(v, args[0], facts)
                from .speceval import card_in_facts_add
                facts.extend(card_in_facts_add(self, v, new, O.coerce(args[0], v.ty.elem)))
            elif attr == "clear":
                new = V.empty_set(v.ty.elem)
            elif attr in ("remove", "discard"):
                x = O.coerce(args[0], v.ty.elem)
                if attr == "remove":
                    self.oblige("safe", st, V.set_has(v, x), "set.remove() of a present element (KeyError)", line)
                new = O.set_remove(v, x, facts)
            elif attr == "update":
                new = O.set_binop("union", v, args[0], facts)
            elif attr == "difference_update":
                new = O.set_binop("difference", v, args[0], facts)
            elif attr == "intersection_update":
                new = O.set_binop("intersection", v, args[0], facts)
            else:
                raise UnsupportedError(f"set.{attr} at line {line}")
        elif kind == "list":
            n = V.list_len(v)
            if attr == "append":
                new = V.list_append(v, self._lit(args[0]))
                facts.extend(fold_facts_append(self, v, new, args[0], st))
                # redundant under the array theory, but its pattern lets E-matching carry old
                # index witnesses over to the extended list
                qi = z3.Int(V.fresh_name("qi"))
                if not V.is_empty_literal(v):
                    xs = O.coerce(self._lit(args[0]), v.ty.elem)
                    for a_new, xp in zip(new.parts[:-1], xs.parts):
                        facts.append(z3.Select(a_new, n) == xp)      # ground term new[n] for matching
                for a_old, a_new in (zip(v.parts[:-1], new.parts[:-1]) if not V.is_empty_literal(v) else []):
                    facts.append(z3.ForAll([qi], z3.Implies(z3.And(0 <= qi, qi < n), z3.Select(a_new, qi) == z3.Select(a_old, qi)),
                                           patterns=[z3.Select(a_old, qi)]))
            elif attr == "extend":
                new = O.list_concat(v, args[0], facts)
                if not V.is_empty_literal(args[0]):
                    facts.extend(fold_facts_concat(self, v, O.coerce(args[0], v.ty), new, st))
            elif attr == "clear":
                new = V.empty_list(v.ty.elem)
            elif attr == "pop":
                if args:
                    i = args[0].t
                    self.oblige("safe", st, z3.And(0 <= i, i < n), "list.pop(i) index in range (IndexError)", line)
                    result = V.list_get(v, i)
                    new = O.list_pop_at(v, i, facts)
                else:
                    self.oblige("safe", st, n > 0, "list.pop() from a non-empty list (IndexError)", line)
                    result = V.list_get(v, n - 1)
                    new = Val(v.ty, list(v.parts[:-1]) + [n - 1])
            elif attr == "remove":
                x = O.coerce(args[0], v.ty.elem)
                self.oblige("safe", st, O.list_contains(v, x), "list.remove() of a present element (ValueError)", line)
                # first occurrence removed
                k = z3.Int(V.fresh_name("rmidx"))
                j = z3.Int(V.fresh_name("qj"))
                st.assume(0 <= k, k < n, V.eq(V.list_get(v, k), x),
                          z3.ForAll([j], z3.Implies(z3.And(0 <= j, j < k), z3.Not(V.eq(V.list_get(v, j), x)))))
                new = O.list_pop_at(v, k, facts)
            else:
                raise UnsupportedError(f"list.{attr} at line {line}")
        elif kind == "dict":
            if attr == "pop":
                key = O.coerce(args[0], v.ty.args[0])
                present = V.dict_has(v, key)
                if len(args) > 1:
                    a, b = V.unify(V.dict_get(v, key), args[1])
                    result = V.ite(present, a, b)
                else:
                    self.oblige("safe", st, present, "dict.pop(k) of a present key (KeyError)", line)
                    result = V.dict_get(v, key)
                new = V.dict_del(v, key)
                facts.append(V.set_card(V.dict_keys(new)) == V.set_card(V.dict_keys(v)) - z3.If(present, 1, 0))
                facts.extend(O.facts_for_card(V.dict_keys(new)))
                facts.extend(O.facts_for_card(V.dict_keys(v)))
            elif attr == "clear":
                new = V.empty_dict(v.ty.args[0], v.ty.args[1])
            elif attr == "update":
                other = args[0]
                if V.is_empty_literal(other):
                    new = v
                else:
                    other = O.coerce(other, v.ty)
                    new = V.fresh(v.ty, "Dupd")
                    (ks,) = v.ty.args[0].sorts()
                    kk = z3.Const(V.fresh_name("qk"), ks)
                    kv = Val(v.ty.args[0], [kk])
                    facts.append(z3.ForAll([kk], V.dict_has(new, kv) == z3.Or(V.dict_has(v, kv), V.dict_has(other, kv))))
                    facts.append(z3.ForAll([kk], z3.Implies(V.dict_has(other, kv), V.eq(V.dict_get(new, kv), V.dict_get(other, kv)))))
                    facts.append(z3.ForAll([kk], z3.Implies(z3.And(V.dict_has(v, kv), z3.Not(V.dict_has(other, kv))), V.eq(V.dict_get(new, kv), V.dict_get(v, kv)))))
            else:
                raise UnsupportedError(f"dict.{attr} at line {line}")
        st.assume(*facts)
        for _ in self.assign(recv_node, new, st, keep_fresh=True):
            pass
        yield result, st

    # ---- built-in functions ---------------------------------------------------------------
    def _args(self, node, st, n=None):
        if node.keywords:
            raise UnsupportedError(f"keyword arguments to builtin at line {node.lineno}")
        for vals, s in self.ev_many(node.args, st):
            yield vals, s

    def bi_len(self, node, st):
        for vals, s in self._args(node, st):
            if isinstance(vals, Raise):
                yield vals, s
                continue
            v = vals[0]
            if v.ty.kind in ("opt", "none"):
                self.oblige("safe", s, z3.Not(O.is_none(v)), "len() of a non-None value (TypeError)", node.lineno)
                v = O.strip_opt(v)
            facts = []
            r = pure_len(v, facts)
            s.assume(*facts)
            if v.ty.kind == "list":
                s.assume(V.list_len(v) >= 0)
            yield r, s

    def bi_str(self, node, st):
        for vals, s in self._args(node, st):
            if isinstance(vals, Raise):
                yield vals, s
                continue
            v = vals[0]
            if self.contract.strings == "opaque" and v.ty.kind not in ("str",):
                yield (V.to_opaque(v) if v.parts else O.coerce(v, T.OPAQUE)), s
            else:
                yield pure_str(v), s

    def bi_int(self, node, st):
        for vals, s in self._args(node, st):
            if isinstance(vals, Raise):
                yield vals, s
                continue
            v = vals[0]
            if v.ty.kind in ("opt", "none"):
                self.oblige("safe", s, z3.Not(O.is_none(v)), "int() of a non-None value (TypeError)", node.lineno)
                s.assume(z3.Not(O.is_none(v)))
                v = O.strip_opt(v)
            if v.ty.kind == "int":
                yield v, s
            elif v.ty.kind == "bool":
                yield V.mk_int(z3.If(v.t, 1, 0)), s
            elif v.ty.kind in ("opaque", "name"):
                # int(text): parsing is not modelled (ValueError on malformed text is outside the subset)
                yield apply_uf("int_of_text", T.INT, [v]), s
            else:
                raise UnsupportedError(f"int() of {v.ty} at line {node.lineno}")

    def bi_set(self, node, st):
        if not node.args:
            yield V.EMPTY_SET, st
            return
        for vals, s in self._args(node, st):
            if isinstance(vals, Raise):
                yield vals, s
                continue
            v = vals[0]
            if v.ty.kind in ("set", "empty"):
                yield v, s
            elif v.ty.kind == "list":
                yield self.set_of_list(v, s), s
            else:
                raise UnsupportedError(f"set() of {v.ty}")

    def set_of_list(self, lst, st, proj=None, cond=None):
        """{proj(x) for x in lst [if cond(x)]}: fresh set with membership axioms (Skolem index function)."""
        if cond is not None:
            sample = proj(V.list_get(lst, z3.IntVal(0))) if proj else V.list_get(lst, z3.IntVal(0))
            ety = sample.ty
            (es,) = ety.sorts()
            r = Val(T.SetT(ety), [z3.Const(V.fresh_name("Sof"), z3.ArraySort(es, z3.BoolSort()))])
            n = V.list_len(lst)
            i = z3.Int(V.fresh_name("qi"))
            x = z3.Const(V.fresh_name("qx"), es)
            h = z3.Function(V.fresh_name("idx_of"), es, z3.IntSort())
            elem_i = proj(V.list_get(lst, i)) if proj else V.list_get(lst, i)
            elem_h = proj(V.list_get(lst, h(x))) if proj else V.list_get(lst, h(x))
            st.assume(z3.ForAll([i], z3.Implies(z3.And(0 <= i, i < n, cond(V.list_get(lst, i))), z3.Select(r.t, elem_i.t))))
            st.assume(z3.ForAll([x], z3.Implies(z3.Select(r.t, x), z3.And(0 <= h(x), h(x) < n, cond(V.list_get(lst, h(x))), elem_h.t == x))))
            st.assume(*O.facts_for_card(r))
            st.assume(V.set_card(r) <= n)
            return r
        sample = proj(V.list_get(lst, z3.IntVal(0))) if proj else V.list_get(lst, z3.IntVal(0))
        ety = sample.ty
        (es,) = ety.sorts()
        r = Val(T.SetT(ety), [z3.Const(V.fresh_name("Sof"), z3.ArraySort(es, z3.BoolSort()))])
        n = V.list_len(lst)
        i = z3.Int(V.fresh_name("qi"))
        x = z3.Const(V.fresh_name("qx"), es)
        h = z3.Function(V.fresh_name("idx_of"), es, z3.IntSort())
        elem_i = proj(V.list_get(lst, i)) if proj else V.list_get(lst, i)
        elem_h = proj(V.list_get(lst, h(x))) if proj else V.list_get(lst, h(x))
        st.assume(z3.ForAll([i], z3.Implies(z3.And(0 <= i, i < n), z3.Select(r.t, elem_i.t))))
        st.assume(z3.ForAll([x], z3.Implies(z3.Select(r.t, x), z3.And(0 <= h(x), h(x) < n, elem_h.t == x))))
        st.assume(*O.facts_for_card(r))
        st.assume(V.set_card(r) <= n)
        # pigeonhole (finite-set lemma schema): pairwise distinct projected values => as many members as elements
        i2 = z3.Int(V.fresh_name("qj"))
        ei2 = proj(V.list_get(lst, i2)) if proj else V.list_get(lst, i2)
        st.assume(z3.Implies(z3.ForAll([i, i2], z3.Implies(z3.And(0 <= i, i < i2, i2 < n), elem_i.t != ei2.t)), V.set_card(r) == n))
        return r

    def bi_list(self, node, st):
        if not node.args:
            yield V.EMPTY_LIST, st
            return
        # list(<iterable expression>) : supported for lists and generator-returning contracts
        for vals, s in self._args(node, st):
            if isinstance(vals, Raise):
                yield vals, s
                continue
            v = vals[0]
            if v.ty.kind in ("list", "empty"):
                yield v, s
            else:
                raise UnsupportedError(f"list() of {v.ty} at line {node.lineno}")

    def bi_dict(self, node, st):
        if not node.args and not node.keywords:
            yield V.EMPTY_DICT, st
            return
        raise UnsupportedError("dict(...) with arguments")

    def bi_OrderedDict(self, node, st):
        if node.args or node.keywords:
            raise UnsupportedError("OrderedDict(...) with arguments")
        yield V.EMPTY_DICT, st

    def bi_bool(self, node, st):
        for vals, s in self._args(node, st):
            yield (vals if isinstance(vals, Raise) else V.mk_bool(O.truth(vals[0]))), s

    def bi_min(self, node, st):
        yield from self._minmax(node, st, ast.LtE())

    def bi_max(self, node, st):
        yield from self._minmax(node, st, ast.GtE())

    def _minmax(self, node, st, op):
        for vals, s in self._args(node, st):
            if isinstance(vals, Raise):
                yield vals, s
                continue
            if len(vals) != 2:
                raise UnsupportedError("min/max needs two arguments")
            a, b = vals
            for v in (a, b):
                if v.ty.kind in ("opt", "none"):
                    self.oblige("safe", s, z3.Not(O.is_none(v)), "min/max operand is not None (TypeError)", node.lineno)
            a, b = O.strip_opt(a), O.strip_opt(b)
            yield V.ite(O.compare(op, a, b), a, b), s

    def bi_isinstance(self, node, st):
        # isinstance(x, T): decided statically from the declared type where possible
        if len(node.args) != 2:
            raise UnsupportedError("isinstance arity")
        for r, s in self.ev_value(node.args[0], st):
            if isinstance(r, Raise):
                yield r, s
                continue
            tname = ast.unparse(node.args[1])
            v = r
            kindmap = {"dict": "dict", "str": ("str", "name", "opaque", "strlit"), "int": "int", "list": "list", "set": "set"}
            if tname in kindmap:
                want = kindmap[tname]
                want = (want,) if isinstance(want, str) else want
                if v.ty.kind == "opt":
                    inner = v.ty.args[0].kind
                    yield V.mk_bool(z3.And(z3.Not(V.opt_isnone(v)), z3.BoolVal(inner in want or (inner == "empty")))), s
                elif v.ty.kind == "empty":
                    yield V.mk_bool(v.ty.name in want), s
                else:
                    yield V.mk_bool(v.ty.kind in want), s
            elif tname in S.ENUM_SOURCES or T.has_enum(tname):
                yield V.mk_bool(v.ty.kind == "enum" and v.ty.name == tname), s
            else:
                raise UnsupportedError(f"isinstance(..., {tname})")

    def bi_getattr(self, node, st):
        # getattr(obj, "literal"[, default])
        a1 = node.args[1] if len(node.args) >= 2 else None
        if isinstance(a1, ast.Name) and a1.id in st.locals and O.is_strlit(st.locals[a1.id]):
            a1 = ast.Constant(value=st.locals[a1.id].ty.name)       # loop variable of an unrolled constant tuple
        if a1 is None or not (isinstance(a1, ast.Constant) and isinstance(a1.value, str)):
            raise UnsupportedError(f"getattr with a non-literal attribute name at line {node.lineno}")
        attr = a1.value
        fake = ast.Attribute(value=node.args[0], attr=attr, ctx=ast.Load(), lineno=node.lineno, col_offset=node.col_offset)
        if len(node.args) == 2:
            yield from self.ev_value(fake, st)
            return
        # with default: attribute absent -> default
        for r, s in self.ev_value(node.args[0], st):
            if isinstance(r, Raise):
                yield r, s
                continue
            v = O.strip_opt(r)
            if v.ty.kind == "ref":
                rec, fty = S.lookup_field(v.ty.name, attr)
                if rec is not None:
                    yield s.heap.read(rec, attr, fty, v.t), s
                    continue
                names, complete = self.real_attrs(v.ty.name)
                if complete and attr not in names:
                    yield from self.ev_value(node.args[2], s)
                    continue
            raise UnsupportedError(f"getattr(…, {attr!r}, default) on {v.ty}")

    def bi_sorted(self, node, st):
        if len(node.args) == 1 and not node.keywords:
            # sorted(<set>): T-sort - a list holding exactly the set's elements, each once
            outs = list(self.ev_value(node.args[0], st))
            if outs and all((not isinstance(r, Raise)) and r.ty.kind == "set" for r, _ in outs):
                for sv, s in outs:
                    out = V.fresh(T.ListT(sv.ty.elem), "Lsorted")
                    n = V.list_len(out)
                    (es,) = sv.ty.elem.sorts()
                    i, j = z3.Int(V.fresh_name("qi")), z3.Int(V.fresh_name("qj"))
                    x = z3.Const(V.fresh_name("qx"), es)
                    idx = z3.Function(V.fresh_name("sorted_idx"), es, z3.IntSort())
                    s.assume(*O.facts_for_card(sv))
                    s.assume(n == V.set_card(sv), n >= 0)
                    s.assume(z3.ForAll([i], z3.Implies(z3.And(0 <= i, i < n), z3.Select(sv.t, V.list_get(out, i).t))))
                    s.assume(z3.ForAll([x], z3.Implies(z3.Select(sv.t, x), z3.And(0 <= idx(x), idx(x) < n, V.list_get(out, idx(x)).t == x))))
                    s.assume(z3.ForAll([i, j], z3.Implies(z3.And(0 <= i, i < j, j < n), V.list_get(out, i).t != V.list_get(out, j).t)))
                    self.last_call_fresh = True
                    yield out, s
                return
        c = S.CONTRACTS.get("sorted")
        if c is None:
            raise UnsupportedError("sorted() has no assumed contract")
        yield from self.call_by_key(c, None, node, st)

    def bi_hash(self, node, st):
        for vals, s in self._args(node, st):
            if isinstance(vals, Raise):
                yield vals, s
            else:
                yield apply_uf("hash", T.INT, [v for v in vals if v.parts]), s

    def bi_next(self, node, st):
        # next(iter(X)) : first element of an ordered view
        a = node.args[0]
        if not (isinstance(a, ast.Call) and isinstance(a.func, ast.Name) and a.func.id == "iter" and len(node.args) == 1):
            raise UnsupportedError(f"next() form at line {node.lineno}")
        src = a.args[0]
        if isinstance(src, ast.Call) and isinstance(src.func, ast.Attribute) and src.func.attr == "values" and not src.args:
            for d, s in self.ev_value(src.func.value, st):
                if isinstance(d, Raise):
                    yield d, s
                    continue
                if d.ty.kind != "dict":
                    raise UnsupportedError("next(iter(x.values())) on a non-dict")
                self.oblige("safe", s, O.truth(d), "next(iter(d.values())) on a non-empty dict (StopIteration)", node.lineno)
                k = V.fresh(d.ty.args[0], "firstkey")
                s.assume(V.dict_has(d, k))
                yield V.dict_get(d, k), s
            return
        for v, s in self.ev_value(src, st):
            if isinstance(v, Raise):
                yield v, s
                continue
            if v.ty.kind == "list":
                self.oblige("safe", s, V.list_len(v) > 0, "next(iter(list)) on a non-empty list (StopIteration)", node.lineno)
                yield V.list_get(v, z3.IntVal(0)), s
            else:
                raise UnsupportedError(f"next(iter({v.ty}))")

    # ---- comprehensions ------------------------------------------------------------------
    def _comp_parts(self, node, st):
        if len(node.generators) != 1 or node.generators[0].is_async:
            raise UnsupportedError(f"comprehension form at line {node.lineno}")
        g = node.generators[0]
        if not isinstance(g.target, ast.Name):
            raise UnsupportedError("comprehension target must be a simple name")
        return g

    def _comp_source(self, g, st):
        """Evaluate the iterable of a comprehension to a list value."""
        for v, s in self.iter_source_list(g.iter, st):
            yield v, s

    def ev_ListComp(self, node, st):
        g = self._comp_parts(node, st)
        for src, s in self._comp_source(g, st):
            if isinstance(src, Raise):
                yield src, s
                continue
            if V.is_empty_literal(src):
                yield V.EMPTY_LIST, s
                continue
            var = g.target.id
            n = V.list_len(src)
            i = z3.Int(V.fresh_name("ci"))
            facts = []

            def body_at(idx, expr):
                return SpecEval(self, s, s, {var: V.list_get(src, idx)}, facts).ev(self.pure_expr(expr, s))

            if not g.ifs and isinstance(node.elt, ast.Call) and self.static_callee(node.elt, s) is not None:
                yield from self.comp_with_contract(node, g, src, s)
                continue
            if not g.ifs:
                sample = body_at(i, node.elt)
                sample = self._lit(sample)
                out = V.fresh(T.ListT(sample.ty), "Lcomp")
                s.assume(V.list_len(out) == n, n >= 0)
                s.assume(z3.ForAll([i], z3.Implies(z3.And(0 <= i, i < n), V.eq(V.list_get(out, i), sample))))
                s.assume(*facts)
                yield out, s
            else:
                if not (isinstance(node.elt, ast.Name) and node.elt.id == var):
                    raise UnsupportedError("filtered comprehension must yield the loop variable")
                # The filter is evaluated once on a generic element src[qg]; facts it produces (ensures of pure total contracts called in
                # the filter, well-formedness schemas) are instances of statements valid for every index and are generalised over qg.
                # Without this the definition of a pure method applied to the bound element was lost (sound, but nothing could be
                # proved about the filtered list).  If a fact cannot be generalised the old behaviour is kept.
                gi = z3.Int(V.fresh_name("qg"))
                mark = V.fresh_mark()
                local = []
                cg = None
                try:
                    cg = z3.And([O.truth(SpecEval(self, s, s, {var: V.list_get(src, gi)}, local).ev(self.pure_expr(c, s))) for c in g.ifs])
                    facts.extend(generalize_facts(local, [gi], mark, "the comprehension filter"))
                except SpecError:
                    cg = None
                if cg is not None:
                    cond = lambda idx: z3.substitute(cg, (gi, idx if z3.is_expr(idx) else z3.IntVal(idx)))
                else:
                    cond = lambda idx: z3.And([O.truth(body_at(idx, c)) for c in g.ifs])
                out = self.filtered_list(src, cond, s)
                s.assume(*facts)
                yield out, s

    def static_callee(self, call, st):
        """Contract of `Class.method(...)` / `func(...)` resolvable without evaluating a receiver."""
        f = call.func
        if isinstance(f, ast.Name) and f.id not in st.locals:
            return S.CONTRACTS.get(f.id) or S.CONTRACTS.get(f.id + ".__init__")
        if isinstance(f, ast.Attribute) and isinstance(f.value, ast.Name) and f.value.id in S.RECORDS and f.value.id not in st.locals:
            return S.lookup_method(f.value.id, f.attr)
        return None

    def comp_with_contract(self, node, g, src, st):
        """[C.make(args(x)) for x in src] where C.make has a contract that allocates (returns a fresh
        reference): the whole-field frames of the contract are havoced once, each element satisfies
        the postcondition, all other objects are unchanged."""
        c = self.static_callee(node.elt, st)
        if c.returns.kind != "ref" or not c.fresh_result or c.requires:
            raise UnsupportedError(f"comprehension over a call to {c.key} (needs a precondition-free allocating contract)")
        self.used_assumed[c.key] = self.used_assumed.get(c.key, 0) + (1 if c.kind == "assumed" else 0)
        call = node.elt
        var = g.target.id
        n = V.list_len(src)
        out = V.fresh(T.ListT(c.returns), "Lnew")
        i, j = z3.Int(V.fresh_name("ci")), z3.Int(V.fresh_name("cj"))
        pre = st.snapshot()
        fields = []
        for m in c.modifies:
            parts = m.split(".")
            if not (len(parts) == 2 and parts[0] in S.RECORDS):
                raise UnsupportedError(f"comprehension over {c.key}: modifies entry {m} is not Class.field")
            rec, fty = S.lookup_field(parts[0], parts[1])
            fields.append((rec, parts[1], fty))
        old_arrays = {(str(rec), f): st.heap.key_arrays(rec, f, fty) for rec, f, fty in fields}
        for rec, f, fty in fields:
            st.heap.havoc_field(rec, f, fty)
            self.note_heap_write(st, rec, f)
        facts = []
        params = [p for p in c.params if p[0] not in ("self", "cls")]
        env = {}
        argvals = []
        elem = V.list_get(src, i)
        sev = SpecEval(self, pre, pre, {var: elem}, facts)
        for k, a in enumerate(call.args):
            env[params[k][0]] = O.coerce(sev.ev(self.pure_expr(a, st)), params[k][1])
        for kw in call.keywords:
            pty = [p for p in params if p[0] == kw.arg][0][1]
            env[kw.arg] = O.coerce(sev.ev(self.pure_expr(kw.value, st)), pty)
        for name, ty, default in params:
            if name not in env:
                env[name] = O.coerce(SpecEval(self, pre, pre, {}, facts).ev(S.parse_clause(default)), ty)
        env["result"] = V.list_get(out, i)
        pev = SpecEval(self, st, pre, env, facts, c.defs, env)
        ens = [pev.clause(t) for t in list(c.ensures) + list(c.ghost_ensures)]
        st.assume(*facts)
        st.assume(V.list_len(out) == n, n >= 0)
        st.assume(z3.ForAll([i], z3.Implies(z3.And(0 <= i, i < n), z3.And(ens))))
        st.assume(z3.ForAll([i, j], z3.Implies(z3.And(0 <= i, i < j, j < n), V.list_get(out, i).t != V.list_get(out, j).t)))
        r = z3.Const(V.fresh_name("qr"), T.RefSort)
        not_new = z3.ForAll([i], z3.Implies(z3.And(0 <= i, i < n), V.list_get(out, i).t != r))
        for rec, f, fty in fields:
            new = st.heap.key_arrays(rec, f, fty)
            for a_new, a_old in zip(new, old_arrays[(str(rec), f)]):
                st.assume(z3.ForAll([r], z3.Implies(not_new, z3.Select(a_new, r) == z3.Select(a_old, r))))
        # the new objects are freshly allocated
        from .state import root_record
        a_old = st.alloc_map(c.returns.name)
        a_new = z3.Const(V.fresh_name("A_" + root_record(c.returns.name)), z3.ArraySort(T.RefSort, z3.BoolSort()))
        st.assume(z3.ForAll([i], z3.Implies(z3.And(0 <= i, i < n), z3.And(z3.Not(z3.Select(a_old, V.list_get(out, i).t)), z3.Select(a_new, V.list_get(out, i).t)))))
        st.assume(z3.ForAll([r], z3.Implies(z3.Select(a_old, r), z3.Select(a_new, r))))
        st.alloc[root_record(c.returns.name)] = a_new
        self.last_call_fresh = True
        yield out, st

    def filtered_list(self, src, cond, st):
        """[x for x in src if cond(x)] as a fresh list with an order-preserving index bijection."""
        n = V.list_len(src)
        out = V.fresh(src.ty, "Lfilt")
        m = V.list_len(out)
        f = z3.Function(V.fresh_name("f_src"), z3.IntSort(), z3.IntSort())
        g = z3.Function(V.fresh_name("g_out"), z3.IntSort(), z3.IntSort())
        j, j2, i = z3.Int(V.fresh_name("qj")), z3.Int(V.fresh_name("qj2")), z3.Int(V.fresh_name("qi"))
        st.assume(m >= 0, m <= n, n >= 0)
        st.assume(z3.ForAll([j], z3.Implies(z3.And(0 <= j, j < m),
                                            z3.And(0 <= f(j), f(j) < n, V.eq(V.list_get(out, j), V.list_get(src, f(j))), cond(f(j)), g(f(j)) == j))))
        st.assume(z3.ForAll([i], z3.Implies(z3.And(0 <= i, i < n, cond(i)), z3.And(0 <= g(i), g(i) < m, f(g(i)) == i))))
        st.assume(z3.ForAll([j, j2], z3.Implies(z3.And(0 <= j, j < j2, j2 < m), f(j) < f(j2))))
        return out

    def ev_SetComp(self, node, st):
        g = self._comp_parts(node, st)
        for src, s in self._comp_source(g, st):
            if isinstance(src, Raise):
                yield src, s
                continue
            if V.is_empty_literal(src):
                yield V.EMPTY_SET, s
                continue
            var = g.target.id
            facts = []
            proj = lambda x: SpecEval(self, s, s, {var: x}, facts).ev(self.pure_expr(node.elt, s))
            cond = None
            if g.ifs:
                cond = lambda x: z3.And([SpecEval(self, s, s, {var: x}, facts).boolean(self.pure_expr(t, s)) for t in g.ifs])
            r = self.set_of_list(src, s, proj, cond)
            # facts produced under the comprehension's own binders are kept only when they do not mention a bound index
            # (they would be meaningless for the other instances); the membership axioms above carry the semantics
            s.assume(*[f for f in facts if not any(n_.startswith(("qi!", "qx!", "qj!")) for n_ in V.free_symbols(f))])
            yield r, s

    def ev_DictComp(self, node, st):
        g = self._comp_parts(node, st)
        if g.ifs:
            raise UnsupportedError("filtered dict comprehension")
        for src, s in self._comp_source(g, st):
            if isinstance(src, Raise):
                yield src, s
                continue
            var = g.target.id
            facts = []
            n = V.list_len(src)
            i = z3.Int(V.fresh_name("qi"))
            hname = V.fresh_name("last_idx")
            mark = V.fresh_mark()

            def under(expr, arg, bound):
                # facts produced for a term that mentions a bound variable are generalised over it (speceval.generalize_facts)
                local = []
                v = SpecEval(self, s, s, {var: arg}, local).ev(self.pure_expr(expr, s))
                try:
                    facts.extend(generalize_facts(local, bound, mark, "the dict comprehension"))
                except SpecError as exc:
                    raise UnsupportedError(str(exc))
                return v
            kf = lambda a, bound=(): under(node.key, a, bound)
            vf = lambda a, bound=(): under(node.value, a, bound)
            ksample = kf(V.list_get(src, z3.IntVal(0)))
            vsample = vf(V.list_get(src, z3.IntVal(0)))
            d = V.fresh(T.DictT(ksample.ty, vsample.ty), "Dcomp")
            (ks,) = ksample.ty.sorts()
            x = z3.Const(V.fresh_name("qx"), ks)
            h = z3.Function(hname, ks, z3.IntSort())
            xv = Val(ksample.ty, [x])
            # every listed key is present; each present key maps to the LAST element with that key
            s.assume(z3.ForAll([i], z3.Implies(z3.And(0 <= i, i < n), V.dict_has(d, kf(V.list_get(src, i), [i])))))
            s.assume(z3.ForAll([x], z3.Implies(V.dict_has(d, xv), z3.And(
                0 <= h(x), h(x) < n, kf(V.list_get(src, h(x)), [x]).t == x, V.eq(V.dict_get(d, xv), vf(V.list_get(src, h(x)), [x]))))))
            s.assume(z3.ForAll([x, i], z3.Implies(z3.And(V.dict_has(d, xv), h(x) < i, i < n), kf(V.list_get(src, i), [i]).t != x)))
            s.assume(*facts)
            s.assume(n >= 0)
            yield d, s

    def ev_GeneratorExp(self, node, st):
        raise UnsupportedError(f"generator expression at line {node.lineno}")

    def pure_expr(self, expr, st):
        """Comprehension bodies are evaluated by the pure evaluator; calls are not allowed
        except pure container methods and pure contracts applied as uninterpreted functions."""
        for n in ast.walk(expr):
            if isinstance(n, ast.Call):
                f = n.func
                ok = isinstance(f, ast.Attribute) and f.attr in ("intersection", "difference", "union", "issubset", "get", "copy")
                ok = ok or (isinstance(f, ast.Name) and f.id in ("len", "str", "int", "min", "max"))
                if not ok and isinstance(f, ast.Attribute) and not n.keywords:
                    ok = any(k.endswith("." + f.attr) and c.pure and not c.modifies and not c.requires and not c.raises for k, c in S.CONTRACTS.items())
                if not ok:
                    raise UnsupportedError(f"call `{ast.unparse(n)[:50]}` inside a comprehension (line {getattr(n, 'lineno', '?')})")
        return expr
