"""Contracts for jade/jobs/async_cli_command.py: the node-level implementation of the AsyncJob interface (C02, C04, C12, C19)."""
from pyvc.spec import record, contract, define, ghost, opaque_fn

F = "jade/jobs/async_cli_command.py"
opaque_fn("get_directory_size_bytes", "Path")

record("Popen", fields={"returncode": "Opt[int]", "pid": "Opaque", "g_argv": "Opaque", "g_env": "Dict[Name,Opaque]",
                        "g_stdout": "Ref[FileObj]", "g_stderr": "Ref[FileObj]"}, check_attrs=False)
record("FileObj", fields={"g_path": "Opaque"}, check_attrs=False)
record("AsyncCliCommand", file=F, bases=["AsyncJob"],
       aliases={"_return_code": "return_code"},
       fields={
           "_job": "Ref[JadeJob]", "_cli_cmd": "Str", "_output": "Opaque", "_pipe": "Opt[Ref[Popen]]", "_is_pending": "bool",
           "_start_time": "Opt[real]", "_is_complete": "bool", "_batch_id": "Opaque", "_is_manager_node": "bool",
           "_hpc_job_id": "Opt[Name]", "_stdout_fp": "Opt[Ref[FileObj]]", "_stderr_fp": "Opt[Ref[FileObj]]",
       })

ghost("popens", "int")                  # number of subprocess.Popen calls
ghost("rows", "List[Ref[Result]]")      # result rows appended through ResultsAggregator.append, in order

contract("Popen.poll", kind="assumed", params=[("self", "Ref[Popen]")], returns="Opt[int]",
         ensures=["result == self.returncode", "implies(not isnone(old(self.returncode)), self.returncode == old(self.returncode))"],
         modifies=["self.returncode"], note="subprocess.Popen.poll (T-proc): None while running, then the exit status (stable)")
contract("subprocess.Popen", kind="assumed", fresh_result=True,
         params=[("cmd", "Opaque"), ("env", "Dict[Name,Opaque]"), ("stdout", "Ref[FileObj]"), ("stderr", "Ref[FileObj]")], returns="Ref[Popen]",
         ensures=["ghost.popens == old(ghost.popens) + 1", "ghost.runs == old(ghost.runs) + 1", "result.g_argv == cmd and result.g_env == env", "isnone(result.returncode)",
                  "result.g_stdout == stdout and result.g_stderr == stderr",
                  "unchanged(Popen.returncode, result) and unchanged(Popen.g_argv, result) and unchanged(Popen.g_env, result)"],
         modifies=["ghost.popens", "ghost.runs", "Popen.returncode", "Popen.pid", "Popen.g_argv", "Popen.g_env", "Popen.g_stdout", "Popen.g_stderr"],
         note="subprocess.Popen (T-proc): starts exactly one process with this argv, environment and stdio")
contract("open", kind="assumed", fresh_result=True, params=[("path", "Opaque"), ("mode", "Opaque", '"r"')], returns="Ref[FileObj]",
         ensures=["result.g_path == path", "unchanged(FileObj.g_path, result)"], modifies=["FileObj.g_path"], note="builtin open (T-fs)")
contract("FileObj.close", kind="assumed", params=[("self", "Ref[FileObj]")], note="file close")
contract("Opaque.copy", kind="assumed", params=[("self", "Opaque")], returns="Dict[Name,Opaque]", fresh_result=True,
         ensures=["result == uf('environ_copy', 'Dict[Name,Opaque]', self)"], note="os.environ.copy()")

contract("ResultsAggregator.append", kind="assumed",
         params=[("output_dir", "Opaque"), ("result", "Ref[Result]"), ("batch_id", "Opt[Opaque]", "None")],
         ensures=["len(ghost.rows) == old(len(ghost.rows)) + 1 and ghost.rows[old(len(ghost.rows))] == result",
                  "ghost.last_append_dir == output_dir and ghost.last_append_batch == batch_id",
                  "forall(i, range(old(len(ghost.rows))), ghost.rows[i] == old(ghost.rows)[i])",
                  "forall(x, Name, (x in ghost.collected) == (x in old(ghost.collected) or x == result.name))",
                  "forall(x, Name, (x in ghost.collected_failed) == (x in old(ghost.collected_failed) or (x == result.name and result.return_code != 0)))"],
         modifies=["ghost.rows", "ghost.collected", "ghost.collected_failed", "ghost.last_append_dir", "ghost.last_append_batch"],
         note="classmethod: appends one row to the node (batch_id) or consolidated results file under its lock (C08)")

# properties / trivial accessors executed from the real source
for nm, ret in [("name", "Name"), ("return_code", "Opt[int]"), ("cancel_on_blocking_job_failure", "bool"), ("job", "Ref[JadeJob]")]:
    contract("AsyncCliCommand." + nm, file=F, inline=True, params=[("self", "Ref[AsyncCliCommand]")], returns=ret)

# coupling between the abstract AsyncJob view and the concrete fields (representation invariant of the class)
define("Inv_cli", ["s"], """(
    s.name == s._job.name and s.blocking == s._job.blocked_by and s.cancel_on_blocking_job_failure == s._job.cancel_on_blocking_job_failure
    and s.g_done == (s._is_complete or (not isnone(s._pipe) and not s._is_pending))
    and implies(s._is_pending, not isnone(s._pipe) and not isnone(s._start_time) and not isnone(s._stdout_fp) and not isnone(s._stderr_fp))
    and (isnone(s._pipe) == (s.g_launched == 0)) and s.g_launched <= 1
    and s.g_canceled == s._is_complete and not s.g_is_batch and implies(s.g_done, not isnone(s.return_code)))""")

# ---- the methods (C19; refinement of the AsyncJob interface contracts assumed by JobQueue: C02, C04, C12) ------------------
from pyvc.spec import opaque_global
opaque_global("JOBS_OUTPUT_DIR", "JOBS_STDIO_DIR", "RESULTS_DIR", "EVENT_CATEGORY_RESOURCE_UTIL", "EVENT_NAME_BYTES_CONSUMED")
opaque_fn("shlex.split", "StructuredLogEvent", "log_event")
ABSTRACT = ["self.g_done", "self.g_launched", "self.g_canceled", "self.blocking", "self.cancel_on_blocking_job_failure", "self.name", "self.g_is_batch"]
G_DONE = "self.g_done == (self._is_complete or (not isnone(self._pipe) and not self._is_pending))"
FIN, CAN = "JobCompletionStatus.FINISHED.value", "JobCompletionStatus.CANCELED.value"

contract("AsyncCliCommand.__init__", file=F, qualname="AsyncCliCommand.__init__",
         params=[("self", "Ref[AsyncCliCommand]"), ("job", "Ref[JadeJob]"), ("cmd", "Str"), ("output", "Opaque"), ("batch_id", "Opaque"),
                 ("is_manager_node", "bool"), ("hpc_job_id", "Opt[Name]")],
         returns="Ref[AsyncCliCommand]",
         ensures=["self._job == job and self._cli_cmd == cmd and self._output == uf('Path/', 'Opaque', output) and self._batch_id == batch_id",
                  "self._is_manager_node == is_manager_node and self._hpc_job_id == hpc_job_id",
                  "isnone(self._pipe) and not self._is_pending and not self._is_complete and isnone(self._return_code)",
                  "Inv_cli(self)"],
         ghost_ensures=["self.name == job.name and self.blocking == job.blocked_by and self.cancel_on_blocking_job_failure == job.cancel_on_blocking_job_failure",
                        "self.g_launched == 0 and not self.g_canceled and not self.g_done and not self.g_is_batch"],
         modifies=["self._job", "self._cli_cmd", "self._output", "self._pipe", "self._is_pending", "self._start_time", "self._return_code", "self._is_complete",
                   "self._batch_id", "self._is_manager_node", "self._hpc_job_id", "self._stdout_fp", "self._stderr_fp"] + ABSTRACT)

# the launch, exactly as configured (C19)
define("STDIO", ["s", "ext"], "s._output / JOBS_STDIO_DIR / (typed(s._job.name, 'Str') + ext)")
contract("AsyncCliCommand.run", file=F,
         params=[("self", "Ref[AsyncCliCommand]")], returns="Enum[Status]",
         locals={"env": "Dict[Name,Opaque]"}, strings="text",
         # JADE's own assert `self._pipe is None`: a job object is run at most once (C02); a canceled job is never started (C04)
         requires=["Inv_cli(self)", "self.g_launched == 0", "not self.g_canceled"],
         ensures=[
             "result == Status.GOOD",
             # interface clauses of AsyncJob.run
             "self.g_launched == old(self.g_launched) + 1", "ghost.runs == old(ghost.runs) + 1", "not self.g_done",
             # exactly one process, started with the configured command split by shlex (POSIX rules unless on Windows) ...
             "ghost.popens == old(ghost.popens) + 1",
             "val(self._pipe).g_argv == uf('shlex.split/posix', 'Opaque', self._cli_cmd, 'win' not in sys.platform)",
             # ... in the caller's environment plus the two JADE variables ...
             "val(self._pipe).g_env['JADE_RUNTIME_OUTPUT'] == self._output and val(self._pipe).g_env['JADE_JOB_NAME'] == typed(self._job.name, 'Opaque')",
             "'JADE_RUNTIME_OUTPUT' in val(self._pipe).g_env and 'JADE_JOB_NAME' in val(self._pipe).g_env",
             "forall(k, Name, implies(k != 'JADE_RUNTIME_OUTPUT' and k != 'JADE_JOB_NAME', (k in val(self._pipe).g_env) == (k in os.environ) "
             "and implies(k in val(self._pipe).g_env, val(self._pipe).g_env[k] == os.environ[k])))",
             # ... with its own stdout / stderr files
             "val(self._stdout_fp).g_path == STDIO(self, '.o') and val(self._stderr_fp).g_path == STDIO(self, '.e')",
             "val(self._pipe).g_stdout == val(self._stdout_fp) and val(self._pipe).g_stderr == val(self._stderr_fp)",
             "self._is_pending and not self._is_complete",
             "Inv_cli(self)",
             "ghost.rows == old(ghost.rows)",
         ],
         ghost_ensures=["self.g_launched == old(self.g_launched) + 1", G_DONE],
         modifies=["self._start_time", "self._stdout_fp", "self._stderr_fp", "self._pipe", "self._is_pending", "self.g_launched", "self.g_done",
                   "ghost.popens", "ghost.runs", "Popen.returncode", "Popen.pid", "Popen.g_argv", "Popen.g_env", "Popen.g_stdout", "Popen.g_stderr", "FileObj.g_path"])

# the result row (C19): the job's name, the process's real exit status, FINISHED, the node's HPC job id; only the manager node writes it
contract("AsyncCliCommand._complete", file=F,
         params=[("self", "Ref[AsyncCliCommand]")],
         locals={"exec_time_s": "real"},
         requires=["not isnone(self._pipe) and not isnone(val(self._pipe).returncode)",
                   "not isnone(self._stdout_fp) and not isnone(self._stderr_fp) and not isnone(self._start_time)"],
         ensures=[
             "self._return_code == val(self._pipe).returncode and val(self._pipe).returncode == old(val(self._pipe).returncode)",
             "implies(not self._is_manager_node, ghost.rows == old(ghost.rows) and ghost.collected == old(ghost.collected))",
             "implies(self._is_manager_node, len(ghost.rows) == old(len(ghost.rows)) + 1 and forall(i, range(old(len(ghost.rows))), ghost.rows[i] == old(ghost.rows)[i]))",
             "implies(self._is_manager_node, ghost.rows[old(len(ghost.rows))].name == self._job.name "
             "and ghost.rows[old(len(ghost.rows))].return_code == val(old(val(self._pipe).returncode)) "
             f"and ghost.rows[old(len(ghost.rows))].status == {FIN} and ghost.rows[old(len(ghost.rows))].hpc_job_id == self._hpc_job_id)",
             "implies(self._is_manager_node, ghost.last_append_dir == self._output and ghost.last_append_batch == self._batch_id)",
             "implies(self._is_manager_node, forall(x, Name, (x in ghost.collected) == (x in old(ghost.collected) or x == self._job.name)))",
         ],
         modifies=["self._return_code", "ghost.rows", "ghost.collected", "ghost.collected_failed", "ghost.last_append_dir", "ghost.last_append_batch",
                   "Result.name", "Result.return_code", "Result.status", "Result.exec_time_s", "Result.completion_time", "Result.hpc_job_id"])
ghost("last_append_dir", "Opaque")
ghost("last_append_batch", "Opt[Opaque]")

contract("AsyncCliCommand.is_complete", file=F,
         params=[("self", "Ref[AsyncCliCommand]")], returns="bool",
         requires=["Inv_cli(self)",
                   "not self.g_done or self.g_canceled",          # interface precondition (a finished node-level job is not polled again: JADE asserts on it)
                   "self.g_launched >= 1 or self.g_canceled"],    # only jobs that were run or canceled are polled (JobQueue: outstanding jobs)
         ensures=[
             # interface clauses of AsyncJob.is_complete
             "result == self.g_done", "implies(old(self.g_done), self.g_done)", "implies(result, not isnone(self.return_code))",
             "self.g_launched == old(self.g_launched) and self.g_canceled == old(self.g_canceled)",
             "Inv_cli(self)",
             # complete exactly when it was canceled or the process has exited; the row is written at that moment, once
             "implies(not old(self._is_complete), result == (not isnone(val(self._pipe).returncode)))",
             "implies(result and not old(self.g_done), self.return_code == val(self._pipe).returncode)",
             "implies(not result or old(self.g_done) or not self._is_manager_node, ghost.rows == old(ghost.rows))",
             "implies(result and not old(self.g_done) and self._is_manager_node, len(ghost.rows) == old(len(ghost.rows)) + 1 "
             "and ghost.rows[old(len(ghost.rows))].name == self._job.name and ghost.rows[old(len(ghost.rows))].return_code == val(val(self._pipe).returncode) "
             f"and ghost.rows[old(len(ghost.rows))].status == {FIN} and ghost.rows[old(len(ghost.rows))].hpc_job_id == self._hpc_job_id)",
         ],
         ghost_ensures=[G_DONE],
         modifies=["self._is_pending", "self._return_code", "self.g_done", "Popen.returncode", "ghost.rows", "ghost.collected", "ghost.collected_failed",
                   "ghost.last_append_dir", "ghost.last_append_batch",
                   "Result.name", "Result.return_code", "Result.status", "Result.exec_time_s", "Result.completion_time", "Result.hpc_job_id"])

contract("AsyncCliCommand.cancel", file=F,
         params=[("self", "Ref[AsyncCliCommand]")],
         requires=["Inv_cli(self)"],
         ensures=[
             # interface clauses of AsyncJob.cancel
             "self.g_canceled and self.g_done", "self.return_code == 1", "self.g_launched == old(self.g_launched)",
             "subset(old(ghost.collected), ghost.collected) and subset(old(ghost.collected_failed), ghost.collected_failed)",
             "Inv_cli(self)", "ghost.popens == old(ghost.popens)",
             # C04/C19: the manager node records one 'canceled' row with a non-zero code under the job's name
             "implies(not self._is_manager_node, ghost.rows == old(ghost.rows))",
             "implies(self._is_manager_node, len(ghost.rows) == old(len(ghost.rows)) + 1 and ghost.rows[old(len(ghost.rows))].name == self._job.name "
             f"and ghost.rows[old(len(ghost.rows))].return_code == 1 and ghost.rows[old(len(ghost.rows))].status == {CAN} "
             "and ghost.rows[old(len(ghost.rows))].hpc_job_id == self._hpc_job_id)",
         ],
         ghost_ensures=["self.g_canceled", G_DONE],
         modifies=["self._return_code", "self._is_complete", "self.g_canceled", "self.g_done", "ghost.rows", "ghost.collected", "ghost.collected_failed",
                   "ghost.last_append_dir", "ghost.last_append_batch",
                   "Result.name", "Result.return_code", "Result.status", "Result.exec_time_s", "Result.completion_time", "Result.hpc_job_id"])

# ---- command construction (C19) ------------------------------------------------------------------------------------------
FG = "jade/extensions/generic_command/generic_command_execution.py"
define("CMD_NAME", ["j"], "(' --jade-job-name=' + typed(j.name, 'Str'))")
define("CMD_OUT", ["o"], "(' --jade-runtime-output=' + typed(uf('os.path.dirname/', 'Opaque', o), 'Str'))")
define("GEN_CMD", ["j", "o"], """(((j.command + CMD_NAME(j)) + CMD_OUT(o)) if (j.append_job_name and j.append_output_dir) else
    ((j.command + CMD_NAME(j)) if j.append_job_name else ((j.command + CMD_OUT(o)) if j.append_output_dir else j.command)))""")
record("GenericCommandExecution", file=FG, fields={"_job": "Ref[JadeJob]", "_output": "Opaque"})
contract("GenericCommandExecution.generate_command", file=FG, strings="text",
         params=[("job", "Ref[JadeJob]"), ("output", "Opaque"), ("config_file", "Opaque"), ("verbose", "bool", "False")], returns="Str",
         # the configured command, verbatim, plus only the documented arguments, in this order, when requested
         ensures=["result == GEN_CMD(job, output)"],
         modifies=[])

# one AsyncCliCommand per configured job, in configuration order, built from that job
FR = "jade/jobs/job_runner.py"
ghost("am_manager", "bool")
ghost("current_job_id", "Opt[Name]")
contract("HpcIntf.am_i_manager", kind="assumed", pure=True, params=[("self", "Ref[HpcIntf]")], returns="bool", ensures=["result == ghost.am_manager"],
         note="SLURM_NODEID == 0 (manager node of the allocation)")
contract("HpcIntf.get_current_job_id", kind="assumed", pure=True, params=[("self", "Ref[HpcIntf]")], returns="Opt[Name]", ensures=["result == ghost.current_job_id"],
         note="SLURM_JOB_ID of the allocation this node belongs to")
contract("JobConfiguration.job_execution_class", kind="assumed", pure=True, params=[("self", "Ref[JobConfiguration]"), ("extension", "Opaque")],
         returns="Ref[GenericCommandExecution]",
         note="extension registry lookup: for generic_command jobs the execution class is GenericCommandExecution (other extensions' generate_command are outside the contracts)")
GJ_ELEM = ("{j}._job == JL()[{i}] and {j}._cli_cmd == GEN_CMD(JL()[{i}], self._jobs_output) and {j}._output == uf('Path/', 'Opaque', self._output) "
           "and {j}._batch_id == self._batch_id and {j}._is_manager_node == ghost.am_manager and {j}._hpc_job_id == ghost.current_job_id "
           "and isnone({j}._pipe) and {j}.g_launched == 0 and not {j}.g_canceled and Inv_cli({j}) and fresh({j})")
from pyvc.spec import CONTRACTS as _C
_C.pop("JobRunner._generate_jobs", None)
contract("JobRunner._generate_jobs", file=FR, fresh_result=True,
         params=[("self", "Ref[JobRunner]"), ("config_file", "Opaque"), ("verbose", "bool")], returns="List[Ref[AsyncCliCommand]]",
         locals={"jobs": "List[Ref[AsyncCliCommand]]"},
         defs={"JL": ([], "self._config.g_joblist")},
         requires=["Inv_cfg(self._config)"],
         loops={1: {"invariant": ["len(jobs) == _k1", "_it1 == JL()",
                                  "forall(i, range(_k1), " + GJ_ELEM.format(j="jobs[i]", i="i") + ")",
                                  "forall(i, range(_k1), forall(m, range(i), jobs[i] != jobs[m]))",
                                  "unchanged(JadeJob.name) and unchanged(JadeJob.command) and unchanged(JadeJob.blocked_by) and unchanged(JadeJob.append_job_name) "
                                  "and unchanged(JadeJob.append_output_dir) and unchanged(JadeJob.cancel_on_blocking_job_failure) and unchanged(JobConfiguration.g_joblist)"]}},
         ensures=["len(result) == len(JL())",
                  "forall(i, range(len(result)), " + GJ_ELEM.format(j="result[i]", i="i") + ")",
                  "forall(i, range(len(result)), forall(m, range(i), result[i] != result[m]))",
                  "ghost.popens == old(ghost.popens) and ghost.rows == old(ghost.rows)"],
         modifies=["AsyncCliCommand._job", "AsyncCliCommand._cli_cmd", "AsyncCliCommand._output", "AsyncCliCommand._pipe", "AsyncCliCommand._is_pending",
                   "AsyncCliCommand._start_time", "AsyncJob.return_code", "AsyncCliCommand._is_complete", "AsyncCliCommand._batch_id",
                   "AsyncCliCommand._is_manager_node", "AsyncCliCommand._hpc_job_id", "AsyncCliCommand._stdout_fp", "AsyncCliCommand._stderr_fp",
                   "AsyncJob.g_done", "AsyncJob.g_launched", "AsyncJob.g_canceled", "AsyncJob.blocking", "AsyncJob.cancel_on_blocking_job_failure", "AsyncJob.name",
                   "AsyncJob.g_is_batch"])
