"""Contracts for jade/jobs/async_cli_command.py: the node-level implementation of the AsyncJob interface (C02, C04, C12, C19)."""
from pyvc.spec import record, contract, define, ghost, opaque_fn

F = "jade/jobs/async_cli_command.py"
opaque_fn("get_directory_size_bytes", "Path")

record("Popen", fields={"returncode": "Opt[int]", "pid": "Opaque", "g_argv": "Opaque", "g_env": "Dict[Name,Opaque]"}, check_attrs=False)
record("FileObj", fields={"g_path": "Opaque"}, check_attrs=False)
record("AsyncCliCommand", file=F, bases=["AsyncJob"],
       aliases={"_return_code": "return_code"},
       fields={
           "_job": "Ref[JadeJob]", "_cli_cmd": "Opaque", "_output": "Opaque", "_pipe": "Opt[Ref[Popen]]", "_is_pending": "bool",
           "_start_time": "Opt[real]", "_is_complete": "bool", "_batch_id": "Opaque", "_is_manager_node": "bool",
           "_hpc_job_id": "Opt[Name]", "_stdout_fp": "Opt[Ref[FileObj]]", "_stderr_fp": "Opt[Ref[FileObj]]",
       })

ghost("popens", "int")                  # number of subprocess.Popen calls
ghost("rows", "List[Ref[Result]]")      # result rows appended through ResultsAggregator.append, in order

contract("Popen.poll", kind="assumed", params=[("self", "Ref[Popen]")], returns="Opt[int]",
         ensures=["result == self.returncode", "implies(not isnone(old(self.returncode)), self.returncode == old(self.returncode))"],
         modifies=["self.returncode"], note="subprocess.Popen.poll (T-proc): None while running, then the exit status (stable)")
contract("subprocess.Popen", kind="assumed", fresh_result=True,
         params=[("cmd", "Opaque"), ("env", "Dict[Name,Opaque]"), ("stdout", "Ref[FileObj]"), ("stderr", "Ref[FileObj]")], returns="Ref[Popen]",
         ensures=["ghost.popens == old(ghost.popens) + 1", "result.g_argv == cmd and result.g_env == env", "isnone(result.returncode)"],
         modifies=["ghost.popens", "Popen.returncode", "Popen.pid", "Popen.g_argv", "Popen.g_env"], note="subprocess.Popen (T-proc): starts exactly one process")
contract("open", kind="assumed", fresh_result=True, params=[("path", "Opaque"), ("mode", "Opaque", '"r"')], returns="Ref[FileObj]",
         ensures=["result.g_path == path"], modifies=["FileObj.g_path"], note="builtin open (T-fs)")
contract("FileObj.close", kind="assumed", params=[("self", "Ref[FileObj]")], note="file close")
contract("Opaque.copy", kind="assumed", params=[("self", "Opaque")], returns="Dict[Name,Opaque]", fresh_result=True,
         ensures=["result == uf('environ_copy', 'Dict[Name,Opaque]', self)"], note="os.environ.copy()")

contract("ResultsAggregator.append", kind="assumed",
         params=[("output_dir", "Opaque"), ("result", "Ref[Result]"), ("batch_id", "Opt[Opaque]", "None")],
         ensures=["len(ghost.rows) == old(len(ghost.rows)) + 1 and ghost.rows[old(len(ghost.rows))] == result",
                  "forall(i, range(old(len(ghost.rows))), ghost.rows[i] == old(ghost.rows)[i])",
                  "forall(x, Name, (x in ghost.collected) == (x in old(ghost.collected) or x == result.name))",
                  "forall(x, Name, (x in ghost.collected_failed) == (x in old(ghost.collected_failed) or (x == result.name and result.return_code != 0)))"],
         modifies=["ghost.rows", "ghost.collected", "ghost.collected_failed"],
         note="classmethod: appends one row to the node (batch_id) or consolidated results file under its lock (C08)")

# properties / trivial accessors executed from the real source
for nm, ret in [("name", "Name"), ("return_code", "Opt[int]"), ("cancel_on_blocking_job_failure", "bool"), ("job", "Ref[JadeJob]")]:
    contract("AsyncCliCommand." + nm, file=F, inline=True, params=[("self", "Ref[AsyncCliCommand]")], returns=ret)

# coupling between the abstract AsyncJob view and the concrete fields (representation invariant of the class)
define("Inv_cli", ["s"], """(
    s.name == s._job.name and s.blocking == s._job.blocked_by and s.cancel_on_blocking_job_failure == s._job.cancel_on_blocking_job_failure
    and s.g_done == (s._is_complete or (not isnone(s._pipe) and not s._is_pending))
    and implies(s._is_pending, not isnone(s._pipe) and not isnone(s._start_time) and not isnone(s._stdout_fp) and not isnone(s._stderr_fp))
    and (isnone(s._pipe) == (s.g_launched == 0)) and s.g_launched <= 1
    and implies(s.g_canceled, s._is_complete) and not s.g_is_batch)""")
