"""Contracts for jade/jobs/job_runner.py: node lifecycle (C16), worker count (C06)."""
from pyvc.spec import record, contract, define, ghost, opaque_fn, opaque_global, CONTRACTS as _C

F = "jade/jobs/job_runner.py"
opaque_fn("shutil.rmtree")
define("T_JOBS", [], 'typed("event:batch-jobs-ran", "Opaque")')
APP = lambda tag: [f"len(ghost.log) == old(len(ghost.log)) + 1 and ghost.log[old(len(ghost.log))] == {tag}",
                   "forall(i, range(old(len(ghost.log))), ghost.log[i] == old(ghost.log)[i])"]

from pyvc.spec import CONTRACTS as _C
CLI_FIELDS = list(_C["JobRunner._generate_jobs"].modifies)     # fields of the AsyncCliCommand objects created for the batch's jobs
contract("JobRunner._create_local_scratch", kind="assumed", params=[("self", "Ref[JobRunner]")], returns="Opaque", note="mkdir under the node's local scratch")
contract("JobConfiguration.serialize_for_execution", kind="assumed", params=[("self", "Ref[JobConfiguration]"), ("scratch_dir", "Opaque"), ("are_inputs_local", "bool", "True")],
         returns="Opaque", note="writes per-job files and a names-only config into the scratch directory (C17)")
contract("JobRunner._complete_hpc_job", kind="assumed", params=[("self", "Ref[JobRunner]")],
         modifies=["ghost.files", "ghost.vfiles", "ghost.file_writes", "ghost.cluster_lock", "ghost.lock_marker_left"],
         note="local-HPC-type only: removes this batch's id from the persisted status under promotion")
contract("JobRunner._run_jobs", file=F,
         params=[("self", "Ref[JobRunner]"), ("jobs", "List[Ref[AsyncJob]]"), ("num_parallel_processes_per_node", "Opt[int]", "None")], returns="Enum[Status]",
         locals={"max_num_workers": "int"},
         defs={"PPN": ([], "(ghost.num_cpus if isnone(num_parallel_processes_per_node) else val(num_parallel_processes_per_node))")},
         ensures=[
             # C06: the node's queue depth is min(#jobs, configured processes-per-node or the node's CPU count)
             "ghost.run_jobs_depth == (len(jobs) if len(jobs) <= PPN() else PPN())",
             "result == Status.GOOD",
         ],
         ghost_ensures=APP("T_JOBS()"),
         raises={"ExecutionError": {"ensures": [], "frame": False}},
         modifies=["ghost.log", "ghost.run_jobs_depth", "ResourceMonitorLogger.g_x", "ghost.runs", "ghost.collected", "ghost.collected_failed", "ghost.popens", "ghost.rows",
                   "ResourceMonitorAggregator._stats", "ResourceMonitorAggregator._count", "ResourceMonitorAggregator._monitor",
                   "ResourceMonitorAggregator._last_stats", "ResourceMonitorAggregator._summaries", "ResourceMonitorAggregator._process_summaries",
                   "ResourceMonitorAggregator._process_sample_count"] + CLI_FIELDS)
ghost("num_cpus", "int")
ghost("run_jobs_depth", "int")
contract("HpcIntf.get_num_cpus", kind="assumed", params=[("self", "Ref[HpcIntf]")], returns="int", ensures=["result == ghost.num_cpus"],
         note="CPUs of the node (SLURM_CPUS_ON_NODE)")
contract("HpcIntf.log_environment_variables", kind="assumed", params=[("self", "Ref[HpcIntf]")], note="logging only")
contract("ResourceMonitorAggregator.__init__", kind="assumed", params=[("name", "Opaque"), ("stats", "Opaque")], returns="Ref[ResourceMonitorAggregator]", fresh_result=True,
         modifies=["ResourceMonitorAggregator._stats", "ResourceMonitorAggregator._count", "ResourceMonitorAggregator._monitor", "ResourceMonitorAggregator._last_stats",
                   "ResourceMonitorAggregator._summaries", "ResourceMonitorAggregator._process_summaries", "ResourceMonitorAggregator._process_sample_count"],
         note="C20")
contract("ResourceMonitorAggregator.finalize", kind="assumed", params=[("self", "Ref[ResourceMonitorAggregator]"), ("output_dir", "Opaque")], note="C20 (not under contract)")
record("ResourceMonitorLogger", fields={"g_x": "Opaque"}, check_attrs=False)
contract("ResourceMonitorLogger.__init__", kind="assumed", params=[("name", "Opaque"), ("stats", "Opaque")], returns="Ref[ResourceMonitorLogger]", fresh_result=True,
         modifies=["ResourceMonitorLogger.g_x"], note="periodic resource logger")
contract("JobQueue.run_jobs", kind="assumed",
         params=[("jobs", "List[Ref[AsyncJob]]"), ("max_queue_depth", "int"), ("poll_interval", "int", "10"), ("monitor_func", "Opt[Opaque]", "None"),
                 ("monitor_interval", "Opt[int]", "10")],
         ensures=["ghost.run_jobs_depth == max_queue_depth"],
         raises={"ExecutionError": {}},
         modifies=["ghost.run_jobs_depth", "ghost.runs", "ghost.collected", "ghost.collected_failed", "ghost.popens", "ghost.rows"],
         note="classmethod: JobQueue(max_queue_depth, ...).run(jobs) - JobQueue.__init__/run/wait/process_queue are verified (never more than depth outstanding, C06)")
contract("JobRunner._aggregate_events", kind="assumed", params=[("self", "Ref[JobRunner]")], note="moves job event logs into the node's event file (C20, not under contract)")

G_ = "self._config.get_default_submission_group().submitter_params" if False else "uf('pure_JobConfiguration_get_default_submission_group', 'Ref[SubmissionGroup]', self._config)"
contract("JobRunner.run_jobs_v", file=F, qualname="JobRunner.run_jobs",
         params=[("self", "Ref[JobRunner]"), ("distributed_submitter", "bool", "True"), ("verbose", "bool", "False"), ("num_parallel_processes_per_node", "Opt[int]", "None")],
         returns="Enum[Status]",
         locals={"env": "Dict[Name,Opaque]"},
         call_alias={"check_run_command": "check_run_command_env", "run_command": "run_command_env"},
         requires=["Inv_cfg(self._config)"],
         ensures=[
             # C16 (command variant; the obsolete node_setup_script / node_shutdown_script fields unset):
             # node setup (iff configured) strictly before the batch's jobs, node teardown (iff configured) strictly after, each once
             "implies(isnone(GP().node_setup_script) and not truth(GP().node_shutdown_script) and not isnone(self._config._node_setup_command), "
             "ghost.log[old(len(ghost.log))] == val(self._config._node_setup_command) and ghost.log[old(len(ghost.log)) + 1] == T_JOBS())",
             "implies(isnone(GP().node_setup_script) and isnone(self._config._node_setup_command), ghost.log[old(len(ghost.log))] == T_JOBS())",
             "implies(isnone(GP().node_setup_script) and not truth(GP().node_shutdown_script) and not isnone(self._config._node_teardown_command), "
             "ghost.log[len(ghost.log) - 1] == val(self._config._node_teardown_command) and ghost.log[len(ghost.log) - 2] == T_JOBS())",
             "implies(isnone(GP().node_setup_script) and not truth(GP().node_shutdown_script), len(ghost.log) == old(len(ghost.log)) + 1 "
             "+ (0 if isnone(self._config._node_setup_command) else 1) + (0 if isnone(self._config._node_teardown_command) else 1))",
             # the documented environment of the node commands
             "implies(len(ghost.log) > old(len(ghost.log)) + 1, not isnone(ghost.last_env) and typed('JADE_RUNTIME_OUTPUT', 'Name') in val(ghost.last_env) "
             "and typed('JADE_SUBMISSION_GROUP', 'Name') in val(ghost.last_env))",
             # configuring them never prevents the results from being recorded: the batch's status is returned whatever the teardown's exit status
             "result == Status.GOOD",
             "forall(i, range(old(len(ghost.log))), ghost.log[i] == old(ghost.log)[i])",
         ],
         defs={"GP": ([], "GRP().submitter_params"), "GRP": ([], "uf('default_group', 'Ref[SubmissionGroup]', self._config)")},
         raises={"ExecutionError": {"ensures": [], "frame": False}},
         modifies=["ghost.log", "ghost.last_env", "ghost.execs", "ghost.last_ret", "ghost.run_jobs_depth", "ghost.runs", "ghost.collected", "ghost.collected_failed",
                   "ghost.popens", "ghost.rows", "ghost.files", "ghost.vfiles", "ghost.file_writes", "ghost.cluster_lock", "ghost.lock_marker_left",
                   "ResourceMonitorLogger.g_x", "ResourceMonitorAggregator._stats", "ResourceMonitorAggregator._count", "ResourceMonitorAggregator._monitor",
                   "ResourceMonitorAggregator._last_stats", "ResourceMonitorAggregator._summaries", "ResourceMonitorAggregator._process_summaries",
                   "ResourceMonitorAggregator._process_sample_count"] + CLI_FIELDS)
