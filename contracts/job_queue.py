"""Contracts for jade/jobs/job_queue.py and the AsyncJobInterface it drives (C02, C04, C06)."""
from pyvc.spec import record, contract, define, ghost

F = "jade/jobs/job_queue.py"

# Abstract view of an asynchronous job (AsyncCliCommand on a node, AsyncHpcSubmitter in a
# submitter).  `name`, `return_code`, `cancel_on_blocking_job_failure` are properties of the real
# classes; `blocking` is the set returned by get_blocking_jobs(); g_* are ghost counters/flags
# maintained only by the interface contracts below.
record("AsyncJob", file="jade/jobs/async_job_interface.py", cls="AsyncJobInterface", check_attrs=False, fields={
    "name": "Name",
    "return_code": "Opt[int]",
    "cancel_on_blocking_job_failure": "bool",
    "blocking": "Set[Name]",
    "g_launched": "int",       # how many times run() started the job's process / sbatch
    "g_canceled": "bool",
    "g_done": "bool",          # is_complete() has returned True
}, extra_attrs={"blocking", "g_launched", "g_canceled", "g_done"})

record("JobQueue", file=F, fields={
    "_queue_depth": "int",
    "_poll_interval": "int",
    "_outstanding_jobs": "Dict[Name,Ref[AsyncJob]]",
    "_queued_jobs": "List[Ref[AsyncJob]]",
    "_num_jobs": "int",
    "_num_completed": "int",
    "_monitor_func": "Opt[Opaque]",
    "_last_monitor_time": "Opt[real]",
    "_monitor_interval": "Opt[int]",
})

# total number of AsyncJobInterface.run() calls (process starts on a node, sbatch hand-offs in a submitter)
ghost("runs", "int")

# ---- interface contracts (assumed when verifying JobQueue; each implementation is verified
# ---- against them in contracts/async_cli.py and contracts/hpc_submitter.py) ---------------------
contract("AsyncJob.is_complete", kind="assumed",
         params=[("self", "Ref[AsyncJob]")], returns="bool",
         ensures=["result == self.g_done", "implies(old(self.g_done), self.g_done)",
                  "implies(result, not isnone(self.return_code))",
                  "self.g_launched == old(self.g_launched) and self.g_canceled == old(self.g_canceled)"],
         modifies=["self.g_done", "self.return_code"],
         note="AsyncJobInterface.is_complete: completion is sticky; a complete job has a return code")
contract("AsyncJob.run", kind="assumed",
         params=[("self", "Ref[AsyncJob]")], returns="Enum[Status]",
         ensures=["self.g_launched == old(self.g_launched) + 1", "ghost.runs == old(ghost.runs) + 1"],
         modifies=["self.g_launched", "self.g_done", "self.return_code", "ghost.runs"],
         note="AsyncJobInterface.run: starts the job's process (or sbatch) exactly once per call")
contract("AsyncJob.cancel", kind="assumed",
         params=[("self", "Ref[AsyncJob]")],
         ensures=["self.g_canceled and self.g_done", "self.return_code == 1", "self.g_launched == old(self.g_launched)"],
         modifies=["self.g_canceled", "self.g_done", "self.return_code"],
         note="AsyncJobInterface.cancel: records a canceled result, never starts the process")
contract("AsyncJob.get_blocking_jobs", kind="assumed", pure=True,
         params=[("self", "Ref[AsyncJob]")], returns="Set[Name]", ensures=["result == self.blocking"])
contract("AsyncJob.remove_blocking_job", kind="assumed",
         params=[("self", "Ref[AsyncJob]"), ("name", "Name")],
         requires=["name in self.blocking"],
         ensures=["forall(x, Name, (x in self.blocking) == (x in old(self.blocking) and x != name))"],
         modifies=["self.blocking"], note="set.remove on the job's blocked_by (KeyError if absent: precondition)")
contract("AsyncJob.set_blocking_jobs", kind="assumed",
         params=[("self", "Ref[AsyncJob]"), ("jobs", "Set[Name]")],
         ensures=["self.blocking == jobs"], modifies=["self.blocking"])
contract("AsyncJob.get_id", kind="assumed", pure=True, params=[("self", "Ref[AsyncJob]")], returns="Opaque")

contract("JobQueue.is_full", file=F, inline=True, params=[("self", "Ref[JobQueue]")], returns="bool")
contract("JobQueue.outstanding_jobs", file=F, inline=True, params=[("self", "Ref[JobQueue]")], returns="List[Ref[AsyncJob]]")

define("nout", ["q"], "card(keys(q._outstanding_jobs))")
# capacity invariant (C06)
define("Inv_cap", ["q"], "nout(q) <= q._queue_depth")

# ---- JobQueue operations -------------------------------------------------------------------------
contract("JobQueue._run_job", file=F,
         params=[("self", "Ref[JobQueue]"), ("job", "Ref[AsyncJob]")],
         requires=["nout(self) < self._queue_depth",          # C06: only called with a free slot
                   "empty(job.blocking)"],                     # C02: never called for a job that still has blockers
         ensures=["job.g_launched == old(job.g_launched) + 1", "ghost.runs == old(ghost.runs) + 1",
                  "unchanged(AsyncJob.g_launched, job)",
                  "Inv_cap(self)",
                  "forall(x, Name, implies(x != job.name, (x in self._outstanding_jobs) == (x in old(self._outstanding_jobs)) "
                  "and self._outstanding_jobs[x] == old(self._outstanding_jobs)[x]))",
                  "implies(job.name in self._outstanding_jobs, self._outstanding_jobs[job.name] == job or job.name in old(self._outstanding_jobs))",
                  "nout(self) <= old(nout(self)) + 1 and nout(self) >= old(nout(self))",
                  "self._queued_jobs == old(self._queued_jobs)"],
         modifies=["self._num_jobs", "self._outstanding_jobs", "AsyncJob.g_launched", "AsyncJob.g_done", "AsyncJob.return_code", "ghost.runs"])

contract("JobQueue.submit", file=F,
         params=[("self", "Ref[JobQueue]"), ("job", "Ref[AsyncJob]")],
         requires=["Inv_cap(self)"],
         ensures=["Inv_cap(self)",
                  "self._queue_depth == old(self._queue_depth)",
                  # started at once iff there is a free slot and nothing blocks it; otherwise queued, not started
                  "implies(old(nout(self)) < self._queue_depth and empty(job.blocking), job.g_launched == old(job.g_launched) + 1 "
                  "and ghost.runs == old(ghost.runs) + 1 and self._queued_jobs == old(self._queued_jobs))",
                  "implies(not (old(nout(self)) < self._queue_depth and empty(job.blocking)), job.g_launched == old(job.g_launched) "
                  "and ghost.runs == old(ghost.runs) "
                  "and len(self._queued_jobs) == old(len(self._queued_jobs)) + 1 and self._queued_jobs[old(len(self._queued_jobs))] == job "
                  "and self._outstanding_jobs == old(self._outstanding_jobs))",
                  "unchanged(AsyncJob.g_launched, job)",
                  "nout(self) <= old(nout(self)) + 1 and nout(self) >= old(nout(self))",
                  "forall(x, Name, implies(x != job.name, (x in self._outstanding_jobs) == (x in old(self._outstanding_jobs)) "
                  "and self._outstanding_jobs[x] == old(self._outstanding_jobs)[x]))"],
         modifies=["self._num_jobs", "self._outstanding_jobs", "self._queued_jobs", "AsyncJob.g_launched", "AsyncJob.g_done", "AsyncJob.return_code", "ghost.runs"])
