"""Contracts for jade/jobs/job_queue.py and the AsyncJobInterface it drives (C02, C04, C06)."""
from pyvc.spec import record, contract, define, ghost

F = "jade/jobs/job_queue.py"

# Abstract view of an asynchronous job (AsyncCliCommand on a node, AsyncHpcSubmitter in a
# submitter).  `name`, `return_code`, `cancel_on_blocking_job_failure` are properties of the real
# classes; `blocking` is the set returned by get_blocking_jobs(); g_* are ghost counters/flags
# maintained only by the interface contracts below.
record("AsyncJob", file="jade/jobs/async_job_interface.py", cls="AsyncJobInterface", check_attrs=False, fields={
    "name": "Name",
    "return_code": "Opt[int]",
    "cancel_on_blocking_job_failure": "bool",
    "blocking": "Set[Name]",
    "job_id": "Opt[Name]",     # scheduler id of a batch (AsyncHpcSubmitter.job_id); unused by node-level jobs
    "g_is_batch": "bool",      # ghost: the job is a batch handed to the scheduler (AsyncHpcSubmitter)
    "g_launched": "int",       # how many times run() started the job's process / sbatch
    "g_canceled": "bool",
    "g_done": "bool",          # is_complete() has returned True
}, extra_attrs={"blocking", "job_id", "g_is_batch", "g_launched", "g_canceled", "g_done"})

record("JobQueue", file=F, fields={
    "_queue_depth": "int",
    "_poll_interval": "int",
    "_outstanding_jobs": "Dict[Name,Ref[AsyncJob]]",
    "_queued_jobs": "List[Ref[AsyncJob]]",
    "_num_jobs": "int",
    "_num_completed": "int",
    "_monitor_func": "Opt[Opaque]",
    "_last_monitor_time": "Opt[real]",
    "_monitor_interval": "Opt[int]",
})

# total number of AsyncJobInterface.run() calls (process starts on a node, sbatch hand-offs in a submitter)
ghost("runs", "int")

# ---- interface contracts (assumed when verifying JobQueue; each implementation is verified
# ---- against them in contracts/async_cli.py and contracts/hpc_submitter.py) ---------------------
contract("AsyncJob.is_complete", kind="assumed",
         params=[("self", "Ref[AsyncJob]")], returns="bool",
         ensures=["result == self.g_done", "implies(old(self.g_done), self.g_done)",
                  "implies(result, not isnone(self.return_code))",
                  "self.g_launched == old(self.g_launched) and self.g_canceled == old(self.g_canceled)",
                  # only a node-level job writes a result row when it completes; a batch handle never does
                  "implies(self.g_is_batch, ghost.collected == old(ghost.collected) and ghost.collected_failed == old(ghost.collected_failed))"],
         raises={"ExecutionError": {"ensures": ["self.g_done == old(self.g_done)", "ghost.collected == old(ghost.collected) and ghost.collected_failed == old(ghost.collected_failed)"]}},
         modifies=["self.g_done", "self.return_code", "ghost.collected", "ghost.collected_failed"],
         note="AsyncJobInterface.is_complete: completion is sticky; a complete job has a return code")
contract("AsyncJob.run", kind="assumed",
         params=[("self", "Ref[AsyncJob]")], returns="Enum[Status]",
         ensures=["self.g_launched == old(self.g_launched) + 1", "ghost.runs == old(ghost.runs) + 1",
                  "implies(result == Status.GOOD and self.g_is_batch, not isnone(self.job_id))"],
         modifies=["self.g_launched", "self.g_done", "self.return_code", "self.job_id", "ghost.runs"],
         note="AsyncJobInterface.run: starts the job's process (or sbatch) exactly once per call")
contract("AsyncJob.cancel", kind="assumed",
         params=[("self", "Ref[AsyncJob]")],
         ensures=["self.g_canceled and self.g_done", "self.return_code == 1", "self.g_launched == old(self.g_launched)"],
         modifies=["self.g_canceled", "self.g_done", "self.return_code"],
         note="AsyncJobInterface.cancel: records a canceled result, never starts the process")
contract("AsyncJob.get_blocking_jobs", kind="assumed", pure=True,
         params=[("self", "Ref[AsyncJob]")], returns="Set[Name]", ensures=["result == self.blocking"])
contract("AsyncJob.remove_blocking_job", kind="assumed",
         params=[("self", "Ref[AsyncJob]"), ("name", "Name")],
         requires=["name in self.blocking"],
         ensures=["forall(x, Name, (x in self.blocking) == (x in old(self.blocking) and x != name))"],
         modifies=["self.blocking"], note="set.remove on the job's blocked_by (KeyError if absent: precondition)")
contract("AsyncJob.set_blocking_jobs", kind="assumed",
         params=[("self", "Ref[AsyncJob]"), ("jobs", "Set[Name]")],
         ensures=["self.blocking == jobs"], modifies=["self.blocking"])
contract("AsyncJob.get_id", kind="assumed", pure=True, params=[("self", "Ref[AsyncJob]")], returns="Opaque")

contract("JobQueue.is_full", file=F, inline=True, params=[("self", "Ref[JobQueue]")], returns="bool")
contract("JobQueue.outstanding_jobs", file=F, inline=True, params=[("self", "Ref[JobQueue]")], returns="List[Ref[AsyncJob]]")

define("nout", ["q"], "card(keys(q._outstanding_jobs))")
# capacity invariant (C06)
define("Inv_cap", ["q"], "nout(q) <= q._queue_depth")
define("BATCH_ONLY", ["q"], "len(q._queued_jobs) == 0 and forall(x, q._outstanding_jobs, q._outstanding_jobs[x].g_is_batch)")
# every outstanding entry of a submitter's queue is an allocated batch with a scheduler id
define("Inv_ids", ["q"], "forall(x, q._outstanding_jobs, allocated(q._outstanding_jobs[x]) and q._outstanding_jobs[x].g_is_batch and not isnone(q._outstanding_jobs[x].job_id))")

# ---- JobQueue operations -------------------------------------------------------------------------
contract("JobQueue._run_job", file=F,
         params=[("self", "Ref[JobQueue]"), ("job", "Ref[AsyncJob]")],
         requires=["nout(self) < self._queue_depth",          # C06: only called with a free slot
                   "empty(job.blocking)",                      # C02: never called for a job that still has blockers
                   "forall(x, self._outstanding_jobs, self._outstanding_jobs[x] != job)"],   # C01: a job object is started at most once
         ensures=["job.g_launched == old(job.g_launched) + 1", "ghost.runs == old(ghost.runs) + 1",
                  "unchanged(AsyncJob.g_launched, job)",
                  "Inv_cap(self)",
                  "forall(x, Name, implies(x != job.name, (x in self._outstanding_jobs) == (x in old(self._outstanding_jobs)) "
                  "and self._outstanding_jobs[x] == old(self._outstanding_jobs)[x]))",
                  "implies(job.name in self._outstanding_jobs, self._outstanding_jobs[job.name] == job or job.name in old(self._outstanding_jobs))",
                  "nout(self) <= old(nout(self)) + 1 and nout(self) >= old(nout(self))",
                  "self._queued_jobs == old(self._queued_jobs)",
                  "unchanged(AsyncJob.job_id, job) and unchanged(AsyncJob.g_is_batch)",
                  "implies(job.g_is_batch and allocated(job) and old(Inv_ids(self)), Inv_ids(self))"],
         modifies=["self._num_jobs", "self._outstanding_jobs", "AsyncJob.g_launched", "AsyncJob.g_done", "AsyncJob.return_code", "AsyncJob.job_id", "ghost.runs"])

contract("JobQueue.submit", file=F,
         params=[("self", "Ref[JobQueue]"), ("job", "Ref[AsyncJob]")],
         requires=["Inv_cap(self)", "forall(x, self._outstanding_jobs, self._outstanding_jobs[x] != job)"],
         ensures=["Inv_cap(self)",
                  "self._queue_depth == old(self._queue_depth)",
                  # started at once iff there is a free slot and nothing blocks it; otherwise queued, not started
                  "implies(old(nout(self)) < self._queue_depth and empty(job.blocking), job.g_launched == old(job.g_launched) + 1 "
                  "and ghost.runs == old(ghost.runs) + 1 and self._queued_jobs == old(self._queued_jobs))",
                  "implies(not (old(nout(self)) < self._queue_depth and empty(job.blocking)), job.g_launched == old(job.g_launched) "
                  "and ghost.runs == old(ghost.runs) "
                  "and len(self._queued_jobs) == old(len(self._queued_jobs)) + 1 and self._queued_jobs[old(len(self._queued_jobs))] == job "
                  "and self._outstanding_jobs == old(self._outstanding_jobs))",
                  "unchanged(AsyncJob.g_launched, job)",
                  "nout(self) <= old(nout(self)) + 1 and nout(self) >= old(nout(self))",
                  "forall(x, Name, implies(x != job.name, (x in self._outstanding_jobs) == (x in old(self._outstanding_jobs)) "
                  "and self._outstanding_jobs[x] == old(self._outstanding_jobs)[x]))",
                  "unchanged(AsyncJob.job_id, job) and unchanged(AsyncJob.g_is_batch)",
                  "implies(job.g_is_batch and allocated(job) and old(Inv_ids(self)), Inv_ids(self))"],
         modifies=["self._num_jobs", "self._outstanding_jobs", "self._queued_jobs", "AsyncJob.g_launched", "AsyncJob.g_done", "AsyncJob.return_code",
                   "AsyncJob.job_id", "ghost.runs"])

contract("JobQueue.__init__", file=F, qualname="JobQueue.__init__",
         params=[("self", "Ref[JobQueue]"), ("max_queue_depth", "int"), ("existing_jobs", "Opt[List[Ref[AsyncJob]]]", "None"),
                 ("poll_interval", "int", "10"), ("monitor_func", "Opt[Opaque]", "None"), ("monitor_interval", "Opt[int]", "10")],
         returns="Ref[JobQueue]",
         ensures=["self._queue_depth == max_queue_depth", "len(self._queued_jobs) == 0", "self._num_jobs == 0 and self._num_completed == 0",
                  "implies(isnone(existing_jobs), empty(self._outstanding_jobs))",
                  "implies(not isnone(existing_jobs), forall(i, range(len(val(existing_jobs))), val(existing_jobs)[i].name in self._outstanding_jobs) "
                  "and forall(x, self._outstanding_jobs, exists(i, range(len(val(existing_jobs))), val(existing_jobs)[i].name == x "
                  "and self._outstanding_jobs[x] == val(existing_jobs)[i])) and nout(self) <= len(val(existing_jobs)))",
                  "self._monitor_func == monitor_func"],
         loops={1: {"invariant": [
             "forall(i, range(_k1), _it1[i].name in self._outstanding_jobs)",
             "forall(x, self._outstanding_jobs, exists(i, range(_k1), _it1[i].name == x and self._outstanding_jobs[x] == _it1[i]))",
             "nout(self) <= _k1",
             "self._queue_depth == max_queue_depth and len(self._queued_jobs) == 0 and self._num_jobs == 0 and self._num_completed == 0 "
             "and self._monitor_func == monitor_func",
         ]}},
         modifies=["self._queue_depth", "self._poll_interval", "self._outstanding_jobs", "self._queued_jobs", "self._num_jobs",
                   "self._num_completed", "self._monitor_func", "self._last_monitor_time", "self._monitor_interval"])

contract("JobQueue.process_queue", file=F,
         params=[("self", "Ref[JobQueue]")],
         requires=["Inv_cap(self) or len(self._queued_jobs) == 0"],
         ensures=[
             "self._queue_depth == old(self._queue_depth)",
             "implies(old(Inv_cap(self)), Inv_cap(self))",
             # a submitter's queue never holds queued jobs: then nothing is started, entries only leave, and only when complete (C06/C18)
             "implies(old(len(self._queued_jobs)) == 0, len(self._queued_jobs) == 0 and ghost.runs == old(ghost.runs))",
             "implies(old(len(self._queued_jobs)) == 0, forall(x, self._outstanding_jobs, x in old(self._outstanding_jobs) "
             "and self._outstanding_jobs[x] == old(self._outstanding_jobs)[x]))",
             "implies(old(len(self._queued_jobs)) == 0, forall(x, old(self._outstanding_jobs), x in self._outstanding_jobs or old(self._outstanding_jobs)[x].g_done))",
             "implies(old(len(self._queued_jobs)) == 0, nout(self) <= old(nout(self)))",
             "implies(old(BATCH_ONLY(self)), ghost.collected == old(ghost.collected) and ghost.collected_failed == old(ghost.collected_failed))",
         ],
         raises={"ExecutionError": {"ensures": ["self._outstanding_jobs == old(self._outstanding_jobs) and self._queued_jobs == old(self._queued_jobs)",
                                                "ghost.runs == old(ghost.runs)",
                                                "implies(old(BATCH_ONLY(self)), ghost.collected == old(ghost.collected) and ghost.collected_failed == old(ghost.collected_failed))"],
                                    "frame": False},
                 # any other failure while polling (C11): with an empty queue nothing is ever started
                 "AnyException": {"ensures": ["implies(old(len(self._queued_jobs)) == 0, ghost.runs == old(ghost.runs))"], "frame": False}},
         modifies=["self._outstanding_jobs", "self._queued_jobs", "self._num_jobs", "self._num_completed", "self._last_monitor_time", "ghost.runs",
                   "AsyncJob.g_done", "AsyncJob.return_code", "AsyncJob.g_launched", "AsyncJob.g_canceled", "AsyncJob.blocking",
                   "HpcStatusCollector._statuses", "HpcStatusCollector._last_poll_time", "ghost.last_status", "ghost.collected", "ghost.collected_failed"])
