"""Contracts for jade/jobs/job_queue.py and the AsyncJobInterface it drives (C02, C04, C06)."""
from pyvc.spec import record, contract, define, ghost, CONTRACTS as _C

F = "jade/jobs/job_queue.py"

# Abstract view of an asynchronous job (AsyncCliCommand on a node, AsyncHpcSubmitter in a
# submitter).  `name`, `return_code`, `cancel_on_blocking_job_failure` are properties of the real
# classes; `blocking` is the set returned by get_blocking_jobs(); g_* are ghost counters/flags
# maintained only by the interface contracts below.
record("AsyncJob", file="jade/jobs/async_job_interface.py", cls="AsyncJobInterface", check_attrs=False, fields={
    "name": "Name",
    "return_code": "Opt[int]",
    "cancel_on_blocking_job_failure": "bool",
    "blocking": "Set[Name]",
    "job_id": "Opt[Name]",     # scheduler id of a batch (AsyncHpcSubmitter.job_id); unused by node-level jobs
    "g_is_batch": "bool",      # ghost: the job is a batch handed to the scheduler (AsyncHpcSubmitter)
    "g_launched": "int",       # how many times run() started the job's process / sbatch
    "g_canceled": "bool",
    "g_done": "bool",          # is_complete() has returned True
}, extra_attrs={"blocking", "job_id", "g_is_batch", "g_launched", "g_canceled", "g_done"})

record("JobQueue", file=F, fields={
    "_queue_depth": "int",
    "_poll_interval": "int",
    "_outstanding_jobs": "Dict[Name,Ref[AsyncJob]]",
    "_queued_jobs": "List[Ref[AsyncJob]]",
    "_num_jobs": "int",
    "_num_completed": "int",
    "_monitor_func": "Opt[Opaque]",
    "_last_monitor_time": "Opt[real]",
    "_monitor_interval": "Opt[int]",
})

# total number of AsyncJobInterface.run() calls (process starts on a node, sbatch hand-offs in a submitter)
ghost("runs", "int")

# ---- interface contracts (assumed when verifying JobQueue; each implementation is verified
# ---- against them in contracts/async_cli.py and contracts/hpc_submitter.py) ---------------------
contract("AsyncJob.is_complete", kind="assumed",
         params=[("self", "Ref[AsyncJob]")], returns="bool",
         # a node-level job must not be polled again once it was seen complete (AsyncCliCommand asserts on it); canceled jobs and batches may be
         requires=["not self.g_done or self.g_canceled or self.g_is_batch",
                   # only a job that was started or canceled is polled (AsyncCliCommand.is_complete dereferences the process handle)
                   "self.g_launched >= 1 or self.g_canceled or self.g_is_batch"],
         ensures=["result == self.g_done", "implies(old(self.g_done), self.g_done)",
                  "implies(result, not isnone(self.return_code))",
                  "self.g_launched == old(self.g_launched) and self.g_canceled == old(self.g_canceled)",
                  # only a node-level job writes a result row when it completes; a batch handle never does
                  "implies(self.g_is_batch, ghost.collected == old(ghost.collected) and ghost.collected_failed == old(ghost.collected_failed))"],
         raises={"ExecutionError": {"ensures": ["self.g_done == old(self.g_done)", "ghost.collected == old(ghost.collected) and ghost.collected_failed == old(ghost.collected_failed)"]}},
         modifies=["self.g_done", "self.return_code", "ghost.collected", "ghost.collected_failed"],
         note="AsyncJobInterface.is_complete: completion is sticky; a complete job has a return code")
contract("AsyncJob.run", kind="assumed",
         params=[("self", "Ref[AsyncJob]")], returns="Enum[Status]",
         # a node-level job object is started at most once and never after it was canceled (AsyncCliCommand.run asserts the former)
         requires=["self.g_is_batch or (self.g_launched == 0 and not self.g_canceled)"],
         ensures=["self.g_launched == old(self.g_launched) + 1", "ghost.runs == old(ghost.runs) + 1",
                  "implies(result == Status.GOOD and self.g_is_batch, not isnone(self.job_id))",
                  "implies(result == Status.GOOD, not self.g_done or self.g_is_batch)"],
         modifies=["self.g_launched", "self.g_done", "self.return_code", "self.job_id", "ghost.runs"],
         note="AsyncJobInterface.run: starts the job's process (or sbatch) exactly once per call")
contract("AsyncJob.cancel", kind="assumed",
         params=[("self", "Ref[AsyncJob]")],
         ensures=["self.g_canceled and self.g_done", "self.return_code == 1", "self.g_launched == old(self.g_launched)",
                  "subset(old(ghost.collected), ghost.collected) and subset(old(ghost.collected_failed), ghost.collected_failed)"],
         modifies=["self.g_canceled", "self.g_done", "self.return_code", "ghost.collected", "ghost.collected_failed"],
         note="AsyncJobInterface.cancel: records a canceled result, never starts the process")
contract("AsyncJob.get_blocking_jobs", kind="assumed", pure=True,
         params=[("self", "Ref[AsyncJob]")], returns="Set[Name]", ensures=["result == self.blocking"])
contract("AsyncJob.remove_blocking_job", kind="assumed",
         params=[("self", "Ref[AsyncJob]"), ("name", "Name")],
         requires=["name in self.blocking"],
         ensures=["forall(x, Name, (x in self.blocking) == (x in old(self.blocking) and x != name))"],
         modifies=["self.blocking"], note="set.remove on the job's blocked_by (KeyError if absent: precondition)")
contract("AsyncJob.set_blocking_jobs", kind="assumed",
         params=[("self", "Ref[AsyncJob]"), ("jobs", "Set[Name]")],
         ensures=["self.blocking == jobs"], modifies=["self.blocking"])
contract("AsyncJob.get_id", kind="assumed", pure=True, params=[("self", "Ref[AsyncJob]")], returns="Opaque")

contract("JobQueue.is_full", file=F, inline=True, params=[("self", "Ref[JobQueue]")], returns="bool")
contract("JobQueue.outstanding_jobs", file=F, inline=True, params=[("self", "Ref[JobQueue]")], returns="List[Ref[AsyncJob]]")

define("nout", ["q"], "card(keys(q._outstanding_jobs))")
define("COUNT", ["q"], "q._num_jobs - q._num_completed - nout(q)")
# capacity invariant (C06)
define("Inv_cap", ["q"], "nout(q) <= q._queue_depth")
# no outstanding node-level job has already been seen complete (it would be popped); canceled jobs and batches may be polled again
define("OUT_OK", ["q"], "forall(x, q._outstanding_jobs, not q._outstanding_jobs[x].g_done or q._outstanding_jobs[x].g_canceled or q._outstanding_jobs[x].g_is_batch) "
                        "and LAUNCHED_OK(q)")
# every outstanding entry was started (or canceled): only such jobs may be polled
define("LAUNCHED_OK", ["q"], "forall(x, q._outstanding_jobs, q._outstanding_jobs[x].g_launched >= 1 or q._outstanding_jobs[x].g_canceled or q._outstanding_jobs[x].g_is_batch)")
RUNNABLE = "job.g_is_batch or (job.g_launched == 0 and not job.g_canceled)"
define("BATCH_ONLY", ["q"], "len(q._queued_jobs) == 0 and forall(x, q._outstanding_jobs, q._outstanding_jobs[x].g_is_batch)")
# every outstanding entry of a submitter's queue is an allocated batch with a scheduler id
define("Inv_ids", ["q"], "forall(x, q._outstanding_jobs, allocated(q._outstanding_jobs[x]) and q._outstanding_jobs[x].g_is_batch and not isnone(q._outstanding_jobs[x].job_id))")

# ---- JobQueue operations -------------------------------------------------------------------------
contract("JobQueue._run_job", file=F,
         params=[("self", "Ref[JobQueue]"), ("job", "Ref[AsyncJob]")],
         requires=["nout(self) < self._queue_depth",          # C06: only called with a free slot
                   "empty(job.blocking)",                      # C02: never called for a job that still has blockers
                   "forall(x, self._outstanding_jobs, self._outstanding_jobs[x] != job)",    # C01: a job object is started at most once
                   "job.name not in self._outstanding_jobs",                                  # A-names: queue names are unique
                   RUNNABLE],                                  # C02/C04: never started before, not canceled
         ensures=["job.g_launched == old(job.g_launched) + 1", "ghost.runs == old(ghost.runs) + 1", "COUNT(self) == old(COUNT(self))",
                  "unchanged(AsyncJob.g_canceled) and unchanged(AsyncJob.blocking) and unchanged(AsyncJob.name)",
                  "unchanged(AsyncJob.g_launched, job)",
                  "Inv_cap(self)",
                  "forall(x, Name, implies(x != job.name, (x in self._outstanding_jobs) == (x in old(self._outstanding_jobs)) "
                  "and self._outstanding_jobs[x] == old(self._outstanding_jobs)[x]))",
                  "implies(job.name in self._outstanding_jobs, self._outstanding_jobs[job.name] == job or job.name in old(self._outstanding_jobs))",
                  "nout(self) <= old(nout(self)) + 1 and nout(self) >= old(nout(self))",
                  "self._queued_jobs == old(self._queued_jobs)",
                  "unchanged(AsyncJob.job_id, job) and unchanged(AsyncJob.g_is_batch)",
                  "implies(old(OUT_OK(self)), OUT_OK(self))",
                  "implies(job.g_is_batch and allocated(job) and old(Inv_ids(self)), Inv_ids(self))"],
         modifies=["self._num_jobs", "self._outstanding_jobs", "AsyncJob.g_launched", "AsyncJob.g_done", "AsyncJob.return_code", "AsyncJob.job_id", "ghost.runs"])

contract("JobQueue.submit", file=F,
         params=[("self", "Ref[JobQueue]"), ("job", "Ref[AsyncJob]")],
         requires=["Inv_cap(self)", "forall(x, self._outstanding_jobs, self._outstanding_jobs[x] != job)", "job.name not in self._outstanding_jobs", RUNNABLE],
         ensures=["Inv_cap(self)", "COUNT(self) == old(COUNT(self))",
                  "self._queue_depth == old(self._queue_depth)",
                  # started at once iff there is a free slot and nothing blocks it; otherwise queued, not started
                  "implies(old(nout(self)) < self._queue_depth and empty(job.blocking), job.g_launched == old(job.g_launched) + 1 "
                  "and ghost.runs == old(ghost.runs) + 1 and self._queued_jobs == old(self._queued_jobs))",
                  "implies(not (old(nout(self)) < self._queue_depth and empty(job.blocking)), job.g_launched == old(job.g_launched) "
                  "and ghost.runs == old(ghost.runs) "
                  "and len(self._queued_jobs) == old(len(self._queued_jobs)) + 1 and self._queued_jobs[old(len(self._queued_jobs))] == job "
                  "and self._outstanding_jobs == old(self._outstanding_jobs))",
                  "unchanged(AsyncJob.g_launched, job)",
                  "nout(self) <= old(nout(self)) + 1 and nout(self) >= old(nout(self))",
                  "forall(x, Name, implies(x != job.name, (x in self._outstanding_jobs) == (x in old(self._outstanding_jobs)) "
                  "and self._outstanding_jobs[x] == old(self._outstanding_jobs)[x]))",
                  "unchanged(AsyncJob.job_id, job) and unchanged(AsyncJob.g_is_batch)",
                  "implies(job.g_is_batch and allocated(job) and old(Inv_ids(self)), Inv_ids(self))",
                  # the queue stays well-formed when a new (never started, not canceled, uniquely named) job is handed in
                  "implies(old(Inv_q(self)) and not old(job.g_canceled) and old(job.g_launched) == 0 "
                  "and forall(i, range(len(old(self._queued_jobs))), old(self._queued_jobs)[i].name != job.name and old(self._queued_jobs)[i] != job), Inv_q(self))",
                  "unchanged(AsyncJob.g_canceled) and unchanged(AsyncJob.name) and unchanged(AsyncJob.blocking)",
                  "implies(old(OUT_OK(self)), OUT_OK(self))",
                  "implies(job.name in self._outstanding_jobs, self._outstanding_jobs[job.name] == job or job.name in old(self._outstanding_jobs))",
                  "forall(i, range(old(len(self._queued_jobs))), self._queued_jobs[i] == old(self._queued_jobs)[i])",
                  "len(self._queued_jobs) >= old(len(self._queued_jobs)) and len(self._queued_jobs) <= old(len(self._queued_jobs)) + 1"],
         modifies=["self._num_jobs", "self._outstanding_jobs", "self._queued_jobs", "AsyncJob.g_launched", "AsyncJob.g_done", "AsyncJob.return_code",
                   "AsyncJob.job_id", "ghost.runs"])

contract("JobQueue.__init__", file=F, qualname="JobQueue.__init__",
         params=[("self", "Ref[JobQueue]"), ("max_queue_depth", "int"), ("existing_jobs", "Opt[List[Ref[AsyncJob]]]", "None"),
                 ("poll_interval", "int", "10"), ("monitor_func", "Opt[Opaque]", "None"), ("monitor_interval", "Opt[int]", "10")],
         returns="Ref[JobQueue]",
         ensures=["self._queue_depth == max_queue_depth", "len(self._queued_jobs) == 0", "self._num_jobs == 0 and self._num_completed == 0",
                  "implies(isnone(existing_jobs), empty(self._outstanding_jobs))",
                  "implies(not isnone(existing_jobs), forall(i, range(len(val(existing_jobs))), val(existing_jobs)[i].name in self._outstanding_jobs) "
                  "and forall(x, self._outstanding_jobs, exists(i, range(len(val(existing_jobs))), val(existing_jobs)[i].name == x "
                  "and self._outstanding_jobs[x] == val(existing_jobs)[i])) and nout(self) <= len(val(existing_jobs)))",
                  "self._monitor_func == monitor_func"],
         loops={1: {"invariant": [
             "forall(i, range(_k1), _it1[i].name in self._outstanding_jobs)",
             "forall(x, self._outstanding_jobs, exists(i, range(_k1), _it1[i].name == x and self._outstanding_jobs[x] == _it1[i]))",
             "nout(self) <= _k1",
             "self._queue_depth == max_queue_depth and len(self._queued_jobs) == 0 and self._num_jobs == 0 and self._num_completed == 0 "
             "and self._monitor_func == monitor_func",
         ]}},
         modifies=["self._queue_depth", "self._poll_interval", "self._outstanding_jobs", "self._queued_jobs", "self._num_jobs",
                   "self._num_completed", "self._monitor_func", "self._last_monitor_time", "self._monitor_interval"])

contract("JobQueue._handle_monitor_func", kind="assumed",
         params=[("self", "Ref[JobQueue]"), ("force", "bool", "False")], modifies=["self._last_monitor_time"],
         note="calls the resource monitor callback with the outstanding jobs' ids; no effect on the queue")

# ---- completion handling on a node (C02, C04, C06) ------------------------------------------------------------
# Queue well-formedness: keys are the jobs' names, queued jobs are neither canceled nor started, names are unique (A-names)
define("OUT", ["q"], "q._outstanding_jobs")
define("QD", ["q"], "q._queued_jobs")
define("Inv_q", ["q"], """(
    forall(x, OUT(q), OUT(q)[x].name == x and (not OUT(q)[x].g_done or OUT(q)[x].g_canceled or OUT(q)[x].g_is_batch))
    and LAUNCHED_OK(q)
    and forall(i, range(len(QD(q))), not QD(q)[i].g_canceled and QD(q)[i].g_launched == 0 and QD(q)[i].name not in OUT(q))
    and forall(i, range(len(QD(q))), forall(j, range(i), QD(q)[i].name != QD(q)[j].name and QD(q)[i] != QD(q)[j])))""")
# COUNT (defined above): started-but-not-completed bookkeeping, zero for a queue that started all its jobs itself (JobQueue.wait's assert)

CC_DEFS = {
    "Q0": ([], "old(self._queued_jobs)"),
    "O0": ([], "old(self._outstanding_jobs)"),
    "BOUND": ([], "(len(loop_old(QD(self))) if _k5 == 0 else canceled_indices[len(canceled_indices) - _k5])"),
}
CC_COMMON = [
    "ghost.runs == old(ghost.runs) and unchanged(AsyncJob.g_launched) and unchanged(AsyncJob.name) and unchanged(AsyncJob.cancel_on_blocking_job_failure)",
    "unchanged(AsyncJob.g_is_batch)",
    "implies(old(BATCH_ONLY(self)), ghost.collected == old(ghost.collected) and ghost.collected_failed == old(ghost.collected_failed) and len(QD(self)) == 0 and forall(x, OUT(self), OUT(self)[x].g_is_batch))",
    "self._queue_depth == old(self._queue_depth)",
    "forall(x, OUT(self), OUT(self)[x].name == x)",
    "LAUNCHED_OK(self)",
]
# clauses about `outstanding`: an entry is an original one, or a job canceled here (complete, waiting to be popped by the next pass)
A_ = "(x in O0() and OUT(self)[x] == O0()[x])"
B_ = "(OUT(self)[x].g_canceled and OUT(self)[x].g_done)"
QUEUED_OK = [   # facts about the current queue that hold between the inner loops
    "forall(i, range(len(QD(self))), forall(j, range(i), QD(self)[i].name != QD(self)[j].name and QD(self)[i] != QD(self)[j]))",
    "len(QD(self)) <= len(Q0())",
    "forall(i, range(len(QD(self))), exists(p, range(len(Q0())), Q0()[p] == QD(self)[i]))",
    "forall(p, range(len(Q0())), exists(i, range(len(QD(self))), QD(self)[i] == Q0()[p]) "
    "or (Q0()[p].g_canceled and Q0()[p].cancel_on_blocking_job_failure and empty(Q0()[p].blocking)))",
    "forall(j, QD(self), subset(j.blocking, old(j.blocking)))",
    "forall(r, AsyncJob, implies(old(r.g_canceled), r.g_canceled)) and forall(r, AsyncJob, implies(old(r.g_done), r.g_done))",
]
NOT_CANCELED = "forall(i, range(len(QD(self))), not QD(self)[i].g_canceled and QD(self)[i].name not in OUT(self))"
LISTED = "exists(t, range(len(completed_jobs)), completed_jobs[t] == x)"
contract("JobQueue._check_completions", file=F,
         params=[("self", "Ref[JobQueue]")],
         locals={"failed_jobs": "Set[Name]", "completed_jobs": "List[Name]", "canceled_indices": "List[int]"},
         defs=CC_DEFS,
         requires=["Inv_q(self)"],
         ensures=CC_COMMON + [
             "Inv_q(self)", "COUNT(self) == old(COUNT(self))",
             # C04/C06: nothing is started here; entries only leave `outstanding`; a queued job leaves only by being canceled
             f"forall(x, OUT(self), {A_})",
             "card_subset_hint(keys(OUT(self)), keys(O0()))",
             "nout(self) <= old(nout(self))",
         ] + QUEUED_OK[1:5],
         raises={"ExecutionError": {"ensures": ["ghost.runs == old(ghost.runs)",
                                                "implies(old(BATCH_ONLY(self)), ghost.collected == old(ghost.collected) and ghost.collected_failed == old(ghost.collected_failed))"],
                                    "frame": False}},
         loops={
             1: {"invariant": CC_COMMON + QUEUED_OK + [
                 NOT_CANCELED,
                 "COUNT(self) == old(COUNT(self))",
                 f"forall(x, OUT(self), {A_} or {B_})",
                 f"need_to_rerun or forall(x, OUT(self), {A_})",
                 "forall(x, OUT(self), (not OUT(self)[x].g_done or OUT(self)[x].g_canceled or OUT(self)[x].g_is_batch))",
             ]},
             2: {"invariant": CC_COMMON + [
                 "forall(t, range(len(completed_jobs)), completed_jobs[t] in _seen2 and completed_jobs[t] in OUT(self))",
                 "forall(t, range(len(completed_jobs)), forall(u, range(t), completed_jobs[t] != completed_jobs[u]))",
                 f"forall(x, _seen2, OUT(self)[x].g_done == {LISTED})",
                 "forall(x, OUT(self), implies(x not in _seen2, OUT(self)[x].g_done == loop_old(OUT(self)[x].g_done)))",
                 "subset(_seen2, keys(OUT(self)))",
                 "forall(r, AsyncJob, implies(old(r.g_done), r.g_done)) and forall(r, AsyncJob, implies(loop_old(r.g_done), r.g_done))",
                 # C04: "failed" means a non-zero return code - every job seen complete with one is in the failed set (signals give negative codes),
                 # and the set only grows
                 "forall(x, _seen2, implies(OUT(self)[x].g_done and val(OUT(self)[x].return_code) != 0, x in failed_jobs))",
                 "subset(loop_old(failed_jobs), failed_jobs)",
                 # ... and nothing else enters it: a name added in this pass belongs to a job seen complete with a non-zero code
                 "forall(n, failed_jobs, n in loop_old(failed_jobs) or (n in _seen2 and OUT(self)[n].g_done and val(OUT(self)[n].return_code) != 0))",
             ]},
             3: {"invariant": CC_COMMON + QUEUED_OK + [
                 NOT_CANCELED,
                 "forall(t, range(_k3, len(completed_jobs)), completed_jobs[t] in OUT(self))",
                 "forall(t, range(len(completed_jobs)), forall(u, range(t), completed_jobs[t] != completed_jobs[u]))",
                 "COUNT(self) == old(COUNT(self)) - (len(completed_jobs) - _k3)",
                 f"forall(x, OUT(self), {A_} or ({B_} and (need_to_rerun or exists(t, range(_k3, len(completed_jobs)), completed_jobs[t] == x))))",
                 "forall(x, OUT(self), (not OUT(self)[x].g_done or OUT(self)[x].g_canceled or OUT(self)[x].g_is_batch) or exists(t, range(_k3, len(completed_jobs)), completed_jobs[t] == x))",
             ]},
             4: {"invariant": CC_COMMON + QUEUED_OK + [
                 # canceled_indices: strictly increasing positions below the cursor, exactly the canceled queue entries
                 "forall(t, range(len(canceled_indices)), 0 <= canceled_indices[t] and canceled_indices[t] < _k4 "
                 "and canceled_indices[t] <= _k4 - (len(canceled_indices) - t))",
                 "forall(t, range(len(canceled_indices)), forall(u, range(t), canceled_indices[u] < canceled_indices[t]))",
                 "forall(p, range(len(QD(self))), QD(self)[p].g_canceled == exists(t, range(len(canceled_indices)), canceled_indices[t] == p))",
                 "forall(p, range(len(QD(self))), implies(QD(self)[p].g_canceled, QD(self)[p].cancel_on_blocking_job_failure and empty(QD(self)[p].blocking) "
                 "and QD(self)[p].g_done and QD(self)[p].name in OUT(self) and OUT(self)[QD(self)[p].name] == QD(self)[p]))",
                 "forall(p, range(len(QD(self))), implies(not QD(self)[p].g_canceled, QD(self)[p].name not in OUT(self)))",
                 "forall(t, range(_k3 + 1, len(completed_jobs)), completed_jobs[t] in OUT(self))",
                 "COUNT(self) == old(COUNT(self)) - (len(completed_jobs) - _k3 - 1)",
                 f"forall(x, OUT(self), {A_} or ({B_} and (need_to_rerun or exists(t, range(_k3 + 1, len(completed_jobs)), completed_jobs[t] == x))))",
                 "len(canceled_indices) == 0 or need_to_rerun",
                 "forall(x, OUT(self), (not OUT(self)[x].g_done or OUT(self)[x].g_canceled or OUT(self)[x].g_is_batch) or exists(t, range(_k3 + 1, len(completed_jobs)), completed_jobs[t] == x))",
             ]},
             5: {"invariant": CC_COMMON + [
                 "len(QD(self)) == len(loop_old(QD(self))) - _k5",
                 # below the next index to pop the list is untouched; from there on only jobs that stay (not canceled), each from the old list
                 "forall(p, range(BOUND()), p < len(QD(self)) and QD(self)[p] == loop_old(QD(self))[p])",
                 "forall(p, range(BOUND(), len(QD(self))), not QD(self)[p].g_canceled and exists(q, range(BOUND(), len(loop_old(QD(self)))), loop_old(QD(self))[q] == QD(self)[p]))",
                 "forall(q, range(BOUND(), len(loop_old(QD(self)))), implies(not loop_old(QD(self))[q].g_canceled, "
                 "exists(p, range(BOUND(), len(QD(self))), QD(self)[p] == loop_old(QD(self))[q])))",
                 "BOUND() <= len(QD(self))",
                 "forall(i, range(len(QD(self))), forall(j, range(i), QD(self)[i].name != QD(self)[j].name and QD(self)[i] != QD(self)[j]))",
                 "forall(j, QD(self), subset(j.blocking, old(j.blocking)))",
             ]},
         },
         modifies=["self._outstanding_jobs", "self._queued_jobs", "self._num_jobs", "self._num_completed",
                   "AsyncJob.g_done", "AsyncJob.return_code", "AsyncJob.g_canceled", "AsyncJob.blocking",
                   "ghost.collected", "ghost.collected_failed"])


# ---- process_queue: collect completions, then start queued jobs that are free to run (C02, C06) ---------------------
PQ_DEFS = {
    "Q0": ([], "old(self._queued_jobs)"),
    "O0": ([], "old(self._outstanding_jobs)"),
    "QL": ([], "loop_old(self._queued_jobs)"),
    "started": (["r"], "r.g_launched == old(r.g_launched) + 1"),
    "BOUND": ([], "(len(loop_old(QD(self))) if _k2 == 0 else jobs_to_pop[len(jobs_to_pop) - _k2])"),
}
PQ_COMMON = [
    "self._queue_depth == old(self._queue_depth) and unchanged(AsyncJob.name)",
    "forall(r, AsyncJob, r.g_canceled == loop_old(r.g_canceled) and r.blocking == loop_old(r.blocking))",
    "forall(x, OUT(self), OUT(self)[x].name == x)",
    # C02: whatever was started had no blockers left, and was started exactly once
    "forall(r, AsyncJob, r.g_launched == old(r.g_launched) or (started(r) and empty(r.blocking) and exists(p, range(len(Q0())), Q0()[p] == r)))",
]
contract("JobQueue.process_queue", file=F,
         params=[("self", "Ref[JobQueue]")],
         locals={"jobs_to_pop": "List[int]"},
         defs=PQ_DEFS,
         requires=["Inv_q(self)", "Inv_cap(self)"],
         ensures=[
             "Inv_q(self)", "Inv_cap(self)",                     # C06: never more than depth outstanding
             "self._queue_depth == old(self._queue_depth)", "COUNT(self) == old(COUNT(self))",
             # C02: a job started by this call was queued, had an empty blocker set, and was started exactly once
             "forall(r, AsyncJob, r.g_launched == old(r.g_launched) or (r.g_launched == old(r.g_launched) + 1 and empty(r.blocking) "
             "and exists(p, range(len(Q0())), Q0()[p] == r)))",
             "len(QD(self)) <= len(Q0())",
             "forall(i, range(len(QD(self))), exists(p, range(len(Q0())), Q0()[p] == QD(self)[i]))",
             # a submitter's queue never holds queued jobs: then nothing is started, entries only leave, and only when complete (C06/C18)
             "implies(old(len(self._queued_jobs)) == 0, len(self._queued_jobs) == 0 and ghost.runs == old(ghost.runs))",
             "implies(old(len(self._queued_jobs)) == 0, forall(x, self._outstanding_jobs, x in old(self._outstanding_jobs) "
             "and self._outstanding_jobs[x] == old(self._outstanding_jobs)[x]))",
             "implies(old(len(self._queued_jobs)) == 0, nout(self) <= old(nout(self)))",
             "implies(old(len(self._queued_jobs)) == 0, unchanged(AsyncJob.job_id) and unchanged(AsyncJob.g_launched))",
             "unchanged(AsyncJob.g_is_batch) and unchanged(AsyncJob.name)",
             "implies(old(BATCH_ONLY(self)), ghost.collected == old(ghost.collected) and ghost.collected_failed == old(ghost.collected_failed))",
         ],
         raises={"ExecutionError": {"ensures": ["ghost.runs == old(ghost.runs)",
                                                "implies(old(BATCH_ONLY(self)), ghost.collected == old(ghost.collected) and ghost.collected_failed == old(ghost.collected_failed))"],
                                    "frame": False},
                 "AnyException": {"ensures": ["implies(old(len(self._queued_jobs)) == 0, ghost.runs == old(ghost.runs))"], "frame": False}},
         loops={
             1: {"invariant": PQ_COMMON + [
                 "forall(t, range(len(jobs_to_pop)), 0 <= jobs_to_pop[t] and jobs_to_pop[t] < _k1 and jobs_to_pop[t] <= _k1 - (len(jobs_to_pop) - t))",
                 "forall(t, range(len(jobs_to_pop)), forall(u, range(t), jobs_to_pop[u] < jobs_to_pop[t]))",
                 "len(jobs_to_pop) < available_jobs and available_jobs == self._queue_depth - loop_old(nout(self))",
                 "nout(self) <= loop_old(nout(self)) + len(jobs_to_pop) and nout(self) >= loop_old(nout(self))",
                 "forall(p, range(len(QD(self))), started(QD(self)[p]) == exists(t, range(len(jobs_to_pop)), jobs_to_pop[t] == p))",
                 "forall(p, range(len(QD(self))), implies(not started(QD(self)[p]), QD(self)[p].name not in OUT(self) "
                 "and QD(self)[p].g_launched == old(QD(self)[p].g_launched)))",
                 "forall(x, OUT(self), (x in loop_old(OUT(self)) and OUT(self)[x] == loop_old(OUT(self))[x]) "
                 "or exists(p, range(_k1), QD(self)[p] == OUT(self)[x] and started(QD(self)[p])))",
                 "COUNT(self) == loop_old(COUNT(self))",
                 "ghost.runs == loop_old(ghost.runs) + len(jobs_to_pop)",
                 "OUT_OK(self)",
             ]},
             2: {"invariant": [
                 "len(QD(self)) == len(QL()) - _k2",
                 "forall(p, range(BOUND()), p < len(QD(self)) and QD(self)[p] == QL()[p])",
                 "forall(p, range(BOUND(), len(QD(self))), not started(QD(self)[p]) and exists(q, range(BOUND(), len(QL())), QL()[q] == QD(self)[p]))",
                 "BOUND() <= len(QD(self))",
                 "forall(i, range(len(QD(self))), forall(j, range(i), QD(self)[i].name != QD(self)[j].name and QD(self)[i] != QD(self)[j]))",
             ]},
         },
         modifies=["self._outstanding_jobs", "self._queued_jobs", "self._num_jobs", "self._num_completed", "self._last_monitor_time", "ghost.runs",
                   "AsyncJob.g_done", "AsyncJob.return_code", "AsyncJob.g_launched", "AsyncJob.g_canceled", "AsyncJob.blocking", "AsyncJob.job_id",
                   "HpcStatusCollector._statuses", "HpcStatusCollector._last_poll_time", "ghost.last_status", "ghost.collected", "ghost.collected_failed"])


# ---- synchronous use on a node: run all jobs to completion --------------------------------------------------------
contract("JobQueue.wait", file=F, params=[("self", "Ref[JobQueue]")],
         requires=["Inv_q(self)", "Inv_cap(self)", "COUNT(self) == 0"],
         ensures=["Inv_q(self)", "Inv_cap(self)", "empty(self._outstanding_jobs) and len(self._queued_jobs) == 0",
                  "self._queue_depth == old(self._queue_depth)"],
         raises={"ExecutionError": {"ensures": [], "frame": False}},
         loops={1: {"invariant": ["Inv_q(self)", "Inv_cap(self)", "COUNT(self) == 0", "self._queue_depth == old(self._queue_depth)"]}},
         modifies=["self._outstanding_jobs", "self._queued_jobs", "self._num_jobs", "self._num_completed", "self._last_monitor_time", "ghost.runs",
                   "AsyncJob.g_done", "AsyncJob.return_code", "AsyncJob.g_launched", "AsyncJob.g_canceled", "AsyncJob.blocking", "AsyncJob.job_id",
                   "HpcStatusCollector._statuses", "HpcStatusCollector._last_poll_time", "ghost.last_status", "ghost.collected", "ghost.collected_failed"])

NEWJOBS = ["forall(i, range(len(jobs)), not jobs[i].g_canceled and jobs[i].g_launched == 0 and jobs[i].name not in OUT(self))",
           "forall(i, range(len(jobs)), forall(j, range(i), jobs[i].name != jobs[j].name and jobs[i] != jobs[j]))",
           "forall(i, range(len(jobs)), forall(p, range(len(QD(self))), QD(self)[p].name != jobs[i].name and QD(self)[p] != jobs[i]))"]
contract("JobQueue.run", file=F, params=[("self", "Ref[JobQueue]"), ("jobs", "List[Ref[AsyncJob]]")],
         requires=["Inv_q(self)", "Inv_cap(self)", "COUNT(self) == 0", "len(QD(self)) == 0 and empty(OUT(self))"] + NEWJOBS,
         ensures=["empty(self._outstanding_jobs) and len(self._queued_jobs) == 0", "self._queue_depth == old(self._queue_depth)"],
         raises={"ExecutionError": {"ensures": [], "frame": False}},
         loops={1: {"invariant": [
             "Inv_q(self)", "Inv_cap(self)", "COUNT(self) == 0", "self._queue_depth == old(self._queue_depth)",
             "unchanged(AsyncJob.name) and unchanged(AsyncJob.g_canceled)",
             # jobs not yet handed in are untouched and still unknown to the queue
             "forall(i, range(_k1, len(jobs)), jobs[i].g_launched == 0 and jobs[i].name not in OUT(self) "
             "and forall(p, range(len(QD(self))), QD(self)[p].name != jobs[i].name and QD(self)[p] != jobs[i]))",
             "forall(x, OUT(self), exists(i, range(_k1), jobs[i] == OUT(self)[x]))",
             "forall(p, range(len(QD(self))), exists(i, range(_k1), jobs[i] == QD(self)[p]))",
         ]}},
         modifies=["self._outstanding_jobs", "self._queued_jobs", "self._num_jobs", "self._num_completed", "self._last_monitor_time", "ghost.runs",
                   "AsyncJob.g_done", "AsyncJob.return_code", "AsyncJob.g_launched", "AsyncJob.g_canceled", "AsyncJob.blocking", "AsyncJob.job_id",
                   "HpcStatusCollector._statuses", "HpcStatusCollector._last_poll_time", "ghost.last_status", "ghost.collected", "ghost.collected_failed"])

# ---- classmethod glue (C06): JobQueue.run_jobs builds a queue of exactly the requested depth and runs the jobs through it ----------
# The callers (JobRunner._run_jobs) use the assumed summary contract "JobQueue.run_jobs" (ghost run_jobs_depth); this verified view checks
# the body: the constructor receives max_queue_depth as the depth (not the poll interval, not a default), the preconditions of `run` hold for
# a freshly built queue, and everything is drained on return.
contract("JobQueue.run_jobs_v", file=F, qualname="JobQueue.run_jobs",
         params=[("jobs", "List[Ref[AsyncJob]]"), ("max_queue_depth", "int"), ("poll_interval", "int", "10"), ("monitor_func", "Opt[Opaque]", "None"),
                 ("monitor_interval", "Opt[int]", "10")],
         locals={"queue": "Ref[JobQueue]"},
         requires=["max_queue_depth >= 0",
                   "forall(i, range(len(jobs)), not jobs[i].g_canceled and jobs[i].g_launched == 0)",
                   "forall(i, range(len(jobs)), forall(j, range(i), jobs[i].name != jobs[j].name and jobs[i] != jobs[j]))"],
         exit_ensures=["queue._queue_depth == max_queue_depth", "empty(queue._outstanding_jobs) and len(queue._queued_jobs) == 0"],
         raises={"ExecutionError": {"ensures": [], "frame": False}},
         modifies=[m for m in _C["JobQueue.run"].modifies if not m.startswith("self.")] +
                  ["JobQueue._queue_depth", "JobQueue._poll_interval", "JobQueue._outstanding_jobs", "JobQueue._queued_jobs", "JobQueue._num_jobs",
                   "JobQueue._num_completed", "JobQueue._monitor_func", "JobQueue._last_monitor_time", "JobQueue._monitor_interval"])
