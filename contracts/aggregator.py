"""Contracts for jade/jobs/results_aggregator.py at file level (C08).

File model (T-fs): ghost.fchunks maps the path of every existing results file to the sequence of chunks written to it
(one chunk per write() call, so a row is the pair [text, NL]).  Every function that touches a file requires that file's lock
(ghost.rlocks: the lock files this process holds); the public operations take it through _do_action_under_lock.  The
interleaving argument (any number of appending runners and collecting rounds, at lock-operation granularity) is lemma
L-C08 in props/lemmas.py over exactly these per-action contracts."""
from pyvc.spec import record, contract, define, ghost, opaque_fn, opaque_global, RECORDS as _R, T as _T

F = "jade/jobs/results_aggregator.py"
# file-level view of the class (the caller-level view with ghost row sets is record ResultsAggregator in contracts/results.py)
record("RAgg", file=F, cls="ResultsAggregator", fields={"_filename": "Opaque", "_lock_file": "Opaque", "_timeout": "int", "_delimiter": "Opaque", "_is_node": "bool"})
ghost("fchunks", "Dict[Opaque,List[Opaque]]")      # path -> the complete lines of the file (header first), for every existing results file
ghost("fpend", "Dict[Opaque,Opaque]")              # path -> text written after the last newline (key present iff a line is unfinished)
ghost("rlocks", "Set[Opaque]")
_R["FileObj"].fields["g_mode"] = _T.parse_ty("Opaque")
opaque_global("RESULTS_DIR", "PROCESSED_RESULTS_FILENAME")

define("NL", [], "typed('\\n', 'Opaque')")
define("HDR", ["s"], "uf('header_text', 'Opaque', s._delimiter)")                 # delimiter.join(Result._fields)
define("CH", ["p"], "ghost.fchunks[p]")
define("LOCKED", ["s"], "s._lock_file in ghost.rlocks")
# a well-formed results file: header line, then one line per row, last line terminated
define("WF_FILE", ["p", "s"], "p in ghost.fchunks and len(CH(p)) >= 1 and CH(p)[0] == HDR(s) and p not in ghost.fpend "
                              "and forall(i, range(len(CH(p))), CH(p)[i] != NL())")
define("OTHERS_SAME", ["p"], "forall(q, Opaque, implies(q != p, (q in ghost.fchunks) == (q in old(ghost.fchunks)) and is_exactly(ghost.fchunks[q], old(ghost.fchunks)[q]) "
                             "and (q in ghost.fpend) == (q in old(ghost.fpend)) and ghost.fpend[q] == old(ghost.fpend)[q]))")

# ---- boundary: files (T-fs); post-states are given as store terms (is_exactly), not as quantified frames ---------------------
FC, FP = "ghost.fchunks", "ghost.fpend"
contract("open_rf", kind="assumed", fresh_result=True, params=[("path", "Opaque"), ("mode", "Opaque", '"r"')], returns="Ref[FileObj]",
         ensures=["result.g_path == path and result.g_mode == mode", "unchanged(FileObj.g_path, result) and unchanged(FileObj.g_mode, result)",
                  "implies(mode == typed('w', 'Opaque'), is_exactly(ghost.fchunks, upd(old(ghost.fchunks), path, nil('List[Opaque]'))) and is_exactly(ghost.fpend, rem(old(ghost.fpend), path)))",
                  "implies(mode == typed('a', 'Opaque') and path in old(ghost.fchunks), is_exactly(ghost.fchunks, old(ghost.fchunks)) and is_exactly(ghost.fpend, old(ghost.fpend)))",
                  "implies(mode == typed('a', 'Opaque') and path not in old(ghost.fchunks), is_exactly(ghost.fchunks, upd(old(ghost.fchunks), path, nil('List[Opaque]'))) "
                  "and is_exactly(ghost.fpend, rem(old(ghost.fpend), path)))",
                  "implies(mode == typed('r', 'Opaque'), is_exactly(ghost.fchunks, old(ghost.fchunks)) and is_exactly(ghost.fpend, old(ghost.fpend)))"],
         raises={"FileNotFoundError": {"when": ["mode == typed('r', 'Opaque') and path not in ghost.fchunks"], "iff": True, "frame": True},
                 "AnyException": {"ensures": ["OTHERS_SAME(path)", "implies(mode != typed('w', 'Opaque'), (path in ghost.fchunks) == (path in old(ghost.fchunks)) or len(CH(path)) == 0)"], "frame": False}},
         modifies=["FileObj.g_path", "FileObj.g_mode", "ghost.fchunks", "ghost.fpend"],
         note="builtin open on a results file: 'w' truncates/creates, 'a' creates if absent, 'r' needs the file (T-fs)")
contract("FileObj.tell", kind="assumed", params=[("self", "Ref[FileObj]")], returns="int",
         ensures=["result >= 0", "(result == 0) == (len(CH(self.g_path)) == 0 and self.g_path not in ghost.fpend)"],
         note="position of an append-mode file = its size: 0 iff nothing was written (T-fs)")
contract("FileObj.write", kind="assumed", params=[("self", "Ref[FileObj]"), ("text", "Opaque")],
         # line discipline: one text chunk, then the newline (what every writer in this file does; anything else would glue or split rows)
         requires=["self.g_path in ghost.fchunks", "(text == NL()) == (self.g_path in ghost.fpend)"],
         ensures=["implies(text != NL(), is_exactly(ghost.fpend, upd(old(ghost.fpend), self.g_path, text)) and is_exactly(ghost.fchunks, old(ghost.fchunks)))",
                  "implies(text == NL(), is_exactly(ghost.fpend, rem(old(ghost.fpend), self.g_path)) "
                  "and is_exactly(ghost.fchunks, upd(old(ghost.fchunks), self.g_path, snoc(old(CH(self.g_path)), old(ghost.fpend[self.g_path])))))"],
         raises={"AnyException": {"ensures": ["OTHERS_SAME(self.g_path)", "self.g_path in ghost.fchunks"], "frame": False}},     # e.g. EDQUOT: only this file is affected
         modifies=["ghost.fchunks", "ghost.fpend"], note="sequential write at the end of the file; a line is complete when its newline is written (T-fs)")
contract("os_remove_rf", kind="assumed", params=[("path", "Opaque")],
         ensures=["is_exactly(ghost.fchunks, rem(old(ghost.fchunks), path)) and is_exactly(ghost.fpend, rem(old(ghost.fpend), path))"],
         raises={"FileNotFoundError": {"when": ["path not in ghost.fchunks"], "iff": True, "frame": True},
                 "AnyException": {"ensures": ["is_exactly(ghost.fchunks, old(ghost.fchunks)) and is_exactly(ghost.fpend, old(ghost.fpend))"], "frame": False}},
         modifies=["ghost.fchunks", "ghost.fpend"], note="os.remove (T-fs): the file is removed or, on an error, nothing happened")

# ---- boundary: csv text <-> Result (T-csv) ------------------------------------------------------------------------------------
# g_text: ghost field of a Result = its row text.  T-csv: formatting is a function of the six fields (ROWF) and parsing inverts it,
# so a parsed Result carries the line it was parsed from; the fields <-> text relation is only needed at the two boundary contracts.
_R["Result"].fields["g_text"] = _T.parse_ty("Opaque")
_R["Result"].extra_attrs.add("g_text")
define("ROWF", ["r"], "uf('row_text', 'Opaque', r.name, r.return_code, r.status, r.exec_time_s, r.completion_time, r.hpc_job_id)")
define("ROW", ["r"], "r.g_text")
define("SAME_ROW", ["a", "b"], "(a.name == b.name and a.return_code == b.return_code and a.status == b.status and a.exec_time_s == b.exec_time_s "
                              "and a.completion_time == b.completion_time and a.hpc_job_id == b.hpc_job_id)")
contract("RAgg._get_fields", kind="assumed", pure=True, params=[], returns="Opaque", note="Result._fields")
contract("Opaque.join", kind="assumed", pure=True, params=[("self", "Opaque"), ("items", "Opaque")], returns="Opaque",
         ensures=["result == uf('header_text', 'Opaque', self)", "result != NL()"], note="delimiter.join(Result._fields): the header line (not a bare newline)")
contract("RAgg._format_row", kind="assumed", pure=True, reads=["RAgg", "Result"],
         params=[("self", "Ref[RAgg]"), ("result", "Ref[Result]")], returns="Opaque",
         ensures=["retval == ROW(result)"],
         note="csv.writer with minimal quoting: the row text of a Result (ghost g_text; for every constructed or parsed Result it is the function ROWF of its six fields, T-csv)")
contract("RAgg._get_results", kind="assumed", fresh_result=True,
         params=[("self", "Ref[RAgg]")], returns="List[Ref[Result]]",
         requires=["LOCKED(self)"],
         ensures=["is_exactly(ghost.fchunks, old(ghost.fchunks)) and is_exactly(ghost.fpend, old(ghost.fpend))",
                  # one Result per row, in file order, and parsing inverts formatting (csv round trip, T-csv)
                  "implies(WF_FILE(self._filename, self), len(result) + 1 == len(CH(self._filename)) "
                  "and forall(i, range(len(result)), ROW(result[i]) == CH(self._filename)[i + 1]))",
                  "forall(i, range(len(result)), forall(j, range(i), result[i] != result[j]))",
                  "forall(i, range(len(result)), fresh(result[i]) and ROWF(result[i]) == result[i].g_text)",
                  "forall(r, Result, implies(old(allocated(r)), r.g_text == old(r.g_text)))"],
         raises={"FileNotFoundError": {"when": ["self._filename not in ghost.fchunks"], "iff": True, "frame": True},
                 "AnyException": {"ensures": ["is_exactly(ghost.fchunks, old(ghost.fchunks)) and is_exactly(ghost.fpend, old(ghost.fpend))"], "frame": False}},
         modifies=["Result.name", "Result.return_code", "Result.status", "Result.exec_time_s", "Result.completion_time", "Result.hpc_job_id", "Result.g_text"],
         note="csv.DictReader over the file: one Result per data line, fields parsed back (T-csv); BOUNDED check: C08/C19 harnesses")

contract("RAgg._do_action_under_lock", kind="assumed", lock_wrapper={"ghost_set": "rlocks", "key": "self._lock_file"},
         params=[("self", "Ref[RAgg]"), ("func", "Opaque")], raises={"Timeout": {}},
         note="SoftFileLock on <file>.lock around func(*args): acquired before, released on every exit (T-lock)")

# ---- the locked actions -------------------------------------------------------------------------------------------------------
FILES = {"open": "open_rf", "os.remove": "os_remove_rf", "ResultsAggregator.load_node_results_file": "RAgg.load_node_results_file", "ResultsAggregator.load": "RAgg.load", "ResultsAggregator.load_node_results": "RAgg.load_node_results"}
contract("RAgg._create_files", file=F, qualname="ResultsAggregator._create_files", call_alias=FILES,
         params=[("self", "Ref[RAgg]")],
         requires=["LOCKED(self)"],
         ensures=["WF_FILE(self._filename, self) and len(CH(self._filename)) == 1", "OTHERS_SAME(self._filename)"],
         modifies=["ghost.fchunks", "ghost.fpend", "FileObj.g_path", "FileObj.g_mode"])

contract("RAgg._append_result", file=F, qualname="ResultsAggregator._append_result", call_alias=FILES,
         params=[("self", "Ref[RAgg]"), ("text", "Opaque")],
         requires=["LOCKED(self)", "text != NL()",
                   "implies(self._filename in ghost.fchunks, (len(CH(self._filename)) == 0 and self._filename not in ghost.fpend) or WF_FILE(self._filename, self))"],
         defs={"P": ([], "self._filename")},
         ensures=[
             "WF_FILE(P(), self)", "OTHERS_SAME(P())",
             # exactly one row is added at the end; the header is (re)created when the file was absent or empty (deleted by a collection)
             "implies(old(P() in ghost.fchunks and len(CH(P())) > 0), len(CH(P())) == old(len(CH(P()))) + 1 "
             "and forall(i, range(old(len(CH(P())))), CH(P())[i] == old(CH(P()))[i]))",
             "implies(not old(P() in ghost.fchunks and len(CH(P())) > 0), len(CH(P())) == 2)",
             "CH(P())[len(CH(P())) - 1] == text",
         ],
         modifies=["ghost.fchunks", "ghost.fpend", "FileObj.g_path", "FileObj.g_mode"])

contract("RAgg._append_processed_results", file=F, qualname="ResultsAggregator._append_processed_results", call_alias=FILES,
         params=[("self", "Ref[RAgg]"), ("results", "List[Ref[Result]]")],
         requires=["LOCKED(self)", "not self._is_node", "WF_FILE(self._filename, self)", "forall(k, range(len(results)), ROW(results[k]) != NL())"],
         defs={"P": ([], "self._filename"), "N0": ([], "old(len(ghost.fchunks[self._filename]))")},
         ensures=[
             "WF_FILE(P(), self)", "OTHERS_SAME(P())",
             # every given result becomes one row at the end, in order; nothing already there changes
             "len(CH(P())) == N0() + len(results)",
             "forall(i, range(N0()), CH(P())[i] == old(CH(P()))[i])",
             "forall(i, range(N0(), len(CH(P()))), CH(P())[i] == ROW(results[i - N0()]))",
         ],
         loops={1: {"invariant": [
             "P() in ghost.fchunks and P() not in ghost.fpend and len(CH(P())) == N0() + _k1", "OTHERS_SAME(P())",
             "forall(i, range(N0()), CH(P())[i] == old(CH(P()))[i])",
             "forall(i, range(N0(), N0() + _k1), CH(P())[i] == ROW(results[i - N0()]))",
             "f_out.g_path == P()", "unchanged(Result.g_text)",
         ]}},
         raises={"AssertionError": {"when": ["self._is_node"], "iff": True, "frame": True},
                 # C11: a write error half way (quota, node failure) leaves every other file - in particular the node file being moved - untouched
                 "AnyException": {"ensures": ["OTHERS_SAME(P())"], "frame": False}},
         modifies=["ghost.fchunks", "ghost.fpend", "FileObj.g_path", "FileObj.g_mode"])

# read + hand over + delete, all while the node file's lock is held: no append can fall between reading and deleting
MOVE_SAFE = "N() in ghost.fchunks or (P() in ghost.fchunks and len(CH(P())) == N0() + old(len(CH(N()))) - 1)"
contract("RAgg._move_results", file=F, qualname="ResultsAggregator._move_results", call_alias=FILES,
         params=[("self", "Ref[RAgg]"), ("func", "Method[RAgg._append_processed_results]")],
         returns="List[Ref[Result]]", fresh_result=True,
         # C11 (crash points): whatever raises inside, the rows are never in neither place - the node file is deleted only after all of its rows
         # are in the consolidated file
         crash_inv=[MOVE_SAFE],
         raises={"AnyException": {"ensures": [MOVE_SAFE], "frame": False}, "FileNotFoundError": {"when": ["False"], "iff": True, "frame": False}},
         defs={"N": ([], "self._filename"), "PA": ([], "receiver(func)"), "P": ([], "receiver(func)._filename"),
               "N0": ([], "old(len(ghost.fchunks[receiver(func)._filename]))")},
         requires=["LOCKED(self)", "LOCKED(PA())", "not PA()._is_node", "WF_FILE(N(), self)", "WF_FILE(P(), PA())", "N() != P()",
                   ],
         ensures=[
             "N() not in ghost.fchunks",                                            # the node file is gone ...
             "len(result) + 1 == old(len(CH(N())))",                                 # ... every row it held is returned, once, in order ...
             "forall(i, range(len(result)), ROW(result[i]) == old(CH(N()))[i + 1])",
             "WF_FILE(P(), PA()) and len(CH(P())) == N0() + len(result)",            # ... and is now a row of the consolidated file
             "forall(i, range(N0()), CH(P())[i] == old(CH(P()))[i])",
             "forall(i, range(N0(), len(CH(P()))), CH(P())[i] == ROW(result[i - N0()]))",
             "forall(k, range(len(result)), CH(P())[N0() + k] == ROW(result[k]))",
             "forall(q, Opaque, implies(q != N() and q != P(), (q in ghost.fchunks) == (q in old(ghost.fchunks)) and is_exactly(ghost.fchunks[q], old(ghost.fchunks)[q]) "
             "and (q in ghost.fpend) == (q in old(ghost.fpend))))",
             "forall(i, range(len(result)), fresh(result[i]))",
             "forall(r, Result, implies(old(allocated(r)), r.g_text == old(r.g_text)))",
         ],
         modifies=["ghost.fchunks", "ghost.fpend", "FileObj.g_path", "FileObj.g_mode",
                   "Result.name", "Result.return_code", "Result.status", "Result.exec_time_s", "Result.completion_time", "Result.hpc_job_id", "Result.g_text"])

# ---- public operations = locked action under the file's own lock ----------------------------------------------------------------
# class invariant: the lock file is determined by the results file, and different results files have different lock files
define("Inv_agg", ["s"], "s._lock_file == uf('lock_of', 'Opaque', s._filename) and s._is_node == uf('is_node_file', 'bool', s._filename)")
define("LOCK_INJ", [], "forall(a, Opaque, forall(b, Opaque, implies(uf('lock_of', 'Opaque', a) == uf('lock_of', 'Opaque', b), a == b)))")
from pyvc.spec import CONTRACTS as _C
AGG_FIELDS = ["RAgg._filename", "RAgg._lock_file", "RAgg._timeout", "RAgg._delimiter", "RAgg._is_node"]
for ctor, params, fn in [("load", [("output_dir", "Opaque")], "uf('processed_file', 'Opaque', output_dir)"),
                         ("load_node_results", [("output_dir", "Opaque"), ("batch_id", "Opaque")], "uf('node_file', 'Opaque', output_dir, batch_id)"),
                         ("load_node_results_file", [("path", "Opaque")], "path")]:
    contract("RAgg." + ctor, kind="assumed", fresh_result=True, params=params, returns="Ref[RAgg]",
             ensures=[f"result._filename == {fn}", "Inv_agg(result)", "result._delimiter == typed(',', 'Opaque')", "LOCK_INJ()",
                      "not result._is_node" if ctor == "load" else ("result._is_node" if ctor == "load_node_results" else "True"),
                      "forall(a, RAgg, implies(old(allocated(a)), a._filename == old(a._filename) and a._lock_file == old(a._lock_file) "
                      "and a._is_node == old(a._is_node) and a._delimiter == old(a._delimiter)))"],
             modifies=AGG_FIELDS,
             note="classmethod constructor (pathlib): <file>.lock next to the results file, is_node iff the file name contains 'batch'; "
                  "processed_results.csv / results/results_batch_<id>.csv under the output directory")

MOVE = _C["RAgg._move_results"]
contract("RAgg.move_results", file=F, qualname="ResultsAggregator.move_results", fresh_result=True,
         params=[("self", "Ref[RAgg]"), ("func", "Method[RAgg._append_processed_results]")], returns="List[Ref[Result]]",
         defs=MOVE.defs,
         requires=["not LOCKED(self)"] + [r for r in MOVE.requires if r != "LOCKED(self)"],
         ensures=list(MOVE.ensures) + ["ghost.rlocks == old(ghost.rlocks)"],
         raises={"Timeout": {"ensures": ["ghost.fchunks == old(ghost.fchunks) and ghost.fpend == old(ghost.fpend) and ghost.rlocks == old(ghost.rlocks)"], "frame": False}},
         modifies=list(MOVE.modifies) + ["ghost.rlocks"])

APP = _C["RAgg._append_result"]
contract("RAgg.append_result", file=F, qualname="ResultsAggregator.append_result",
         params=[("self", "Ref[RAgg]"), ("result", "Ref[Result]")],
         locals={"start": "real", "duration": "real"},
         defs={"P": ([], "self._filename")},
         requires=["not LOCKED(self)", "ROW(result) != NL()",
                   "implies(self._filename in ghost.fchunks, (len(CH(self._filename)) == 0 and self._filename not in ghost.fpend) or WF_FILE(self._filename, self))"],
         ensures=["WF_FILE(P(), self)", "OTHERS_SAME(P())", "ghost.rlocks == old(ghost.rlocks)",
                  # the row of this result is added exactly once, at the end
                  "implies(old(P() in ghost.fchunks and len(CH(P())) > 0), len(CH(P())) == old(len(CH(P()))) + 1 "
                  "and forall(i, range(old(len(CH(P())))), CH(P())[i] == old(CH(P()))[i]))",
                  "implies(not old(P() in ghost.fchunks and len(CH(P())) > 0), len(CH(P())) == 2)",
                  "CH(P())[len(CH(P())) - 1] == ROW(result)"],
         raises={"Timeout": {"ensures": ["ghost.fchunks == old(ghost.fchunks) and ghost.fpend == old(ghost.fpend) and ghost.rlocks == old(ghost.rlocks)"], "frame": False}},
         modifies=["ghost.fchunks", "ghost.fpend", "ghost.rlocks", "FileObj.g_path", "FileObj.g_mode"])

# ---- one collection round ---------------------------------------------------------------------------------------------------
contract("RAgg._get_node_results_files", kind="assumed", params=[("self", "Ref[RAgg]")], returns="List[Opaque]", fresh_result=True,
         ensures=["forall(i, range(len(result)), result[i] in ghost.fchunks and result[i] != self._filename and uf('is_node_file', 'bool', result[i]))",
                  "forall(i, range(len(result)), forall(j, range(i), result[i] != result[j]))",
                  # complete at this instant: every existing node file of this output directory is listed (files created later are found by the next round)
                  "forall(q, Opaque, implies(q in ghost.fchunks and uf('node_file_of', 'bool', q, self._filename), exists(i, range(len(result)), result[i] == q)))"],
         raises={"AssertionError": {"when": ["self._is_node"], "iff": True, "frame": True}},
         note="glob results/results_batch_*.csv next to the consolidated file (T-fs)")
define("NODE_WF", ["q"], "implies(q in ghost.fchunks and uf('is_node_file', 'bool', q), len(CH(q)) >= 1 and CH(q)[0] == uf('header_text', 'Opaque', typed(',', 'Opaque')) "
                         "and q not in ghost.fpend and forall(i, range(len(CH(q))), CH(q)[i] != NL()))")
contract("RAgg._process_results", file=F, qualname="ResultsAggregator._process_results", fresh_result=True, call_alias=FILES,
         params=[("self", "Ref[RAgg]")], returns="List[Ref[Result]]",
         locals={"results": "List[Ref[Result]]"},
         defs={"P": ([], "self._filename"), "N0": ([], "old(len(ghost.fchunks[self._filename]))")},
         requires=["allocated(self)", "LOCKED(self)", "Inv_agg(self)", "not self._is_node", "WF_FILE(P(), self)", "self._delimiter == typed(',', 'Opaque')",
                   "forall(q, Opaque, implies(q != self._filename, uf('lock_of', 'Opaque', q) not in ghost.rlocks))",      # holds only its own lock
                   "forall(q, Opaque, NODE_WF(q))"],                                                                      # every node file was written by append_result
         loops={1: {"invariant": [
             "WF_FILE(P(), self) and len(CH(P())) == N0() + len(results)",
             "forall(i, range(N0()), CH(P())[i] == old(CH(P()))[i])",
             "forall(i, range(N0(), len(CH(P()))), CH(P())[i] == ROW(results[i - N0()]))",
             "forall(k, range(len(results)), CH(P())[N0() + k] == ROW(results[k]))",
             "forall(i, range(_k1), _it1[i] not in ghost.fchunks)",
             "forall(i, range(_k1, len(_it1)), _it1[i] in ghost.fchunks and is_exactly(ghost.fchunks[_it1[i]], old(ghost.fchunks)[_it1[i]]))",
             "forall(q, Opaque, NODE_WF(q))",
             "ghost.rlocks == old(ghost.rlocks)",
             "forall(k, range(len(results)), allocated(results[k]))",
             "forall(i, range(len(_it1)), _it1[i] != P() and uf('is_node_file', 'bool', _it1[i])) and forall(i, range(len(_it1)), forall(j, range(i), _it1[i] != _it1[j]))",
             "forall(a, RAgg, implies(old(allocated(a)), a._filename == old(a._filename) and a._lock_file == old(a._lock_file) "
             "and a._is_node == old(a._is_node) and a._delimiter == old(a._delimiter)))",
             "forall(q, Opaque, implies(q != P() and not exists(i, range(_k1), _it1[i] == q), (q in ghost.fchunks) == (q in old(ghost.fchunks)) and is_exactly(ghost.fchunks[q], old(ghost.fchunks)[q])))",
         ]}},
         ensures=[
             # the returned list is exactly what this round added to the consolidated file, in order (each row once) ...
             "WF_FILE(P(), self) and len(CH(P())) == N0() + len(result)",
             "forall(i, range(N0()), CH(P())[i] == old(CH(P()))[i])",
             "forall(i, range(N0(), len(CH(P()))), CH(P())[i] == ROW(result[i - N0()]))",
             "ghost.rlocks == old(ghost.rlocks)",
         ],
         exit_ensures=[
             # ... every node file listed at the start of the round is gone, and nothing else was touched
             "forall(q, Opaque, implies(q != P() and q in ghost.fchunks, q in old(ghost.fchunks) and is_exactly(ghost.fchunks[q], old(ghost.fchunks)[q])))",
         ],
         raises={"Timeout": {"ensures": [], "frame": False}, "AssertionError": {"when": ["self._is_node"], "iff": True, "frame": True}},
         modifies=["ghost.fchunks", "ghost.fpend", "ghost.rlocks", "FileObj.g_path", "FileObj.g_mode"] + AGG_FIELDS +
                  ["Result.name", "Result.return_code", "Result.status", "Result.exec_time_s", "Result.completion_time", "Result.hpc_job_id", "Result.g_text"])

# public entry points: the locked action under the file's own lock
PR = _C["RAgg._process_results"]
contract("RAgg.process_results", file=F, qualname="ResultsAggregator.process_results", fresh_result=True,
         params=[("self", "Ref[RAgg]")], returns="List[Ref[Result]]",
         defs=PR.defs,
         requires=["not LOCKED(self)", "forall(q, Opaque, uf('lock_of', 'Opaque', q) not in ghost.rlocks)",
                   "LOCK_INJ()"] +       # T-fs: <file>.lock is a different path for a different results file
                  [r for r in PR.requires if r != "LOCKED(self)" and "not in ghost.rlocks" not in r],
         ensures=list(PR.ensures),
         raises={"Timeout": {"ensures": [], "frame": False}, "AssertionError": {"when": ["self._is_node"], "iff": True, "frame": True}},
         modifies=list(PR.modifies))
CF = _C["RAgg._create_files"]
contract("RAgg.create_files", file=F, qualname="ResultsAggregator.create_files",
         params=[("self", "Ref[RAgg]")], requires=["not LOCKED(self)"], ensures=list(CF.ensures) + ["ghost.rlocks == old(ghost.rlocks)"],
         raises={"Timeout": {"ensures": ["ghost.rlocks == old(ghost.rlocks)"], "frame": False}}, modifies=list(CF.modifies) + ["ghost.rlocks"])
# a runner's append: node file of its batch (or the consolidated file when no batch id is given), under that file's lock
contract("RAgg.append", file=F, qualname="ResultsAggregator.append", call_alias=FILES,
         params=[("output_dir", "Opaque"), ("result", "Ref[Result]"), ("batch_id", "Opt[Opaque]", "None")],
         defs={"TARGET": ([], "(uf('processed_file', 'Opaque', output_dir) if isnone(batch_id) else uf('node_file', 'Opaque', output_dir, val(batch_id)))")},
         requires=["forall(q, Opaque, uf('lock_of', 'Opaque', q) not in ghost.rlocks)", "ROW(result) != NL()",
                   "implies(TARGET() in ghost.fchunks, (len(CH(TARGET())) == 0 and TARGET() not in ghost.fpend) or "
                   "(len(CH(TARGET())) >= 1 and CH(TARGET())[0] == uf('header_text', 'Opaque', typed(',', 'Opaque')) and TARGET() not in ghost.fpend "
                   "and forall(i, range(len(CH(TARGET()))), CH(TARGET())[i] != NL())))"],
         ensures=["TARGET() in ghost.fchunks and OTHERS_SAME(TARGET())", "ghost.rlocks == old(ghost.rlocks)",
                  "CH(TARGET())[len(CH(TARGET())) - 1] == ROW(result)",
                  "implies(old(TARGET() in ghost.fchunks and len(CH(TARGET())) > 0), len(CH(TARGET())) == old(len(CH(TARGET()))) + 1 "
                  "and forall(i, range(old(len(CH(TARGET())))), CH(TARGET())[i] == old(CH(TARGET()))[i]))",
                  "implies(not old(TARGET() in ghost.fchunks and len(CH(TARGET())) > 0), len(CH(TARGET())) == 2 and CH(TARGET())[0] == uf('header_text', 'Opaque', typed(',', 'Opaque')))"],
         raises={"Timeout": {"ensures": ["ghost.rlocks == old(ghost.rlocks)"], "frame": False}},
         modifies=["ghost.fchunks", "ghost.fpend", "ghost.rlocks", "FileObj.g_path", "FileObj.g_mode"] + AGG_FIELDS)
