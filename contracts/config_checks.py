"""Contracts for the configuration validators run when a submitter is created (C17)."""
from pyvc.spec import record, contract, define, ghost

F = "jade/jobs/job_configuration.py"
FC = "jade/jobs/job_container_by_name.py"

# ---- unique job names ---------------------------------------------------------------------------------------------------
contract("JobContainerByName.add_job", file=FC,
         params=[("self", "Ref[JobContainerByName]"), ("job", "Ref[JadeJob]")],
         ensures=["job.name in self._jobs and self._jobs[job.name] == job",
                  "forall(x, Name, implies(x != job.name, (x in self._jobs) == (x in old(self._jobs)) and self._jobs[x] == old(self._jobs)[x]))"],
         # a second job with a stored name is rejected and nothing changes
         raises={"InvalidConfiguration": {"when": ["job.name in self._jobs"], "iff": True, "frame": True}},
         modifies=["self._jobs"])

# ---- dependencies name existing jobs ----------------------------------------------------------------------------------------
define("CJL", ["c"], "c.g_joblist")
define("DEPS_OK", ["c"], "forall(i, range(len(CJL(c))), forall(x, CJL(c)[i].blocked_by, exists(j, range(len(CJL(c))), CJL(c)[j].name == x)))")
contract("JobConfiguration.check_job_dependencies", file=F,
         params=[("self", "Ref[JobConfiguration]")],
         locals={"job_names": "Set[Name]", "blocking_jobs": "Set[Name]", "missing_jobs": "Set[Name]"},
         ensures=["DEPS_OK(self)"],      # accepted => every blocker is a configured job
         raises={"InvalidConfiguration": {"when": ["not DEPS_OK(self)"], "iff": True, "frame": True}},     # rejected <=> some blocker does not exist
         loops={1: {"invariant": ["_it1 == CJL(self)",
                                  "forall(x, Name, (x in job_names) == exists(i, range(_k1), CJL(self)[i].name == x))",
                                  "forall(x, Name, (x in blocking_jobs) == exists(i, range(_k1), x in CJL(self)[i].blocked_by))"]},
                2: {"invariant": []}},
         modifies=[])

# ---- time-based batching needs an estimate for every job of the group ------------------------------------------------------------
define("EST_MISSING", ["c", "g"], "exists(i, range(len(CJL(c))), CJL(c)[i].submission_group == g and isnone(CJL(c)[i].estimated_run_minutes))")
contract("JobConfiguration.check_job_estimated_run_minutes", file=F,
         params=[("self", "Ref[JobConfiguration]"), ("group_name", "Name")],
         locals={"missing_estimate": "List[Name]"},
         ensures=["not EST_MISSING(self, group_name)"],
         raises={"InvalidConfiguration": {"when": ["EST_MISSING(self, group_name)"], "iff": True, "frame": True}},
         loops={1: {"invariant": ["_it1 == CJL(self)",
                                  "(len(missing_estimate) > 0) == exists(i, range(_k1), CJL(self)[i].submission_group == group_name and isnone(CJL(self)[i].estimated_run_minutes))"]},
                2: {"invariant": []}},
         modifies=[])

# ---- no job is estimated to run longer than its group's walltime -----------------------------------------------------------------
define("GROUPS", ["c"], "c._submission_groups")
define("TOO_LONG", ["c", "i"], """(not isnone(CJL(c)[i].estimated_run_minutes) and exists(g, range(len(GROUPS(c))),
    GROUPS(c)[g].name == val(CJL(c)[i].submission_group) and 60 * val(CJL(c)[i].estimated_run_minutes) > GROUPS(c)[g].submitter_params.wall_time_s))""")
contract("JobConfiguration.check_job_runtimes", file=F,
         params=[("self", "Ref[JobConfiguration]")],
         locals={"wall_times": "Dict[Name,int]"},
         # check_submission_groups has passed: group names are distinct and every job is assigned to one of them
         requires=["forall(g, range(len(GROUPS(self))), forall(h, range(g), GROUPS(self)[g].name != GROUPS(self)[h].name))",
                   "forall(i, range(len(CJL(self))), not isnone(CJL(self)[i].submission_group) "
                   "and exists(g, range(len(GROUPS(self))), GROUPS(self)[g].name == val(CJL(self)[i].submission_group)))"],
         ensures=["forall(i, range(len(CJL(self))), not TOO_LONG(self, i))"],
         raises={"InvalidConfiguration": {"when": ["exists(i, range(len(CJL(self))), TOO_LONG(self, i))"], "iff": True, "frame": True}},
         loops={1: {"invariant": ["_it1 == CJL(self)",
                                  "forall(g, range(len(GROUPS(self))), GROUPS(self)[g].name in wall_times and wall_times[GROUPS(self)[g].name] == GROUPS(self)[g].submitter_params.wall_time_s)",
                                  "forall(i, range(_k1), not TOO_LONG(self, i))"]}},
         modifies=[])

# ---- the sequence run when a submitter is created ---------------------------------------------------------------------------
FS = "jade/jobs/job_submitter.py"
define("GROUPS_DISTINCT", ["c"], "forall(g, range(len(GROUPS(c))), forall(h, range(g), GROUPS(c)[g].name != GROUPS(c)[h].name))")
define("JOBS_ASSIGNED", ["c"], "forall(i, range(len(CJL(c))), not isnone(CJL(c)[i].submission_group) "
                               "and exists(g, range(len(GROUPS(c))), GROUPS(c)[g].name == val(CJL(c)[i].submission_group)))")
define("GROUPS_CONSISTENT", ["c"], "forall(g, range(len(GROUPS(c))), GROUPS(c)[g].submitter_params.hpc_config.hpc_type == GROUPS(c)[0].submitter_params.hpc_config.hpc_type "
                                   "and GROUPS(c)[g].submitter_params.max_nodes == GROUPS(c)[0].submitter_params.max_nodes "
                                   "and GROUPS(c)[g].submitter_params.poll_interval == GROUPS(c)[0].submitter_params.poll_interval)")
define("GROUPS_OK", ["c"], "len(GROUPS(c)) >= 1 and GROUPS_DISTINCT(c) and JOBS_ASSIGNED(c) and GROUPS_CONSISTENT(c)")
define("EST_OK", ["c"], "forall(g, range(len(GROUPS(c))), implies(GROUPS(c)[g].submitter_params.per_node_batch_size == 0, not EST_MISSING(c, GROUPS(c)[g].name)))")
define("RUNTIMES_OK", ["c"], "forall(i, range(len(CJL(c))), not TOO_LONG(c, i))")
KEEP = ("unchanged(JadeJob.name) and unchanged(JadeJob.blocked_by) and unchanged(JadeJob.submission_group) and unchanged(JadeJob.estimated_run_minutes) "
        "and unchanged(JobConfiguration.g_joblist) and unchanged(JobConfiguration._submission_groups) and unchanged(SubmissionGroup.name) "
        "and unchanged(SubmissionGroup.submitter_params) and unchanged(SubmitterParams.per_node_batch_size) and unchanged(SubmitterParams.wall_time_s) "
        "and unchanged(SubmitterParams.hpc_config) and unchanged(SubmitterParams.max_nodes) and unchanged(SubmitterParams.poll_interval) and unchanged(HpcConfig.hpc_type)")
contract("JobConfiguration.check_submission_groups", kind="assumed",
         params=[("self", "Ref[JobConfiguration]")],
         requires=["len(GROUPS(self)) >= 1"],
         ensures=["GROUPS_OK(self)", KEEP],
         raises={"InvalidConfiguration": {"when": ["not GROUPS_OK(self)"], "iff": True, "frame": True}},
         modifies=["SubmitterParams.generate_reports", "SubmitterParams.resource_monitor_interval", "SubmitterParams.resource_monitor_type", "SubmitterParams.dry_run",
                   "SubmitterParams.verbose", "SubmitterParams.distributed_submitter", "SubmitterParams.node_setup_script", "SubmitterParams.node_shutdown_script"],
         note="BOUNDED stand-in only (getattr/setattr over pydantic field names, defaultdict): rejects duplicate group names, a job without / with an unknown group, "
              "differing hpc_type / max_nodes / poll_interval; checked at run time on generated configurations by the C17 harness, not proved")
contract("JobConfiguration.check_spark_config", kind="assumed", params=[("self", "Ref[JobConfiguration]")], ensures=[KEEP],
         modifies=["SubmitterParams.num_parallel_processes_per_node"], note="forces one process per node for groups with Spark jobs")

contract("JobSubmitter.run_checks", file=FS,
         params=[("self", "Ref[JobSubmitter]")],
         requires=["len(GROUPS(self._config)) >= 1"],
         defs={"C": ([], "self._config")},
         # accepted => valid ; rejected <=> one of the named invalidities
         ensures=["GROUPS_OK(C()) and EST_OK(C()) and DEPS_OK(C()) and RUNTIMES_OK(C())"],
         raises={"InvalidConfiguration": {"when": ["not (GROUPS_OK(C()) and EST_OK(C()) and DEPS_OK(C()) and RUNTIMES_OK(C()))"], "iff": True,
                                          "ensures": ["ghost.runs == old(ghost.runs) and ghost.sbatch_n == old(ghost.sbatch_n)"], "frame": False}},
         loops={1: {"invariant": ["_it1 == GROUPS(C())", "GROUPS_OK(C())", KEEP,
                                  "forall(g, range(_k1), implies(GROUPS(C())[g].submitter_params.per_node_batch_size == 0, not EST_MISSING(C(), GROUPS(C())[g].name)))"]}},
         modifies=["SubmitterParams.generate_reports", "SubmitterParams.resource_monitor_interval", "SubmitterParams.resource_monitor_type", "SubmitterParams.dry_run",
                   "SubmitterParams.verbose", "SubmitterParams.distributed_submitter", "SubmitterParams.node_setup_script", "SubmitterParams.node_shutdown_script",
                   "SubmitterParams.num_parallel_processes_per_node"])
