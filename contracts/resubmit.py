"""Contracts for jade/cli/resubmit_jobs.py and Cluster.prepare_for_resubmission (C13)."""
from pyvc.spec import record, contract, define, ghost, opaque_fn, opaque_global, CONTRACTS as _C
ghost("reset_set", "Set[Name]")

F = "jade/cli/resubmit_jobs.py"
opaque_global("CONFIG_FILE", "EVENTS_DIR")
contract("JadeJob.get_blocking_jobs", kind="assumed", pure=True, params=[("self", "Ref[JadeJob]")], returns="Set[Name]", ensures=["result == self.blocked_by"],
         note="GenericCommandParameters.get_blocking_jobs returns the model's blocked_by set")
contract("create_config_from_file_r", kind="assumed", params=[("filename", "Opaque")], returns="Ref[JobConfiguration]",
         ensures=["result == uf('config_of', 'Ref[JobConfiguration]', filename)", "Inv_cfg(result)",
                  # the configuration passed check_job_dependencies when it was submitted: every blocker is a configured job (C17)
                  "forall(i, range(len(result.g_joblist)), subset(result.g_joblist[i].blocked_by, nameset(result.g_joblist)))",
                  "nameset(result.g_joblist) == ghost.universe"],        # the configuration of THIS submission
         note="config.json of the submission, as validated at submit time (C17)")

define("DEPHIT", ["j", "S"], "exists(e, j.blocked_by, e in S)")      # some blocker of j is in S
UB_DEFS = {"J": ([], "jobs_to_resubmit"), "J0": ([], "old(jobs_to_resubmit)"), "U": ([], "updated_blocking_jobs_by_name"),
           "NAMES": ([], "nameset(config.g_joblist)"), "JOB": (["x"], "config._jobs._jobs[x]"), "CFG": ([], "config"),
           "JL": ([], "config.g_joblist"),
           # the same, as callers can name it: the configuration stored in <output>/config.json
           "XCFG": ([], "uf('config_of', 'Ref[JobConfiguration]', uf('pathjoin', 'Opaque', uf('Path/', 'Opaque', output), CONFIG_FILE))"),
           "XJL": ([], "XCFG().g_joblist"), "XJOB": (["x"], "XCFG()._jobs._jobs[x]")}
UB_INV = [
    "Inv_cfg(config)",
    "max_iter == len(JL())",
    "subset(J0(), J())",                                                   # frame: nothing is ever removed
    "subset(J(), J0() | NAMES())",
    # sound: whatever was added is a configured job with a blocker in the set
    "forall(x, J(), x in J0() or (x in config._jobs._jobs and DEPHIT(JOB(x), J())))",
    "implies(empty(J0() & NAMES()), J() == J0())",                      # nothing can be added unless a selected job is configured
    "forall(i, range(len(JL())), subset(JL()[i].blocked_by, NAMES()))",
    "card_subset_hint(J(), J0() | NAMES())",
    "card(NAMES()) == len(JL())",
    "unchanged(JadeJob.blocked_by) and unchanged(JadeJob.name) and unchanged(JobConfiguration.g_joblist) and unchanged(JobContainerByName._jobs) and unchanged(JobConfiguration._jobs)",
]
contract("_update_with_blocking_jobs", file=F,
         params=[("jobs_to_resubmit", "Set[Name]"), ("output", "Opaque")], returns="Dict[Name,Set[Name]]",
         locals={"updated_blocking_jobs_by_name": "Dict[Name,Set[Name]]", "blocking_jobs": "Set[Name]", "intersecting_jobs": "Set[Name]"},
         call_alias={"create_config_from_file": "create_config_from_file_r"},
         defs=UB_DEFS,
         loops={
             1: {"invariant": UB_INV + [
                 "card(J()) >= card(J0()) + _k1",                       # every earlier pass added at least one name
             ]},
             2: {"invariant": UB_INV + [
                 "card(J()) >= first",
                 "first >= card(J0()) + _k1",
                 "subset(loop_old(jobs_to_resubmit), J())",
                 "first == card(loop_old(jobs_to_resubmit))",
                 "card_subset_hint(loop_old(jobs_to_resubmit), J())",
                 # jobs already visited in this pass are in the set if they had a blocker in the set as it was at the start of the pass
                 "forall(m, range(_k2), implies(DEPHIT(JL()[m], loop_old(jobs_to_resubmit)), JL()[m].name in J()))",
                 # ... and if the set did not grow in this pass, their entry is exact
                 "forall(m, range(_k2), implies(card(J()) == first and DEPHIT(JL()[m], J()), JL()[m].name in U() "
                 "and U()[JL()[m].name] == (JL()[m].blocked_by & J())))",
                 "_it2 == JL()",
             ]},
         },
         ensures=[
             "subset(old(jobs_to_resubmit), jobs_to_resubmit)",
             # closed: every configured job with a blocker in the final set is in the final set  (selected + transitive dependents)
             "forall(m, range(len(XJL())), implies(DEPHIT(XJL()[m], jobs_to_resubmit), XJL()[m].name in jobs_to_resubmit))",
             # sound: nothing else - every added name is a configured job with a blocker in the final set
             "forall(x, jobs_to_resubmit, x in old(jobs_to_resubmit) or (x in XCFG()._jobs._jobs and DEPHIT(XJOB(x), jobs_to_resubmit)))",
             # the returned map restricts each dependent's blockers to the jobs that are rerun
             "forall(m, range(len(XJL())), implies(DEPHIT(XJL()[m], jobs_to_resubmit), XJL()[m].name in result "
             "and result[XJL()[m].name] == (XJL()[m].blocked_by & jobs_to_resubmit)))",
         ],
         modifies=["jobs_to_resubmit"])

# every key of the returned map is a rerun job whose entry is exact (needed so that no rerun job waits for a job that is not rerun)
_ub = _C["_update_with_blocking_jobs"]
UB_U = ("forall(x, U(), x in J() and x in config._jobs._jobs and not empty(U()[x]) and subset(U()[x], JOB(x).blocked_by) and subset(U()[x], J()))")
for _n in (1, 2):
    _ub.loops[_n]["invariant"].append(UB_U)
_ub.ensures.append("forall(x, result, x in jobs_to_resubmit and x in XCFG()._jobs._jobs and not empty(result[x]) and result[x] == (XJOB(x).blocked_by & jobs_to_resubmit))")
_ub.ensures.append("subset(jobs_to_resubmit, old(jobs_to_resubmit) | ghost.universe)")

# ---- Cluster.prepare_for_resubmission ------------------------------------------------------------------------------
FC = "jade/jobs/cluster.py"
contract("Cluster.serialize_submission_groups", kind="assumed", params=[("self", "Ref[Cluster]"), ("directory", "Opaque")],
         ensures=[], modifies=[], note="writes submission_groups.json (a fifth file, read without the lock); no effect on the four status files")
NS_, S_, D_ = "JobState.NOT_SUBMITTED", "JobState.SUBMITTED", "JobState.DONE"
PR_DEFS = {"CFG": ([], "self._config"), "JL": ([], "val(self._job_status).jobs"), "NJ": ([], "len(val(self._job_status).jobs)"),
           "R": ([], "jobs_to_resubmit"), "U": ([], "updated_blocking_jobs_by_name"),
           "NEWB_OK": (["b", "nm"], "(implies(nm in U(), b == U()[nm]) and implies(nm not in U(), empty(b)))"),
           "FRAME": ([], "val(self._job_status).jobs == old(val(self._job_status).jobs) and self._job_status == old(self._job_status) "
                         "and self._config == old(self._config) and unchanged(Job.name) and unchanged(Job.cancel_on_blocking_job_failure) "
                         "and CFG().num_jobs == old(CFG().num_jobs) and CFG().submitter == old(CFG().submitter) and CFG().version == old(CFG().version) "
                         "and unchanged(JobStatus.jobs) and unchanged(JobStatus.version) and unchanged(Cluster._job_status) and unchanged(Cluster._config)"),
           }
PR_JOBS = [
    # exactly the selected jobs are reset; their blockers are the original blockers restricted to the rerun jobs (from the closure map)
    "forall(m, range({hi}), implies(JL()[m].name in R(), JL()[m].state == " + NS_ + " and NEWB_OK(JL()[m].blocked_by, JL()[m].name)))",
    # every other job keeps its state and blockers
    "forall(m, range({hi}), implies(JL()[m].name not in R(), JL()[m].state == old(JL()[m].state) and JL()[m].blocked_by == old(JL()[m].blocked_by)))",
]
contract("Cluster.prepare_for_resubmission", file=FC,
         params=[("self", "Ref[Cluster]"), ("jobs_to_resubmit", "Set[Name]"), ("updated_blocking_jobs_by_name", "Dict[Name,Set[Name]]")],
         defs=PR_DEFS,
         requires=[
             # the CLI calls this without the lock ("Locking is not required for this function"): the handle is the promoted submitter of a
             # complete submission and current on both files
             "not ghost.cluster_lock", "Inv_handle(self)", "self.g_promoted", "not isnone(self._job_status)", "J(self)",
             "CFG().version == disk_cv(self) and val(self._job_status).version == disk_jv(self)",
             "subset(R(), nameset(JL()))",
             "forall(x, U(), x in R() and not empty(U()[x]) and subset(U()[x], R()))",
         ],
         loops={1: {"invariant": ["FRAME()", "not CFG().is_complete and not CFG().is_canceled",
                                  "CFG().submitted_jobs == CFG().num_jobs - card(R())",
                                  "CFG().completed_jobs == fold('n_done', prefix(JL(), _k1))",
                                  "_it1 == JL()",
                                  # when every unselected job has run, the submitted-or-done jobs among the first k are the unselected ones
                                  "implies(old(forall(m, range(NJ()), JL()[m].name in R() or JL()[m].state != " + NS_ + ")), "
                                  "fold('n_sub', prefix(JL(), _k1)) == _k1 - count_in(prefix(JL(), _k1), R()))",
                                  "forall(m, range(_k1, NJ()), JL()[m].state == old(JL()[m].state) and JL()[m].blocked_by == old(JL()[m].blocked_by))",
                                  "forall(r, Job, r.state == old(r.state) or r.state == " + NS_ + ")",
                                  ] + [c.format(hi="_k1") for c in PR_JOBS]}},
         ensures=[c.format(hi="NJ()") for c in PR_JOBS] + [
             "not CFG().is_complete and not CFG().is_canceled and CFG().submitter == old(CFG().submitter)",
             "val(self._job_status).jobs == old(val(self._job_status).jobs) and unchanged(Job.name)",
             # J restored (C09) ...
             "CFG().completed_jobs == fold('n_done', JL())",
             "forall(i, range(NJ()), implies(JL()[i].state != " + NS_ + ", empty(JL()[i].blocked_by)))",
             "distinct_job_names(self) and CFG().num_jobs == NJ()",
             # ... the submitted counter included, when every job that is not selected is done (a complete submission without lost jobs)
             "implies(old(forall(m, range(NJ()), JL()[m].name in R() or JL()[m].state != " + NS_ + ")), CFG().submitted_jobs == fold('n_sub', JL()) "
             "and count_in(JL(), R()) == card(R()))",
             # ... and unconditionally (finding F8: fails when an unselected job never ran)
             "fold('n_sub', JL()) == CFG().submitted_jobs",
             "Inv_handle(self)", "cfg_mirrored(self)", "js_mirrored(self)",
             "not ghost.cluster_lock",
         ],
         ghost_ensures=["ghost.reset_set == jobs_to_resubmit"],
         raises={"AssertionError": {"when": ["not self._config.is_complete"], "iff": True, "frame": True}},
         modifies=["ghost.reset_set", "ClusterConfig.is_complete", "ClusterConfig.is_canceled", "ClusterConfig.submitted_jobs", "ClusterConfig.completed_jobs", "ClusterConfig.version",
                   "Job.state", "Job.blocked_by", "JobStatus.version", "self._config_hash", "self._job_status_hash",
                   "ghost.files", "ghost.vfiles", "ghost.file_writes"])
