"""Contracts for jade/resource_monitor.py: ResourceMonitorAggregator (C20 statistics)."""
from pyvc.spec import record, contract, define, ghost

F = "jade/resource_monitor.py"
CELLS = "Dict[Name,Dict[Name,Dict[Name,real]]]"     # summary kind -> resource type -> stat name -> value

record("ResourceMonitorAggregator", file=F, fields={
    "_stats": "Ref[ResourceMonitorStats]",
    "_count": "int",
    "_monitor": "Opaque",
    "_last_stats": "Dict[Name,Dict[Name,real]]",
    "_summaries": CELLS,
    "_process_summaries": CELLS,
    "_process_sample_count": "Dict[Name,int]",
})
record("ResourceMonitorStats", file="jade/models/submitter_params.py", pydantic=True, fields={
    "cpu": "bool", "disk": "bool", "memory": "bool", "network": "bool", "process": "bool",
    "include_child_processes": "bool", "recurse_child_processes": "bool",
})

contract("ResourceMonitorAggregator._get_stats", kind="assumed",
         params=[("self", "Ref[ResourceMonitorAggregator]")], returns="Dict[Name,Dict[Name,real]]", fresh_result=True,
         ensures=[
             # the monitor reports the same resource types and stat names on every call (psutil field sets are fixed)
             "forall(rt, Name, (rt in result) == (rt in self._last_stats))",
             "forall(rt, result, forall(sn, Name, (sn in result[rt]) == (sn in self._last_stats[rt])))",
             # samples are utilisation figures / byte counts: non-negative and below sys.maxsize
             "forall(rt, result, forall(sn, result[rt], 0 <= result[rt][sn] and result[rt][sn] <= 9223372036854775807))",
         ],
         note="psutil sampling (ResourceMonitor.get_*_stats): structure-stable, non-negative samples")

define("SUM", ["s"], 's._summaries[typed("sum", "Name")]')
define("MAXI", ["s"], 's._summaries[typed("maximum", "Name")]')
define("MINI", ["s"], 's._summaries[typed("minimum", "Name")]')
define("rmax", ["a", "b"], "(a if a >= b else b)")
define("rmin", ["a", "b"], "(a if a <= b else b)")
# every cell the monitor reports is present in the three summaries that are updated
define("cells_present", ["s", "cur"], """(
    typed("sum", "Name") in s._summaries and typed("maximum", "Name") in s._summaries and typed("minimum", "Name") in s._summaries
    and forall(rt, cur, rt in SUM(s) and rt in MAXI(s) and rt in MINI(s)
               and forall(sn, cur[rt], sn in SUM(s)[rt] and sn in MAXI(s)[rt] and sn in MINI(s)[rt])))""")
define("updated", ["s", "cur", "rt", "sn"], """(
    MAXI(s)[rt][sn] == rmax(old(MAXI(s)[rt][sn]), cur[rt][sn]) and MINI(s)[rt][sn] == rmin(old(MINI(s)[rt][sn]), cur[rt][sn])
    and SUM(s)[rt][sn] == old(SUM(s)[rt][sn]) + cur[rt][sn])""")
define("same_cell", ["s", "rt", "sn"], """(
    MAXI(s)[rt][sn] == old(MAXI(s)[rt][sn]) and MINI(s)[rt][sn] == old(MINI(s)[rt][sn]) and SUM(s)[rt][sn] == old(SUM(s)[rt][sn]))""")
define("same_keys", ["s"], """(
    forall(k, Name, (k in s._summaries) == (k in old(s._summaries)))
    and forall(k, s._summaries, forall(rt, Name, (rt in s._summaries[k]) == (rt in old(s._summaries)[k]))
               and forall(rt, s._summaries[k], forall(sn, Name, (sn in s._summaries[k][rt]) == (sn in old(s._summaries)[k][rt])))))""")

contract("ResourceMonitorAggregator.update_resource_stats", file=F,
         params=[("self", "Ref[ResourceMonitorAggregator]"), ("ids", "Opt[Opaque]", "None")],
         locals={"cur_stats": "Dict[Name,Dict[Name,real]]"},
         requires=["not self._stats.process",        # the per-process branch (same update code) is not under contract
                   "cells_present(self, self._last_stats)"],
         loops={
             1: {"invariant": [
                 "same_keys(self)", "cells_present(self, cur_stats)",
                 "forall(rt, _seen1, forall(sn, cur_stats[rt], updated(self, cur_stats, rt, sn)))",
                 "forall(rt, Name, forall(sn, Name, implies(rt not in _seen1, same_cell(self, rt, sn))))",
                 "forall(rt, Name, forall(sn, Name, implies(rt in cur_stats and sn not in cur_stats[rt], same_cell(self, rt, sn))))",
                 "subset(_seen1, keys(cur_stats))",
                 "self._count == old(self._count) and self._stats == old(self._stats)",
             ]},
             2: {"invariant": [
                 "same_keys(self)", "cells_present(self, cur_stats)",
                 "forall(rt, _seen1, forall(sn, cur_stats[rt], updated(self, cur_stats, rt, sn)))",
                 "forall(sn, _seen2, updated(self, cur_stats, resource_type, sn))",
                 "forall(sn, Name, implies(sn not in _seen2, same_cell(self, resource_type, sn)))",
                 "forall(rt, Name, forall(sn, Name, implies(rt not in _seen1 and rt != resource_type, same_cell(self, rt, sn))))",
                 "forall(rt, Name, forall(sn, Name, implies(rt in cur_stats and sn not in cur_stats[rt], same_cell(self, rt, sn))))",
                 "subset(_seen2, keys(cur_stats[resource_type])) and resource_type in cur_stats and resource_type not in _seen1 and subset(_seen1, keys(cur_stats))",
                 "stat_dict == cur_stats[resource_type]",
                 "self._count == old(self._count) and self._stats == old(self._stats)",
             ]},
         },
         ensures=[
             # C20: every reported cell moves to the true running maximum / minimum / sum; nothing else changes
             "forall(rt, self._last_stats, forall(sn, self._last_stats[rt], updated(self, self._last_stats, rt, sn)))",
             "forall(rt, Name, forall(sn, Name, implies(rt not in self._last_stats or sn not in self._last_stats[rt], same_cell(self, rt, sn))))",
             "self._count == old(self._count) + 1",
             "same_keys(self)", "cells_present(self, self._last_stats)",
         ],
         modifies=["self._summaries", "self._count", "self._last_stats"])
