"""Contracts for jade/jobs/job_submitter.py (C03, C05, C12, C14, C16, C20)."""
from pyvc.spec import record, contract, define, ghost, opaque_fn, opaque_global

F = "jade/jobs/job_submitter.py"

record("JobSubmitter", file=F, bases=["JobManagerBase"], fields={
    "_hpc": "Opt[Ref[HpcManager]]",
    "_is_new": "bool",
})
record("JobManagerBase", file="jade/jobs/job_manager_base.py", fields={
    "_config": "Ref[JobConfiguration]",
    "_config_file": "Opaque",
    "_output": "Opaque",
    "_jobs_output": "Opaque",
    "_results": "List[Ref[Result]]",
})
opaque_fn("serialize_results")

contract("JobSubmitter._build_results", file=F,
         params=[("self", "Ref[JobSubmitter]"), ("missing_jobs", "List[Name]")], returns="Opaque",
         requires=["forall(i, range(len(self._results)), wf_result(self._results[i]))"],   # rows come only from the three verified producers
         loops={1: {"invariant": [
             "num_successful == fold('n_succ', prefix(self._results, _k1))",
             "num_failed == fold('n_fail', prefix(self._results, _k1))",
             "num_canceled == fold('n_canc', prefix(self._results, _k1))",
             "num_successful + num_failed + num_canceled == _k1",
             "num_successful >= 0 and num_failed >= 0 and num_canceled >= 0",
         ]}},
         ensures=[
             # C20: every result is counted in exactly one class (exit-state clause over the function's own tallies)
             "num_successful + num_failed + num_canceled == len(self._results)",
             "num_successful == fold('n_succ', self._results) and num_failed == fold('n_fail', self._results) and num_canceled == fold('n_canc', self._results)",
         ])

# ---- cancel (C14) ---------------------------------------------------------------------------------------------------
opaque_fn("make_submission_group_lookup")
ghost("scanceled", "Set[Name]")          # scheduler ids for which scancel was issued
contract("HpcManager.__init__", kind="assumed", params=[("submission_groups", "Opaque"), ("output", "Opaque")], returns="Ref[HpcManager]",
         fresh_result=True, modifies=["HpcManager._output", "HpcManager._hpc_type", "HpcManager._configs", "HpcManager._intfs"],
         note="builds one scheduler interface per submission group")
contract("HpcManager.cancel_job", kind="assumed", params=[("self", "Ref[HpcManager]"), ("job_id", "Name")], returns="int",
         ensures=["forall(x, Name, (x in ghost.scanceled) == (x in old(ghost.scanceled) or x == job_id))"], modifies=["ghost.scanceled", "ghost.execs", "ghost.last_ret"],
         note="HpcManager.cancel_job -> SlurmManager.cancel_job (verified in C18): runs `scancel <id>` once")
_mc = contract.__globals__["CONTRACTS"]["Cluster.mark_canceled"]
contract("JobSubmitter.cancel_jobs", file=F,
         params=[("self", "Ref[JobSubmitter]"), ("cluster", "Ref[Cluster]")],
         requires=["not isnone(cluster._job_status)"] + [r.replace("self", "cluster") for r in _mc.requires],
         ensures=[
             # C14: every batch that was active is asked to be canceled, and the submission is marked canceled - whatever the number of active batches
             "forall(i, range(len(val(cluster._job_status).hpc_job_ids)), val(cluster._job_status).hpc_job_ids[i] in ghost.scanceled)",
             "cluster._config.is_canceled and cfg_mirrored(cluster)",
             "not ghost.cluster_lock",
         ],
         loops={1: {"invariant": ["forall(i, range(_k1), _it1[i] in ghost.scanceled)", "subset(old(ghost.scanceled), ghost.scanceled)"]}},
         raises={k: dict(v, when=[w.replace("self", "cluster") for w in v.get("when", [])],
                         ensures=[e.replace("self", "cluster") for e in v.get("ensures", [])], iff=False, frame=False) for k, v in _mc.raises.items()},
         modifies=[m.replace("self.", "cluster.") for m in _mc.modifies] + ["ghost.scanceled", "ghost.execs", "ghost.last_ret",
                   "HpcManager._output", "HpcManager._hpc_type", "HpcManager._configs", "HpcManager._intfs"])
