"""Contracts for jade/jobs/job_submitter.py (C03, C05, C12, C14, C16, C20)."""
from pyvc.spec import record, contract, define, ghost, opaque_fn, opaque_global

F = "jade/jobs/job_submitter.py"

record("JobSubmitter", file=F, bases=["JobManagerBase"], fields={
    "_hpc": "Opt[Ref[HpcManager]]",
    "_is_new": "bool",
})
record("JobManagerBase", file="jade/jobs/job_manager_base.py", fields={
    "_config": "Ref[JobConfiguration]",
    "_config_file": "Opaque",
    "_output": "Opaque",
    "_jobs_output": "Opaque",
    "_results": "List[Ref[Result]]",
})
opaque_fn("serialize_results")

contract("JobSubmitter._build_results", file=F,
         params=[("self", "Ref[JobSubmitter]"), ("missing_jobs", "List[Name]")], returns="Opaque",
         requires=["forall(i, range(len(self._results)), wf_result(self._results[i]))"],   # rows come only from the three verified producers
         loops={1: {"invariant": [
             "num_successful == fold('n_succ', prefix(self._results, _k1))",
             "num_failed == fold('n_fail', prefix(self._results, _k1))",
             "num_canceled == fold('n_canc', prefix(self._results, _k1))",
             "num_successful + num_failed + num_canceled == _k1",
             "num_successful >= 0 and num_failed >= 0 and num_canceled >= 0",
         ]}},
         ensures=[
             # C20: every result is counted in exactly one class (exit-state clause over the function's own tallies)
             "num_successful + num_failed + num_canceled == len(self._results)",
             "num_successful == fold('n_succ', self._results) and num_failed == fold('n_fail', self._results) and num_canceled == fold('n_canc', self._results)",
         ])
