"""Contracts for jade/jobs/job_submitter.py (C03, C05, C12, C14, C16, C20)."""
from pyvc.spec import record, contract, define, ghost, opaque_fn, opaque_global, CONTRACTS as _C

F = "jade/jobs/job_submitter.py"

record("JobSubmitter", file=F, bases=["JobManagerBase"], fields={
    "_hpc": "Opt[Ref[HpcManager]]",
    "_is_new": "bool",
})
record("JobManagerBase", file="jade/jobs/job_manager_base.py", fields={
    "_config": "Ref[JobConfiguration]",
    "_config_file": "Opaque",
    "_output": "Opaque",
    "_jobs_output": "Opaque",
    "_results": "List[Ref[Result]]",
})
opaque_fn("serialize_results")

contract("JobSubmitter._build_results", file=F,
         params=[("self", "Ref[JobSubmitter]"), ("missing_jobs", "List[Name]")], returns="Opaque",
         requires=["forall(i, range(len(self._results)), wf_result(self._results[i]))"],   # rows come only from the three verified producers
         loops={1: {"invariant": [
             "num_successful == fold('n_succ', prefix(self._results, _k1))",
             "num_failed == fold('n_fail', prefix(self._results, _k1))",
             "num_canceled == fold('n_canc', prefix(self._results, _k1))",
             "num_successful + num_failed + num_canceled == _k1",
             "num_successful >= 0 and num_failed >= 0 and num_canceled >= 0",
         ]}},
         exit_ensures=[
             # C20: every result is counted in exactly one class (clauses over the function's own tallies at exit)
             "num_successful + num_failed + num_canceled == len(self._results)",
             "num_successful == fold('n_succ', self._results) and num_failed == fold('n_fail', self._results) and num_canceled == fold('n_canc', self._results)",
         ])

# ---- cancel (C14) ---------------------------------------------------------------------------------------------------
opaque_fn("make_submission_group_lookup")
ghost("scanceled", "Set[Name]")          # scheduler ids for which scancel was issued
contract("HpcManager.__init__", kind="assumed", params=[("submission_groups", "Opaque"), ("output", "Opaque")], returns="Ref[HpcManager]",
         fresh_result=True, modifies=["HpcManager._output", "HpcManager._hpc_type", "HpcManager._configs", "HpcManager._intfs"],
         note="builds one scheduler interface per submission group")
contract("HpcManager.cancel_job", kind="assumed", params=[("self", "Ref[HpcManager]"), ("job_id", "Name")], returns="int",
         ensures=["forall(x, Name, (x in ghost.scanceled) == (x in old(ghost.scanceled) or x == job_id))"], modifies=["ghost.scanceled", "ghost.execs", "ghost.last_ret"],
         note="HpcManager.cancel_job -> SlurmManager.cancel_job (verified in C18): runs `scancel <id>` once")
ghost("cancel_persisted", "bool")      # the canceled flag was written to disk by cancel_jobs
_mc = contract.__globals__["CONTRACTS"]["Cluster.mark_canceled"]
contract("JobSubmitter.cancel_jobs", file=F,
         params=[("self", "Ref[JobSubmitter]"), ("cluster", "Ref[Cluster]")],
         requires=["not isnone(cluster._job_status)"] + [r.replace("self", "cluster") for r in _mc.requires],
         ensures=[
             # C14: every batch that was active is asked to be canceled, and the submission is marked canceled - whatever the number of active batches
             "forall(i, range(len(val(cluster._job_status).hpc_job_ids)), val(cluster._job_status).hpc_job_ids[i] in ghost.scanceled)",
             "cluster._config.is_canceled and cfg_mirrored(cluster)",
             "not ghost.cluster_lock",
             "Inv_handle(cluster) and cluster.g_promoted and ghost.runs == old(ghost.runs)",
         ],
         ghost_ensures=["ghost.cancel_persisted"],
         loops={1: {"invariant": ["forall(i, range(_k1), _it1[i] in ghost.scanceled)", "subset(old(ghost.scanceled), ghost.scanceled)"]}},
         raises={k: dict(v, when=[w.replace("self", "cluster") for w in v.get("when", [])],
                         ensures=[e.replace("self", "cluster") for e in v.get("ensures", [])], iff=False, frame=False) for k, v in _mc.raises.items()},
         modifies=[m.replace("self.", "cluster.") for m in _mc.modifies] + ["ghost.cancel_persisted", "ghost.scanceled", "ghost.execs", "ghost.last_ret",
                   "HpcManager._output", "HpcManager._hpc_type", "HpcManager._configs", "HpcManager._intfs"])

# ---- completion (C03, C05, C12, C15, C16) -----------------------------------------------------------------------------
from pyvc.spec import RECORDS as _R, T as _T
_R["JobConfiguration"].fields["g_joblist"] = _T.parse_ty("List[Ref[JadeJob]]")     # ghost: the jobs in insertion order (view of JobContainerByName._jobs)
_R["JobConfiguration"].extra_attrs.add("g_joblist")
define("Inv_cfg", ["c"], """(
    forall(i, range(len(c.g_joblist)), c.g_joblist[i].name in c._jobs._jobs and c._jobs._jobs[c.g_joblist[i].name] == c.g_joblist[i])
    and forall(x, c._jobs._jobs, exists(i, range(len(c.g_joblist)), c.g_joblist[i].name == x))
    and forall(i, range(len(c.g_joblist)), forall(j, range(i), c.g_joblist[i].name != c.g_joblist[j].name)))""")
contract("JobConfiguration.iter_jobs", kind="assumed", pure=True, params=[("self", "Ref[JobConfiguration]")], returns="List[Ref[JadeJob]]",
         ensures=["result == self.g_joblist"], note="iter(self._jobs): JobContainerByName.__iter__ yields the dict values in insertion order (ghost list view g_joblist)")
contract("JobConfiguration.get_num_jobs", kind="assumed", pure=True, params=[("self", "Ref[JobConfiguration]")], returns="int",
         ensures=["result == len(self.g_joblist)"], note="len(self._jobs) (dict size = length of the ghost list view, names being distinct)")
contract("JobManagerBase.get_num_jobs", kind="assumed", pure=True, reads=["JobManagerBase", "JobConfiguration"], params=[("self", "Ref[JobManagerBase]")], returns="int",
         ensures=["result == len(self._config.g_joblist)"], note="delegates to the configuration")
contract("JobConfiguration.get_default_submission_group", kind="assumed", params=[("self", "Ref[JobConfiguration]")], returns="Ref[SubmissionGroup]",
         ensures=["result == uf('default_group', 'Ref[SubmissionGroup]', self)"], note="group of the first job")
for nm in ("setup_command", "teardown_command", "node_setup_command", "node_teardown_command"):
    contract("JobConfiguration." + nm, file="jade/jobs/job_configuration.py", inline=True, params=[("self", "Ref[JobConfiguration]")], returns="Opt[Opaque]")

ghost("log", "List[Opaque]")             # boundary events in order: summary written, lifecycle commands run, completion flag set, ...
ghost("summary_missing", "List[Name]")   # the missing-jobs list written by the last write_results_summary
define("LOGGED", ["k", "tag"], "ghost.log[old(len(ghost.log)) + k] == tag")
define("T_SUMMARY", [], 'typed("event:summary-written", "Opaque")')
define("T_COMPLETE", [], 'typed("event:marked-complete", "Opaque")')
APPEND1 = lambda tag: [f"len(ghost.log) == old(len(ghost.log)) + 1 and ghost.log[old(len(ghost.log))] == {tag}",
                       "forall(i, range(old(len(ghost.log))), ghost.log[i] == old(ghost.log)[i])"]
contract("ResultsAggregator.list_results", kind="assumed", params=[("output_dir", "Opaque")], returns="List[Ref[Result]]", fresh_result=True,
         ensures=["forall(i, range(len(result)), result[i].name in ghost.collected and wf_result(result[i]))",
                  "forall(i, range(len(result)), forall(j, range(i), result[i].name != result[j].name))",       # one row per job (C01/C08)
                  "forall(x, ghost.collected, exists(i, range(len(result)), result[i].name == x))"],
         raises={"Timeout": {}}, note="reads processed_results.csv under its lock (C08): one well-formed row per collected name")
contract("JobSubmitter.write_results_summary", kind="assumed",
         params=[("self", "Ref[JobSubmitter]"), ("filename", "Opaque"), ("missing_jobs", "List[Name]")], returns="Opaque",
         ensures=APPEND1("T_SUMMARY()") + ["ghost.summary_missing == missing_jobs"], modifies=["ghost.log", "ghost.summary_missing"],
         note="writes results.json from _build_results (verified: tallies) and the missing list")
contract("run_command_env", kind="assumed", params=[("cmd", "Opaque"), ("env", "Opt[Dict[Name,Opaque]]", "None")], returns="int",
         ensures=APPEND1("cmd") + ["ghost.last_env == env"], modifies=["ghost.log", "ghost.last_env", "ghost.execs", "ghost.last_ret"],
         note="jade.utils.run_command.run_command(cmd, env=...) (retry contract verified in C18); ghost: the command enters the event log")
contract("check_run_command_env", kind="assumed", params=[("cmd", "Opaque"), ("env", "Opt[Dict[Name,Opaque]]", "None")],
         ensures=APPEND1("cmd") + ["ghost.last_env == env"], raises={"ExecutionError": {"ensures": APPEND1("cmd")}},
         modifies=["ghost.log", "ghost.last_env", "ghost.execs", "ghost.last_ret"], note="check_run_command: run_command raising ExecutionError on a non-zero status")
ghost("last_env", "Opt[Dict[Name,Opaque]]")
contract("JobSubmitter._log_error_log_messages", kind="assumed", params=[("directory", "Opaque")], note="scans *.e files, logs events")
contract("JobSubmitter.generate_reports", kind="assumed", params=[("directory", "Opaque"), ("resource_monitor_type", "Enum[ResourceMonitorType]")], returns="int",
         note="runs the jade report commands; failures are only logged")
opaque_global("RESULTS_FILE", "EVENT_CATEGORY_RESOURCE_UTIL", "EVENT_NAME_BYTES_CONSUMED", "EVENT_NAME_SUBMIT_COMPLETED")
opaque_fn("get_directory_size_bytes", "os.path.dirname")

# Cluster.mark_complete also enters the event log (ghost bookkeeping on the verified contract)
_mc2 = contract.__globals__["CONTRACTS"]["Cluster.mark_complete"]
_mc2.ghost_ensures += APPEND1("T_COMPLETE()")
_mc2.modifies.append("ghost.log")
_mc2.defs.update({})

define("HC_N", ["s"], "len(s._config.g_joblist)")
define("ALLNAMES", ["s"], "nameset(s._config.g_joblist)")
HANDLE_OK = "not ghost.cluster_lock and Inv_handle(cluster) and cluster.g_promoted"
# after an exception the handle may be out of sync with the disk (a write failed half way), but it is still THE promoted handle and holds no lock
HANDLE_EXC = "not ghost.cluster_lock and cluster.g_promoted and cluster._config.submitter == cluster._hostname and paths_distinct(cluster)"
contract("JobSubmitter._handle_completion", file=F,
         params=[("self", "Ref[JobSubmitter]"), ("cluster", "Ref[Cluster]")], returns="Enum[Status]",
         locals={"missing_jobs": "List[Name]", "env": "Dict[Name,Opaque]"},
         call_alias={"run_command": "run_command_env"},
         requires=["Inv_cfg(self._config)", "ghost.universe == ALLNAMES(self) and subset(ghost.collected, ghost.universe)",     # results only for configured jobs (E-res)
                   "not ghost.cluster_lock", "Inv_handle(cluster)", "cluster.g_promoted",
                   "not cluster._config.is_complete"],                                        # C05: completion happens once
         ensures=[
             "card_subset_hint(nameset(self._results), ALLNAMES(self))",      # finite-set hint: a subset of equal size is the whole set
             # C03/C12: the missing list is exactly the configured jobs without a result; no job is dropped, none invented
             "forall(x, Name, (x in nameset_of_names(ghost.summary_missing)) == (x in ALLNAMES(self) and x not in ghost.collected))" if False else
             "forall(i, range(len(ghost.summary_missing)), ghost.summary_missing[i] in ALLNAMES(self) and ghost.summary_missing[i] not in ghost.collected)",
             "forall(x, ALLNAMES(self), x in ghost.collected or exists(i, range(len(ghost.summary_missing)), ghost.summary_missing[i] == x))",
             "forall(i, range(len(ghost.summary_missing)), forall(j, range(i), ghost.summary_missing[i] != ghost.summary_missing[j]))",
             "(result == Status.GOOD) == (len(ghost.summary_missing) == 0)",
             # C05/C16: summary, then the teardown command (iff configured, whatever the results), then the completion flag, then the pipeline trigger
             "LOGGED(0, T_SUMMARY())",
             "implies(not isnone(self._config._teardown_command), LOGGED(1, val(self._config._teardown_command)) and LOGGED(2, T_COMPLETE()))",
             "implies(isnone(self._config._teardown_command), LOGGED(1, T_COMPLETE()))",
             "len(ghost.log) == old(len(ghost.log)) + 2 + (0 if isnone(self._config._teardown_command) else 1) "
             "+ (0 if isnone(cluster._config.pipeline_stage_num) else 1)",
             "cluster._config.is_complete and cfg_mirrored(cluster)",
             "forall(i, range(old(len(ghost.log))), ghost.log[i] == old(ghost.log)[i])",
             HANDLE_OK,
         ],
         # whatever happens, the caller still holds a well-formed promoted handle and no lock: it can (and must) give the role back
         raises={"Timeout": {"ensures": [HANDLE_EXC], "frame": False}, "ConfigVersionMismatch": {"ensures": [HANDLE_EXC], "frame": False}},
         modifies=["self._results", "ghost.log", "ghost.summary_missing", "ghost.last_env", "ghost.execs", "ghost.last_ret",
                   "Result.name", "Result.return_code", "Result.status", "Result.exec_time_s", "Result.completion_time", "Result.hpc_job_id"]
                  + [m.replace("self.", "cluster.") for m in _mc2.modifies if m != "ghost.log"])

# ---- submit_jobs: setup once, before anything is handed to the scheduler (C16) ------------------------------------------
ghost("setup_n", "int")               # executions of the configured setup command
ghost("setup_runs_seen", "int")       # value of ghost.runs when the setup command ran
opaque_global("EVENTS_FILENAME", "jade.__version__")
opaque_fn("os.path.exists", "os.path.join")
record("Registry", fields={"g_x": "Opaque"}, check_attrs=False)
contract("Registry.__init__", kind="assumed", params=[], returns="Ref[Registry]", fresh_result=True, modifies=["Registry.g_x"], note="extension registry")
contract("Registry.list_loggers", kind="assumed", pure=True, params=[("self", "Ref[Registry]")], returns="Opaque")
contract("JobSubmitter._save_repository_info", kind="assumed", params=[("self", "Ref[JobSubmitter]"), ("registry", "Ref[Registry]")], note="writes git diff patches")
contract("ResultsAggregator.create", kind="assumed", params=[("output_dir", "Opaque")], returns="Ref[ResultsAggregator]", fresh_result=True,
         modifies=["ResultsAggregator._filename", "ResultsAggregator._lock_file", "ResultsAggregator._timeout", "ResultsAggregator._delimiter", "ResultsAggregator._is_node"],
         note="creates processed_results.csv with its header (C08)")
contract("check_run_command_setup", kind="assumed", params=[("cmd", "Opaque"), ("env", "Dict[Name,Opaque]")],
         ensures=["ghost.setup_n == old(ghost.setup_n) + 1 and ghost.setup_runs_seen == ghost.runs and ghost.last_cmd == cmd and ghost.last_env == env"],
         raises={"ExecutionError": {"ensures": ["ghost.setup_n == old(ghost.setup_n) + 1 and ghost.setup_runs_seen == ghost.runs"]}},
         modifies=["ghost.setup_n", "ghost.setup_runs_seen", "ghost.last_cmd", "ghost.last_env", "ghost.execs", "ghost.last_ret"],
         note="check_run_command(setup_command, env=env): ghost counter of setup executions")
ghost("last_cmd", "Opaque")
contract("JobSubmitter._handle_submission_groups", kind="assumed", params=[("self", "Ref[JobSubmitter]")], note="re-reads submission groups from submitter_groups.json")
from pyvc.spec import CONTRACTS as _C
# ---- the link between the CLI and a submitter round: HpcSubmitter(config, config_file, cluster, output).run() --------------------------------
# What a round needs from the state loaded from disk (established by Cluster.deserialize / Cluster.create and JobSubmitter.load / create):
define("MAXN", ["cl"], "(9223372036854775807 if isnone(cl._config.submission_groups[0].submitter_params.max_nodes) "
                       "else val(cl._config.submission_groups[0].submitter_params.max_nodes))")
ghost("time_based", "bool")        # some submission group of this submission batches by time (configuration domain, fixed at submission time)
# ... from the persisted status (Cluster.deserialize / Cluster.create): the invariants every verified writer maintains (C09 J, C06 carry-over) and the
# group-parameter domain checked when the submission was created (C07/C17)
define("CLUSTER_READY", ["cl"], """(
    not isnone(cl._job_status) and J_REST(cl) and len(cl._config.submission_groups) >= 1
    and len(val(cl._job_status).hpc_job_ids) <= MAXN(cl)
    and forall(g, cl._config.submission_groups, implies(not g.submitter_params.time_based_batching, g.submitter_params.per_node_batch_size >= 1)
        and implies(g.submitter_params.time_based_batching, not isnone(g.submitter_params.num_parallel_processes_per_node)
                    and val(g.submitter_params.num_parallel_processes_per_node) >= 0))
    and forall(g, cl._config.submission_groups, implies(g.submitter_params.time_based_batching, ghost.time_based))
    and forall(a, range(len(cl._config.submission_groups)), forall(b, range(a), cl._config.submission_groups[a].name != cl._config.submission_groups[b].name))
    and subset(nameset(val(cl._job_status).jobs), ghost.universe))""")
# ... from the configuration (JobSubmitter.load / create): every job of the submission is configured; estimates exist where time-based batching needs them
define("CONFIG_READY", ["s"], """(
    forall(x, ghost.universe, known(s, x))
    and implies(ghost.time_based, forall(x, ghost.universe, not isnone(cfgjob(s, x).estimated_run_minutes) and val(cfgjob(s, x).estimated_run_minutes) >= 0)))""")
define("ROUND_READY", ["s", "cl"], "CLUSTER_READY(cl) and CONFIG_READY(s)")      # plus J_COUNTS(cl), stated as a clause of its own
contract("HpcSubmitter.__init__", kind="assumed", fresh_result=True,
         params=[("config", "Ref[JobConfiguration]"), ("config_file", "Opaque"), ("cluster", "Ref[Cluster]"), ("output", "Opaque")], returns="Ref[HpcSubmitter]",
         requires=["not isnone(cluster._job_status)", "len(cluster._config.submission_groups) >= 1"],
         ensures=["result._config == config and result._config_file == config_file and result._cluster == cluster and result._output == output",
                  "result._batch_index == val(cluster._job_status).batch_index",
                  "result._max_nodes == MAXN(cluster)",
                  "result._poll_interval == cluster._config.submission_groups[0].submitter_params.poll_interval"],
         modifies=["HpcSubmitter._config", "HpcSubmitter._cluster", "HpcSubmitter._batch_index", "HpcSubmitter._config_file", "HpcSubmitter._base_config",
                   "HpcSubmitter._hpc_mgr", "HpcSubmitter._output", "HpcSubmitter._max_nodes", "HpcSubmitter._poll_interval", "HpcSubmitter._status_collector",
                   "HpcSubmitter._submission_groups", "HpcManager._output", "HpcManager._hpc_type", "HpcManager._configs", "HpcManager._intfs",
                   "HpcStatusCollector._hpc_mgr", "HpcStatusCollector._poll_interval", "HpcStatusCollector._last_poll_time", "HpcStatusCollector._statuses"],
         note="constructor: field assignments; the first group of make_submission_group_lookup(cluster.config.submission_groups) is the first listed group "
              "(dict insertion order); HpcManager / HpcStatusCollector construction")
def _run_mods():
    out = []
    for m in _C["HpcSubmitter.run"].modifies:
        if m.startswith("self._cluster."):
            out.append("cluster." + m[len("self._cluster."):])
        elif m.startswith("self."):
            out.append("HpcSubmitter." + m[len("self."):])
        else:
            out.append(m)
    return out
contract("JobSubmitter._submit_to_hpc", file=F,
         params=[("self", "Ref[JobSubmitter]"), ("cluster", "Ref[Cluster]")], returns="bool",
         requires=["not ghost.cluster_lock", "Inv_handle(cluster)", "cluster.g_promoted", "ROUND_READY(self, cluster)", "J_COUNTS(cluster)", "not cluster._config.is_complete"],
         ensures=["ghost.runs >= old(ghost.runs)", "ghost.log == old(ghost.log) and ghost.setup_n == old(ghost.setup_n)", "not ghost.cluster_lock",
                  "implies(old(subset(ghost.collected, ghost.universe)), subset(ghost.collected, ghost.universe))",      # E-res
                  "Inv_handle(cluster) and cluster.g_promoted", "implies(result, not cluster._config.is_complete)",
                  "cluster._config.pipeline_stage_num == old(cluster._config.pipeline_stage_num)"],
         raises={"Exception": {"ensures": ["ghost.log == old(ghost.log) and ghost.setup_n == old(ghost.setup_n)", HANDLE_EXC], "frame": False}},
         modifies=sorted(set(_run_mods() + list(_C["HpcSubmitter.__init__"].modifies))))
record("JobRunner", file="jade/jobs/job_runner.py", bases=["JobManagerBase"], fields={
    "_intf": "Ref[HpcIntf]", "_node_id": "Opaque", "_intf_type": "Enum[HpcType]", "_batch_id": "Opaque", "_event_filename": "Opaque", "_event_logger": "Opt[Opaque]"})
contract("JobRunner.__init__", kind="assumed", params=[("config", "Ref[JobConfiguration]"), ("output", "Opaque"), ("batch_id", "Opaque", "0")], returns="Ref[JobRunner]",
         fresh_result=True, ensures=["result._config == config and result._output == output",
                                     "unchanged(JobManagerBase._config, result) and unchanged(JobManagerBase._output, result)"],
         modifies=["JobRunner._intf", "JobRunner._node_id", "JobRunner._intf_type", "JobRunner._batch_id", "JobRunner._event_filename", "JobRunner._event_logger",
                   "JobManagerBase._config", "JobManagerBase._config_file", "JobManagerBase._output", "JobManagerBase._jobs_output", "JobManagerBase._results"],
         note="node-level runner constructor")
contract("JobRunner.run_jobs", kind="assumed",
         params=[("self", "Ref[JobRunner]"), ("distributed_submitter", "bool", "True"), ("verbose", "bool", "False"), ("num_parallel_processes_per_node", "Opt[int]", "None")],
         returns="Enum[Status]", ensures=["ghost.setup_n == old(ghost.setup_n)",
                                          # E-res: a runner writes results only for the jobs of its configuration
                                          "implies(old(subset(ghost.collected, ghost.universe)), subset(ghost.collected, ghost.universe))"],
         modifies=["ghost.runs", "ghost.log", "ghost.collected", "ghost.collected_failed", "ghost.execs", "ghost.last_ret", "ghost.last_env", "ghost.popens", "ghost.rows"],
         note="local mode: runs the jobs on this machine (JobRunner.run_jobs is verified separately for the node lifecycle, C16)")

contract("JobSubmitter.submit_jobs", file=F,
         params=[("self", "Ref[JobSubmitter]"), ("cluster", "Ref[Cluster]"), ("force_local", "bool", "False")], returns="Enum[Status]",
         locals={"env": "Dict[Name,Opaque]"},
         call_alias={"check_run_command": "check_run_command_setup", "run_command": "run_command_env"},
         requires=_C["JobSubmitter._handle_completion"].requires if False else
                  ["Inv_cfg(self._config)", "ghost.universe == ALLNAMES(self) and subset(ghost.collected, ghost.universe)", "not ghost.cluster_lock", "Inv_handle(cluster)", "cluster.g_promoted",
                   "not cluster._config.is_complete",
                   # what a submitter round needs from the loaded state (see ROUND_READY); established by Cluster.deserialize/create and JobSubmitter.load/create
                   "ROUND_READY(self, cluster)", "J_COUNTS(cluster)"],
         ensures=[
             # C16: the setup command runs exactly when this is a new submission that configures one - once, with the documented variable, and
             # before any batch is handed to the scheduler
             "ghost.setup_n == old(ghost.setup_n) + (1 if (self._is_new and not isnone(self._config._setup_command)) else 0)",
             "implies(self._is_new and not isnone(self._config._setup_command), ghost.setup_runs_seen == old(ghost.runs))",
             "implies(self._is_new and not isnone(self._config._setup_command), ghost.last_setup_env_ok)" if False else "True",
             # C05: the submission is completed (summary, teardown, flag) only through _handle_completion, at most once per call
             "implies(result == Status.IN_PROGRESS, ghost.log == old(ghost.log) or self._hpc_is_local())" if False else "True",
             HANDLE_OK,        # C10: the caller still holds a well-formed promoted handle and no lock - it can give the role back
         ],
         raises={"ExecutionError": {"ensures": ["ghost.runs == old(ghost.runs) or not (self._is_new and not isnone(self._config._setup_command)) or ghost.setup_runs_seen == old(ghost.runs)",
                                                HANDLE_EXC], "frame": False},
                 "Exception": {"ensures": [HANDLE_EXC], "frame": False},
                 "Timeout": {"ensures": [HANDLE_EXC], "frame": False}, "ConfigVersionMismatch": {"ensures": [HANDLE_EXC], "frame": False}},
         modifies=["self._hpc", "self._results"] + [m for m in _C["JobSubmitter._submit_to_hpc"].modifies] + [m for m in _C["JobSubmitter._handle_completion"].modifies if not m.startswith("self.")]
                  + ["ghost.setup_n", "ghost.setup_runs_seen", "ghost.last_cmd", "ghost.runs", "ghost.collected", "ghost.collected_failed", "ghost.files", "ghost.vfiles",
                     "ghost.file_writes", "ghost.fs", "ghost.sbatch_n", "ghost.popens", "ghost.rows", "Job.state", "Job.blocked_by", "JobStatus.hpc_job_ids",
                     "JobStatus.batch_index", "JobStatus.version", "ClusterConfig.submitted_jobs", "ClusterConfig.completed_jobs", "Registry.g_x",
                     "HpcManager._output", "HpcManager._hpc_type", "HpcManager._configs", "HpcManager._intfs",
                     "ResultsAggregator._filename", "ResultsAggregator._lock_file", "ResultsAggregator._timeout", "ResultsAggregator._delimiter", "ResultsAggregator._is_node",
                     "JobRunner._intf", "JobRunner._node_id", "JobRunner._intf_type", "JobRunner._batch_id", "JobRunner._event_filename", "JobRunner._event_logger",
                     "JobManagerBase._config", "JobManagerBase._config_file", "JobManagerBase._output", "JobManagerBase._jobs_output", "JobManagerBase._results",
                     "cluster._job_status_hash", "cluster._config_hash"])
