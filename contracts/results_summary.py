"""Contracts for jade/result.py ResultsSummary: classification by type and missing jobs (C13 selection by flags; C03/C20 tallies).

Abstract view of the record: `self._results` is the parsed results.json - a JSON object with several keys; only the key "results"
(name -> Result, built by deserialize_results keyed by each row's own name) is read by the functions under contract, so the field
is typed as Dict[Name, Dict[Name, Result]] (what is stated about other keys: nothing).
"""
from pyvc.spec import record, contract, define

F = "jade/result.py"
FIN = "JobCompletionStatus.FINISHED.value"
CAN = "JobCompletionStatus.CANCELED.value"

record("ResultsSummary", file=F, fields={
    "_results": "Dict[Name,Dict[Name,Ref[Result]]]",
    "_output_dir": "Opaque",
    "_results_file": "Opaque",
    "_missing_jobs": "Opaque",
    "_base_directory": "Opaque",
})

# the list built by _get_jobs_to_resubmit mixes Result rows and Job records; only `.name` is read from its elements
record("NamedObj", union=["Result", "Job"], check_attrs=False)

define("RS_RES", ["s"], "s._results['results']")
define("RS_WF", ["s"], "'results' in s._results")
define("R_SUCC", ["r"], f"(r.return_code == 0 and r.status == {FIN})")
define("R_FAIL", ["r"], f"(r.return_code != 0 and r.status == {FIN})")
define("R_CANC", ["r"], f"(r.return_code != 0 and r.status == {CAN})")

contract("ResultsSummary.get_result", file=F, params=[("self", "Ref[ResultsSummary]"), ("job_name", "Name")], returns="Opt[Ref[Result]]",
         requires=["RS_WF(self)"],
         ensures=["isnone(result) == (job_name not in RS_RES(self))",
                  "implies(job_name in RS_RES(self), val(result) == RS_RES(self)[job_name])"])

# every element of L is a stored result of class P, and every stored result of class P is an element of L
_BYTYPE = ("forall(k, range(len({L})), exists(x, keys(RS_RES(self)), RS_RES(self)[x] == {L}[k]) and {P}({L}[k]))"
           " and forall(x, {DOM}, implies({P}(RS_RES(self)[x]), exists(k, range(len({L})), {L}[k] == RS_RES(self)[x])))")
_UNTOUCHED = "unchanged(Result.return_code) and unchanged(Result.status) and unchanged(Result.name) and self._results == old(self._results)"
contract("ResultsSummary.get_results_by_type", file=F, params=[("self", "Ref[ResultsSummary]")], returns="Dict[Name,List[Ref[Result]]]",
         fresh_result=True,
         locals={"successful": "List[Ref[Result]]", "failed": "List[Ref[Result]]", "canceled": "List[Ref[Result]]"},
         requires=["RS_WF(self)"],
         loops={1: {"invariant": [
             _BYTYPE.format(L="successful", P="R_SUCC", DOM="_seen1"),
             _BYTYPE.format(L="failed", P="R_FAIL", DOM="_seen1"),
             _BYTYPE.format(L="canceled", P="R_CANC", DOM="_seen1"),
             "subset(_seen1, keys(RS_RES(self)))",
         ]}},
         ensures=["'successful' in result and 'failed' in result and 'canceled' in result",
                  _BYTYPE.format(L="result['successful']", P="R_SUCC", DOM="keys(RS_RES(self))"),
                  _BYTYPE.format(L="result['failed']", P="R_FAIL", DOM="keys(RS_RES(self))"),
                  _BYTYPE.format(L="result['canceled']", P="R_CANC", DOM="keys(RS_RES(self))"),
                  _UNTOUCHED])

contract("ResultsSummary.get_missing_jobs", file=F, params=[("self", "Ref[ResultsSummary]"), ("expected_jobs", "List[Ref[Job]]")],
         returns="List[Ref[Job]]", fresh_result=True,
         locals={"missing_jobs": "List[Ref[Job]]"},
         requires=["RS_WF(self)"],
         loops={1: {"invariant": [
             # sound and complete over the jobs visited so far, in the order of the expected list
             "forall(k, range(len(missing_jobs)), missing_jobs[k].name not in RS_RES(self) and exists(m, range(_k1), _it1[m] == missing_jobs[k]))",
             "forall(m, range(_k1), implies(_it1[m].name not in RS_RES(self), exists(k, range(len(missing_jobs)), missing_jobs[k] == _it1[m])))",
             "_it1 == expected_jobs",
         ]}},
         ensures=["forall(k, range(len(result)), result[k].name not in RS_RES(self) and exists(m, range(len(expected_jobs)), expected_jobs[m] == result[k]))",
                  "forall(m, range(len(expected_jobs)), implies(expected_jobs[m].name not in RS_RES(self), exists(k, range(len(result)), result[k] == expected_jobs[m])))",
                  "unchanged(Job.name) and unchanged(Job.state) and unchanged(Job.blocked_by) and self._results == old(self._results)"])

# ---- resubmit-jobs: selection by flags (C13) ----------------------------------------------------------------------------------
FRS = "jade/cli/resubmit_jobs.py"
contract("ResultsSummary.__init__", kind="assumed", params=[("output_dir", "Opaque")], returns="Ref[ResultsSummary]", fresh_result=True,
         ensures=["RS_WF(result)", "RS_RES(result) == uf('results_of', 'Dict[Name,Ref[Result]]', output_dir)",
                  # deserialize_results keys every row by its own name
                  "forall(x, keys(RS_RES(result)), RS_RES(result)[x].name == x)"],
         raises={"InvalidConfiguration": {"frame": True}},
         note="parses <output>/results.json (json + deserialize_results: a dict keyed by each row's name); raises when the file is missing")

# ---- single-result accessors (C03: classification of a job is read back from the summary) ---------------------------------------
contract("ResultsSummary.get_successful_result", file=F, params=[("self", "Ref[ResultsSummary]"), ("job_name", "Name")], returns="Ref[Result]",
         requires=["RS_WF(self)"],
         ensures=["job_name in RS_RES(self) and result == RS_RES(self)[job_name] and R_SUCC(result)"],
         raises={"InvalidParameter": {"when": ["job_name not in RS_RES(self)"], "iff": True, "frame": True},
                 "ExecutionError": {"when": ["job_name in RS_RES(self) and not R_SUCC(RS_RES(self)[job_name])"], "iff": True, "frame": True}})
# filtered comprehensions over the stored rows: the classifier calls inside the comprehension are applied through the (verified, pure,
# total) contracts of Result.is_*, generalised over the bound element
_ONE_CLASS = ("forall(k, range(len(result)), exists(x, keys(RS_RES(self)), RS_RES(self)[x] == result[k]) and {P}(result[k]))"
              " and forall(x, keys(RS_RES(self)), implies({P}(RS_RES(self)[x]), exists(k, range(len(result)), result[k] == RS_RES(self)[x])))")
for _fn, _p in (("get_successful_results", "R_SUCC"), ("get_failed_results", "R_FAIL"), ("get_canceled_results", "R_CANC")):
    contract("ResultsSummary." + _fn, file=F, params=[("self", "Ref[ResultsSummary]")], returns="List[Ref[Result]]", fresh_result=True,
             requires=["RS_WF(self)"], ensures=[_ONE_CLASS.format(P=_p), _UNTOUCHED])
