"""Contracts for jade/hpc/slurm_manager.py (C18): script text, status table, submit parse."""
import ast as _ast
from pyvc.spec import record, contract, define, ghost, opaque_fn
from pyvc import frontend as _F, values as _V, ty as _T

F = "jade/hpc/slurm_manager.py"
OPT_PARAMS = ("gres", "mem", "nodes", "ntasks", "ntasks_per_node", "partition", "qos", "tmp", "reservation")

record("SlurmConfigText", file="jade/models/hpc.py", cls="SlurmConfig", pydantic=True, fields={
    "account": "Str", "walltime": "Str", "partition": "Opt[Str]", "reservation": "Opt[Str]", "qos": "Opt[Str]", "gres": "Opt[Str]",
    "mem": "Opt[Str]", "tmp": "Opt[Str]", "nodes": "Opt[int]", "ntasks": "Opt[int]", "ntasks_per_node": "Opt[int]"})
record("HpcConfigText", file="jade/models/hpc.py", cls="HpcConfig", pydantic=True, fields={"hpc": "Ref[SlurmConfigText]"})


def _statuses_table():
    """SlurmManager._STATUSES read from the real class body: Dict[Name, Enum[HpcJobStatus]]."""
    node = _F.class_constant(F, "SlurmManager", "_STATUSES")
    if not isinstance(node, _ast.Dict):
        raise _V.UnsupportedError("SlurmManager._STATUSES is not a dict display")
    d = _V.empty_dict(_T.NAME, _T.Enum("HpcJobStatus"))
    for k, v in zip(node.keys, node.values):
        if not (isinstance(k, _ast.Constant) and isinstance(k.value, str) and isinstance(v, _ast.Attribute)
                and isinstance(v.value, _ast.Name) and v.value.id == "HpcJobStatus"):
            raise _V.UnsupportedError("SlurmManager._STATUSES entry is not `\"TEXT\": HpcJobStatus.X`")
        d = _V.dict_set(d, _V.name_const(k.value), _V.enum_const("HpcJobStatus", v.attr))
    return d


record("SlurmManager", file=F, bases=[], fields={"_config": "Ref[HpcConfigText]"}, consts={"_STATUSES": _statuses_table},
       extra_attrs={"USER"})

# ---- submission script text (string theory) -----------------------------------------------------------------
def _spec_lines():
    out = ['"#!/bin/bash"', '"#SBATCH --account=" + self._config.hpc.account', '"#SBATCH --job-name=" + name',
           '"#SBATCH --time=" + self._config.hpc.walltime', '"#SBATCH --output=" + path + "/job_output_%j.o"',
           '"#SBATCH --error=" + path + "/job_output_%j.e"']
    return out


# spec function written from the property, not from the code: the exact list of lines
HEAD = _spec_lines()
clauses = [f"result[{i}] == {t}" for i, t in enumerate(HEAD)]
# the optional lines appear in the fixed order, each iff its parameter is set, with its value
opt_count = " + ".join(f"(0 if isnone(self._config.hpc.{p}) else 1)" for p in OPT_PARAMS)
clauses.append(f"len(result) == {len(HEAD)} + ({opt_count}) + 2")
for idx, p in enumerate(OPT_PARAMS):
    before = " + ".join([f"(0 if isnone(self._config.hpc.{q}) else 1)" for q in OPT_PARAMS[:idx]]) or "0"
    clauses.append(f'implies(not isnone(self._config.hpc.{p}), result[{len(HEAD)} + {before}] == "#SBATCH --{p}=" + str(val(self._config.hpc.{p})))')
clauses.append('result[len(result) - 2] == ""')
clauses.append('result[len(result) - 1] == "srun " + script')
contract("SlurmManager._create_submission_script_text", file=F, strings="text",
         params=[("self", "Ref[SlurmManager]"), ("name", "Str"), ("script", "Str"), ("path", "Str")], returns="List[Str]",
         locals={"lines": "List[Str]"}, ensures=clauses)

# ---- status parsing (conservative) ----------------------------------------------------------------------------
# tokenisation of squeue text (str.split / str.strip) is an assumed library contract; bounded CrossHair-style checks in the native harness
contract("Opaque.split", kind="assumed", params=[("self", "Opaque"), ("sep", "Opt[Opaque]", "None")], returns="List[Opaque]",
         ensures=["result == uf('split', 'List[Opaque]', self, sep)"], note="str.split (library)")
contract("Opaque.strip", kind="assumed", params=[("self", "Opaque")], returns="Opaque",
         ensures=["result == uf('strip', 'Opaque', self)"], note="str.strip (library)")

define("COMPLETE_TEXT", ["s"], 's == typed("COMPLETED", "Name") or s == typed("COMPLETING", "Name")')
contract("SlurmManager._get_statuses_from_output", file=F,
         params=[("output", "Opaque")], returns="Dict[Name,Enum[HpcJobStatus]]",
         locals={"statuses": "Dict[Name,Enum[HpcJobStatus]]", "fields": "List[Opaque]"},
         ensures=[
             # C18: an id is reported COMPLETE only if some squeue line carries that id with state COMPLETED / COMPLETING,
             # and never NONE (NONE is reserved for "not listed"); any other state text maps to a not-complete status
             "forall(j, result, result[j] != HpcJobStatus.NONE)",
             "forall(j, result, implies(result[j] == HpcJobStatus.COMPLETE, exists(i, range(len(LINES())), LINE_OK(i, j))))",
         ],
         defs={
             "LINES": ([], "uf('split', 'List[Opaque]', output, typed('\\n', 'Opt[Opaque]'))"),
             "TOK": (["i"], "uf('split', 'List[Opaque]', uf('strip', 'Opaque', LINES()[i]), typed(None, 'Opt[Opaque]'))"),
             "LINE_OK": (["i", "j"], "len(TOK(i)) == 2 and typed(TOK(i)[0], 'Name') == j and COMPLETE_TEXT(typed(TOK(i)[1], 'Name'))"),
         },
         loops={1: {"invariant": [
             "forall(j, statuses, statuses[j] != HpcJobStatus.NONE)",
             "forall(j, statuses, implies(statuses[j] == HpcJobStatus.COMPLETE, exists(i, range(_k1), _it1[i] == LINES()[i] and LINE_OK(i, j))))",
             "forall(i, range(len(_it1)), _it1[i] == LINES()[i]) and len(_it1) == len(LINES())",
         ]}},
         raises={"AssertionError": {"ensures": []}})

# ---- sbatch / squeue / scancel -----------------------------------------------------------------------------------
from pyvc import values as _VV
from pyvc.spec import RECORDS as _R
_R["SlurmManager"].consts["USER"] = lambda: _VV.opaque_const("const:USER")
_R["SlurmManager"].consts["_REGEX_SBATCH_OUTPUT"] = lambda: _VV.opaque_const("const:REGEX_SBATCH")
record("ReMatch", fields={"g_text": "Opaque"}, check_attrs=False)
contract("Opaque.search", kind="assumed", params=[("self", "Opaque"), ("text", "Opaque")], returns="Opt[Ref[ReMatch]]",
         ensures=["isnone(result) == (not uf('re_search', 'bool', self, text))"],
         note="re.Pattern.search (library): a match object (always truthy) or None")
contract("ReMatch.group", kind="assumed", params=[("self", "Ref[ReMatch]"), ("n", "int")], returns="Opaque", note="re.Match.group (library)")

define("SBATCH_OK", ["out"], "uf('re_search', 'bool', typed('const:REGEX_SBATCH', 'Opaque'), out[typed('stdout', 'Name')])")
contract("SlurmManager.submit", file=F,
         params=[("self", "Ref[SlurmManager]"), ("filename", "Opaque")], returns="Tuple[Enum[Status],Opt[Name],Opaque]",
         locals={"output": "Dict[Name,Opaque]", "job_id": "Opt[Name]"},
         ensures=[
             # C18: GOOD only for exit status 0 AND a response matching 'Submitted batch job <digits>'; then the id is that group
             "(result[0] == Status.GOOD) == (ghost.last_ret == 0 and uf('re_search', 'bool', typed('const:REGEX_SBATCH', 'Opaque'), output[typed('stdout', 'Name')]))",
             "implies(result[0] != Status.GOOD, result[0] == Status.ERROR and isnone(result[1]))",      # unparsable response = failed submission
             "implies(result[0] == Status.GOOD, not isnone(result[1]))",
             "ghost.execs - old(ghost.execs) >= 1 and ghost.execs - old(ghost.execs) <= 7",         # 6 retries
         ],
         modifies=["ghost.execs", "ghost.last_ret"])

contract("SlurmManager.cancel_job", file=F,
         params=[("self", "Ref[SlurmManager]"), ("job_id", "Name")], returns="int",
         ensures=["ghost.execs - old(ghost.execs) == 1", "result == ghost.last_ret"],
         modifies=["ghost.execs", "ghost.last_ret"])

contract("SlurmManager.check_statuses", file=F,
         params=[("self", "Ref[SlurmManager]")], returns="Dict[Name,Enum[HpcJobStatus]]",
         locals={"output": "Dict[Name,Opaque]"},
         ensures=[
             # C18: a normal return means the final squeue execution succeeded - a failing status query never degrades to "nothing listed"
             "ghost.last_ret == 0",
             "forall(j, result, result[j] != HpcJobStatus.NONE)",
             "ghost.execs - old(ghost.execs) >= 1 and ghost.execs - old(ghost.execs) <= 7",
         ],
         raises={"ExecutionError": {"when": [], "ensures": ["ghost.last_ret != 0", "ghost.execs - old(ghost.execs) == 7"]},
                 "AssertionError": {"ensures": ["ghost.last_ret == 0"]}},
         modifies=["ghost.execs", "ghost.last_ret"])

# ---- run script text (HpcSubmitter._create_run_script, text view of the same classes) ---------------------------------
record("HpcSubmitterT", file="jade/hpc/hpc_submitter.py", cls="HpcSubmitter", fields={"_output": "Str"})
record("SubmissionGroupT", file="jade/models/submission_group.py", cls="SubmissionGroup", pydantic=True,
       fields={"name": "Str", "submitter_params": "Ref[SubmitterParamsT]"})
record("SubmitterParamsT", file="jade/models/submitter_params.py", cls="SubmitterParams", pydantic=True, fields={
    "singularity_params": "Opt[Ref[SingularityParamsT]]", "distributed_submitter": "bool",
    "num_parallel_processes_per_node": "Opt[int]", "verbose": "bool"})
record("SingularityParamsT", file="jade/models/singularity.py", cls="SingularityParams", pydantic=True,
       fields={"enabled": "bool", "setup_commands": "Str"})
contract("Str.split", kind="assumed", params=[("self", "Str"), ("sep", "Str")], returns="List[Str]", note="str.split (library)")
contract("Str.join", kind="assumed", params=[("self", "Str"), ("parts", "List[Str]")], returns="Str",
         ensures=["result == uf('join', 'Str', self, parts)"], note="str.join (library)")
ghost("script_text", "Str")
ghost("script_file", "Str")
contract("create_script_text", kind="assumed", params=[("filename", "Str"), ("text", "Str")],
         ensures=["ghost.script_text == text and ghost.script_file == filename"], modifies=["ghost.script_text", "ghost.script_file"],
         note="jade.utils.utils.create_script (text view)")
P_ = "submission_group.submitter_params"
contract("HpcSubmitterT._create_run_script", file="jade/hpc/hpc_submitter.py", qualname="HpcSubmitter._create_run_script", strings="text",
         params=[("self", "Ref[HpcSubmitterT]"), ("config_file", "Str"), ("filename", "Str"), ("submission_group", "Ref[SubmissionGroupT]")],
         locals={"text": "List[Str]", "command": "Str", "dsub": "Str"}, call_alias={"create_script": "create_script_text"},
         exit_ensures=[
             # C18/C07: the run script runs the batch's config with the GROUP's options (clauses over `command` and `text` at exit)
             f'command == "jade-internal run-jobs " + config_file + " --output=" + self._output + " " '
             f'+ ("--distributed-submitter" if {P_}.distributed_submitter else "--no-distributed-submitter") '
             f'+ ("" if isnone({P_}.num_parallel_processes_per_node) else " --num-parallel-processes-per-node=" + str(val({P_}.num_parallel_processes_per_node))) '
             f'+ (" --verbose" if {P_}.verbose else "")',
             'text[0] == "#!/bin/bash" and text[len(text) - 1] == command',
             f'implies(isnone({P_}.singularity_params) or not val({P_}.singularity_params).enabled, len(text) == 2)',
             'ghost.script_file == filename and ghost.script_text == uf("join", "Str", "\\n", text) + "\\n"',
         ],
         modifies=["ghost.script_text", "ghost.script_file"])

# ---- HpcManager.submit: the batch is submitted through ITS group's interface (C07/C18) --------------------------------
record("HpcIntf", file="jade/hpc/hpc_manager_interface.py", cls="HpcManagerInterface", check_attrs=False, fields={"g_id": "Opaque"})
record("HpcManagerV", file="jade/hpc/hpc_manager.py", cls="HpcManager", fields={
    "_output": "Opaque", "_configs": "Opaque", "_intfs": "Dict[Name,Ref[HpcIntf]]", "_hpc_type": "Opt[Enum[HpcType]]"})
ghost("script_by", "Ref[HpcIntf]")       # interface object that wrote the last submission script
ghost("script_args", "Tuple[Opaque,Opaque,Opaque,Opaque]")
ghost("submit_by", "Ref[HpcIntf]")       # interface object that ran the last sbatch
ghost("submit_file", "Opaque")
contract("HpcIntf.check_storage_configuration", kind="assumed", params=[("self", "Ref[HpcIntf]")], note="no-op for SLURM")
contract("HpcIntf.create_submission_script", kind="assumed",
         params=[("self", "Ref[HpcIntf]"), ("name", "Opaque"), ("script", "Opaque"), ("filename", "Opaque"), ("path", "Opaque")],
         ensures=["ghost.script_by == self and ghost.script_args == (name, script, filename, path)"], modifies=["ghost.script_by", "ghost.script_args"],
         note="SlurmManager.create_submission_script = _create_submission_script_text (verified above) written to `filename`")
contract("HpcIntf.submit", kind="assumed", params=[("self", "Ref[HpcIntf]"), ("filename", "Opaque")], returns="Tuple[Enum[Status],Opt[Name],Opaque]",
         ensures=["ghost.submit_by == self and ghost.submit_file == filename and ghost.sbatch_n == old(ghost.sbatch_n) + 1"],
         modifies=["ghost.submit_by", "ghost.submit_file", "ghost.sbatch_n"], note="SlurmManager.submit (verified above)")
contract("HpcManagerV._wait_for_completion", kind="assumed", params=[("self", "Ref[HpcManagerV]"), ("job_id", "Opt[Name]")], note="polling loop (wait=True is not used by the submitter)")
contract("HpcManagerV._get_interface", file="jade/hpc/hpc_manager.py", qualname="HpcManager._get_interface",
         params=[("self", "Ref[HpcManagerV]"), ("submission_group_name", "Opt[Name]", "None")], returns="Ref[HpcIntf]",
         requires=["implies(not isnone(submission_group_name), val(submission_group_name) in self._intfs)", "not empty(self._intfs)"],
         ensures=["implies(not isnone(submission_group_name), result == self._intfs[val(submission_group_name)])",
                  "exists(k, self._intfs, self._intfs[k] == result)"])
contract("HpcManagerV.submit", file="jade/hpc/hpc_manager.py", qualname="HpcManager.submit",
         params=[("self", "Ref[HpcManagerV]"), ("directory", "Opaque"), ("name", "Opaque"), ("script", "Opaque"), ("submission_group_name", "Name"),
                 ("wait", "bool", "False"), ("keep_submission_script", "bool", "True"), ("dry_run", "bool", "False")],
         returns="Tuple[Opaque,Enum[Status]]",
         requires=["submission_group_name in self._intfs"],
         ensures=[
             # C07/C18: the script is written, and the batch submitted, through the interface built from THIS group's HPC config
             "ghost.script_by == self._intfs[submission_group_name]",
             "ghost.script_args[0] == name and ghost.script_args[1] == script and ghost.script_args[3] == self._output",
             "implies(not dry_run, ghost.submit_by == self._intfs[submission_group_name] and ghost.submit_file == ghost.script_args[2] "
             "and ghost.sbatch_n == old(ghost.sbatch_n) + 1)",
             # C07 dry run: the script is written but nothing is handed to the scheduler
             "implies(dry_run, ghost.sbatch_n == old(ghost.sbatch_n) and result[1] == Status.GOOD)",
         ],
         raises={"FileNotFoundError": {"ensures": [], "frame": False}},
         modifies=["ghost.script_by", "ghost.script_args", "ghost.submit_by", "ghost.submit_file", "ghost.sbatch_n", "ghost.fs"])
