"""Contracts for jade/utils/run_command.py: bounded retries (C18) and command execution ghosts (C16)."""
from pyvc.spec import record, contract, define, ghost, opaque_fn

F = "jade/utils/run_command.py"
opaque_fn("shlex.split")
ghost("execs", "int")            # number of subprocess executions performed by _run_command
ghost("last_ret", "int")         # return code of the most recent execution

contract("_run_command", kind="assumed",
         params=[("command", "Opaque"), ("output", "Opt[Dict[Name,Opaque]]"), ("cwd", "Opt[Opaque]")], returns="int",
         ensures=["ghost.execs == old(ghost.execs) + 1", "result == ghost.last_ret",
                  'implies(not isnone(output), typed("stdout", "Name") in val(output) and typed("stderr", "Name") in val(output))',
                  "isnone(output) == isnone(old(output))"],
         modifies=["output", "ghost.execs", "ghost.last_ret"],
         note="subprocess.Popen/communicate or subprocess.call (T-proc): one process per call, its exit status is returned")

contract("_should_exit_early", file=F,
         params=[("std_err", "Opaque"), ("error_strings", "List[Opaque]")], returns="bool",
         ensures=["result == exists(i, range(len(error_strings)), uf('substring_of', 'bool', error_strings[i], std_err))"],
         loops={1: {"invariant": ["forall(i, range(_k1), not uf('substring_of', 'bool', error_strings[i], std_err))"]}})

define("permanent", ["out", "errs"], 'exists(i, range(len(errs)), uf("substring_of", "bool", errs[i], out[typed("stderr", "Name")]))')
contract("run_command", file=F,
         params=[("cmd", "Opaque"), ("output", "Opt[Dict[Name,Opaque]]", "None"), ("cwd", "Opt[Opaque]", "None"), ("num_retries", "int", "0"),
                 ("retry_delay_s", "real", "2.0"), ("error_strings", "Opt[List[Opaque]]", "None")],
         returns="int",
         locals={"_output": "Opt[Dict[Name,Opaque]]", "ret": "Opt[int]", "error_strings": "Opt[List[Opaque]]"},
         requires=["num_retries >= 0"],
         loops={1: {"invariant": [
             "ghost.execs == old(ghost.execs) + _k1",
             "_k1 < max_tries",          # the last permitted iteration always breaks: the loop is never left by exhaustion
             # every earlier attempt failed (we stop at the first success) ...
             "implies(_k1 > 0, not isnone(ret) and val(ret) != 0 and val(ret) == ghost.last_ret)",
             "not isnone(error_strings) and max_tries == num_retries + 1",
             "isnone(output) == isnone(old(output))",
             "implies(_k1 == 0, output == old(output))",
         ]}},
         ensures=[
             # C18: at least one execution, at most num_retries + 1
             "ghost.execs - old(ghost.execs) >= 1 and ghost.execs - old(ghost.execs) <= num_retries + 1",
             "result == ghost.last_ret",       # the return code is that of the last execution
             # retries stop only at a success, at the budget, or at a listed permanent error
             "result == 0 or ghost.execs - old(ghost.execs) == num_retries + 1 "
             "or (num_retries > 0 and not isnone(output) and not isnone(old(error_strings)) and permanent(val(output), val(old(error_strings))))",
             "implies(not isnone(output), typed('stdout', 'Name') in val(output) and typed('stderr', 'Name') in val(output))",
             "isnone(output) == isnone(old(output))",
         ],
         raises={"InvalidParameter": {"when": ["not isnone(error_strings) and len(val(error_strings)) > 0 and isnone(output)"], "iff": True,
                                      "ensures": ["ghost.execs == old(ghost.execs)"]}},
         modifies=["output", "ghost.execs", "ghost.last_ret"])

contract("check_run_command", kind="assumed",
         params=[("cmd", "Opaque"), ("output", "Opt[Dict[Name,Opaque]]", "None"), ("env", "Opt[Dict[Name,Opaque]]", "None")],
         raises={"ExecutionError": {}}, modifies=["ghost.execs", "ghost.last_ret", "output"],
         ensures=["ghost.last_ret == 0", "ghost.execs > old(ghost.execs)"],
         note="run_command(*args, **kwargs) raising ExecutionError on a non-zero status (the *args/**kwargs wrapper itself is outside the subset)")
