"""Sidecar contracts.  Load order matters (records before the contracts that mention them)."""
ORDER = ["types", "cluster_views", "batch", "make_batch", "results", "result", "results_summary", "cluster", "job_queue", "hpc_submitter", "run_command",
         "slurm", "job_submitter", "resource_monitor", "pipeline", "async_cli", "job_runner", "resubmit", "config_checks", "aggregator", "cli", "events_agg", "hpc_init"]
