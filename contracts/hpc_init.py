"""Verified pieces of the constructor chain behind a submitter round (C05/C06): the group lookup and the status collector."""
from pyvc.spec import contract, CONTRACTS as _C

contract("make_submission_group_lookup_v", file="jade/models/submission_group.py", qualname="make_submission_group_lookup",
         params=[("submission_groups", "List[Ref[SubmissionGroup]]")], returns="Dict[Name,Ref[SubmissionGroup]]", fresh_result=True,
         ensures=["forall(i, range(len(submission_groups)), submission_groups[i].name in result)",
                  "forall(x, keys(result), exists(i, range(len(submission_groups)), submission_groups[i].name == x and result[x] == submission_groups[i]))"])

FH = "jade/hpc/hpc_submitter.py"
contract("HpcStatusCollector.__init__", file=FH, qualname="HpcStatusCollector.__init__",
         params=[("self", "Ref[HpcStatusCollector]"), ("hpc_mgr", "Ref[HpcManager]"), ("poll_interval", "int")], returns="Ref[HpcStatusCollector]",
         ensures=["self._hpc_mgr == hpc_mgr and self._poll_interval == poll_interval and isnone(self._last_poll_time) and empty(self._statuses)"],
         modifies=["self._hpc_mgr", "self._poll_interval", "self._last_poll_time", "self._statuses"])

# HpcSubmitter.__init__ itself stays an ASSUMED summary contract (job_submitter.py): its body stores None in `_max_nodes` before replacing it by
# sys.maxsize (`self._max_nodes = group...max_nodes; if self._max_nodes is None: ...`), and the record types that field `int` for every other
# function; verifying the constructor would need the field typed Opt[int] and a non-None obligation at each of its reads. Not done.
