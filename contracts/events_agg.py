"""Contract for JobRunner._aggregate_events (C20: events are lossless when a node folds the per-job event logs into its own log).

File model (T-fs): ghost map `elog`: path -> the lines of that event log, each line with its newline, in file order; a key is present iff
the file exists.  `open(p, "a")` keeps the lines (creates an empty file when absent), `open(p, "w")` truncates, iterating a file opened
for reading yields its lines, `write(line)` appends one line, `os.remove` deletes the key.  Post-states are store terms (is_exactly).
"""
from pyvc.spec import record, contract, define, ghost, opaque_global

F = "jade/jobs/job_runner.py"
ghost("elog", "Dict[Opaque,List[Opaque]]")
record("EvFile", check_attrs=False, fields={"g_path": "Opaque", "g_mode": "Opaque"})
opaque_global("JOBS_OUTPUT_DIR")

define("AE_EL", ["p"], "ghost.elog[p]")
define("AE_OTHERS", ["p"], "forall(q, Opaque, implies(q != p, (q in ghost.elog) == (q in old(ghost.elog)) and is_exactly(ghost.elog[q], old(ghost.elog)[q])))")
contract("open_ev", kind="assumed", fresh_result=True, params=[("path", "Opaque"), ("mode", "Opaque", '"r"')], returns="Ref[EvFile]",
         ensures=["result.g_path == path and result.g_mode == mode", "unchanged(EvFile.g_path, result) and unchanged(EvFile.g_mode, result)",
                  "implies(mode == typed('w', 'Opaque'), is_exactly(ghost.elog, upd(old(ghost.elog), path, nil('List[Opaque]'))))",
                  "implies(mode == typed('a', 'Opaque') and path in old(ghost.elog), is_exactly(ghost.elog, old(ghost.elog)))",
                  "implies(mode == typed('a', 'Opaque') and path not in old(ghost.elog), is_exactly(ghost.elog, upd(old(ghost.elog), path, nil('List[Opaque]'))))",
                  "implies(mode == typed('r', 'Opaque'), is_exactly(ghost.elog, old(ghost.elog)))"],
         raises={"FileNotFoundError": {"when": ["mode == typed('r', 'Opaque') and path not in ghost.elog"], "iff": True, "frame": True}},
         modifies=["EvFile.g_path", "EvFile.g_mode", "ghost.elog"],
         note="builtin open on an event log: 'w' truncates/creates, 'a' keeps the content and creates if absent, 'r' needs the file (T-fs)")
contract("EvFile.__iter__", kind="assumed", params=[("self", "Ref[EvFile]")], returns="List[Opaque]",
         requires=["self.g_path in ghost.elog"],
         ensures=["result == AE_EL(self.g_path)", "is_exactly(ghost.elog, old(ghost.elog))"],
         note="iterating a text file yields its lines in order, newline included (T-fs)")
contract("EvFile.write", kind="assumed", params=[("self", "Ref[EvFile]"), ("text", "Opaque")],
         requires=["self.g_path in ghost.elog", "self.g_mode != typed('r', 'Opaque')"],
         ensures=["is_exactly(ghost.elog, upd(old(ghost.elog), self.g_path, snoc(old(AE_EL(self.g_path)), text)))"],
         modifies=["ghost.elog"], note="sequential write of one complete line at the end of the file (T-fs)")
contract("os_remove_ev", kind="assumed", params=[("path", "Opaque")],
         ensures=["is_exactly(ghost.elog, rem(old(ghost.elog), path))"],
         raises={"FileNotFoundError": {"when": ["path not in ghost.elog"], "iff": True, "frame": True}},
         modifies=["ghost.elog"], note="os.remove (T-fs)")
contract("os_path_exists_ev", kind="assumed", params=[("path", "Opaque")], returns="bool", ensures=["result == (path in ghost.elog)"],
         note="os.path.exists on an event log (T-fs)")
contract("close_event_logging", kind="assumed", params=[], ensures=[], modifies=[],
         note="closes the process's structured-event handlers: whatever they logged is in the node's event file (flushed), nothing else changes")

# path of a job's own event log
define("AE_JF", ["s", "nm"], "uf('os.path.join/', 'Opaque', s._output, JOBS_OUTPUT_DIR, nm, typed('events.log', 'Opaque'))")
define("AE_EF", ["s"], "s._event_filename")
define("AE_JOBS", ["s"], "s._config.g_joblist")
AE_STABLE = "unchanged(JadeJob.name) and unchanged(JobConfiguration.g_joblist) and self._config == old(self._config) and self._output == old(self._output) and AE_EF(self) == old(AE_EF(self))"
# every line the node's log had (the runner's own events: bytes consumed, resource stats) is still there, in place
AE_PREFIX = "AE_EF(self) in ghost.elog and len(AE_EL(AE_EF(self))) >= {n0} and forall(i, range({n0}), AE_EL(AE_EF(self))[i] == {old}(AE_EL(AE_EF(self)))[i])"
# every line of job m's log (as it was at entry) is in the node's log
AE_GONE = "forall(m, range({hi}), implies(AE_JF(self, AE_JOBS(self)[m].name) in old(ghost.elog), AE_JF(self, AE_JOBS(self)[m].name) not in ghost.elog))"
# ... as one contiguous block, in the order of the job's log.  NOT part of the proved contract: the clause is forall-exists-forall and
# z3/cvc5 find no instantiation for the offset (undecided after 45 s); it is evaluated at run time by the bounded harness
# (replay/h_events.py: node log afterwards == node log before + the job logs in configuration order, byte for byte).
AE_MOVED = ("forall(m, range({hi}), implies(AE_JF(self, AE_JOBS(self)[m].name) in old(ghost.elog), "
            "exists(o, range(len(AE_EL(AE_EF(self))) + 1), o + len(old(ghost.elog)[AE_JF(self, AE_JOBS(self)[m].name)]) <= len(AE_EL(AE_EF(self))) and o >= old_len() and "
            "forall(i, range(len(old(ghost.elog)[AE_JF(self, AE_JOBS(self)[m].name)])), AE_EL(AE_EF(self))[o + i] == old(ghost.elog)[AE_JF(self, AE_JOBS(self)[m].name)][i]))))")
contract("JobRunner._aggregate_events_v", file=F, qualname="JobRunner._aggregate_events",
         call_alias={"open": "open_ev", "os.remove": "os_remove_ev", "os.path.exists": "os_path_exists_ev"},
         params=[("self", "Ref[JobRunner]")],
         requires=["Inv_cfg(self._config)",
                   # path arithmetic (T-fs): the node's log is not a job's log, and jobs with different names have different logs
                   "forall(m, range(len(AE_JOBS(self))), AE_JF(self, AE_JOBS(self)[m].name) != AE_EF(self))",
                   "forall(m, range(len(AE_JOBS(self))), forall(k, range(m), AE_JF(self, AE_JOBS(self)[m].name) != AE_JF(self, AE_JOBS(self)[k].name)))"],
         loops={
             1: {"invariant": [AE_STABLE, "_it1 == AE_JOBS(self)", "f_out.g_path == AE_EF(self) and f_out.g_mode == typed('a', 'Opaque')",
                               AE_PREFIX.format(n0="old_len()", old="old"),
                               AE_GONE.format(hi="_k1"),
                               # logs of the jobs not yet visited are untouched
                               "forall(m, range(_k1, len(AE_JOBS(self))), (AE_JF(self, AE_JOBS(self)[m].name) in ghost.elog) == (AE_JF(self, AE_JOBS(self)[m].name) in old(ghost.elog)) "
                               "and is_exactly(ghost.elog[AE_JF(self, AE_JOBS(self)[m].name)], old(ghost.elog)[AE_JF(self, AE_JOBS(self)[m].name)]))"]},
             2: {"invariant": [AE_STABLE, "f_out.g_path == AE_EF(self) and f_out.g_mode == typed('a', 'Opaque')", "job_file != AE_EF(self)",
                               "job_file in ghost.elog and _it2 == AE_EL(job_file) and is_exactly(AE_EL(job_file), loop_old(AE_EL(job_file)))",
                               "AE_EF(self) in ghost.elog and len(AE_EL(AE_EF(self))) == len(loop_old(AE_EL(AE_EF(self)))) + _k2",
                               "forall(i, range(len(loop_old(AE_EL(AE_EF(self))))), AE_EL(AE_EF(self))[i] == loop_old(AE_EL(AE_EF(self)))[i])",
                               "forall(i, range(_k2), AE_EL(AE_EF(self))[len(loop_old(AE_EL(AE_EF(self)))) + i] == _it2[i])",
                               "forall(q, Opaque, implies(q != AE_EF(self), (q in ghost.elog) == (q in loop_old(ghost.elog)) and is_exactly(ghost.elog[q], loop_old(ghost.elog)[q])))"]},
         },
         defs={"old_len": ([], "(len(old(ghost.elog)[AE_EF(self)]) if AE_EF(self) in old(ghost.elog) else 0)")},
         ensures=[AE_PREFIX.format(n0="old_len()", old="old"),
                  AE_GONE.format(hi="len(AE_JOBS(self))"),
                  AE_STABLE],
         modifies=["ghost.elog", "EvFile.g_path", "EvFile.g_mode"])
