"""Contracts for the rest of jade/hpc/hpc_submitter.py (C01, C05, C06, C11, C12, C14)."""
from pyvc.spec import record, contract, define, ghost, opaque_fn, opaque_global

F = "jade/hpc/hpc_submitter.py"

opaque_fn("copy.copy", "os.path.join", "os.path.dirname", "Path")
opaque_global("ExtendedJSONEncoder", "EVENT_CATEGORY_HPC", "EVENT_NAME_HPC_SUBMIT", "EVENT_NAME_HPC_JOB_ASSIGNED")

record("AsyncHpcSubmitter", file=F, bases=["AsyncJob"],
       aliases={"_name": "name", "_return_code": "return_code", "_is_complete": "g_done", "_job_id": "job_id"}, fields={
    "_mgr": "Ref[HpcManager]",
    "_status_collector": "Ref[HpcStatusCollector]",
    "_run_script": "Opt[Opaque]",
    "_submission_group": "Opt[Ref[SubmissionGroup]]",
    "_output": "Opt[Opaque]",
    "_dry_run": "bool",
})
record("HpcManager", file="jade/hpc/hpc_manager.py", fields={
    "_output": "Opaque",
    "_hpc_type": "Opt[Enum[HpcType]]",
    "_configs": "Opaque",
    "_intfs": "Opaque",
})
record("HpcStatusCollector", file=F, fields={
    "_hpc_mgr": "Ref[HpcManager]",
    "_poll_interval": "int",
    "_last_poll_time": "Opt[real]",
    "_statuses": "Dict[Name,Enum[HpcJobStatus]]",
})
contract("HpcManager.hpc_type", file="jade/hpc/hpc_manager.py", inline=True, params=[("self", "Ref[HpcManager]")], returns="Opt[Enum[HpcType]]")

# boundary: file writes whose content is C17/C18's subject; no effect on the state modelled here
contract("dump_data", kind="assumed", params=[("data", "Opaque"), ("filename", "Opaque"), ("cls", "Opaque", "None")],
         note="jade.utils.utils.dump_data: writes a JSON/TOML file")
contract("create_script", kind="assumed", params=[("filename", "Opaque"), ("text", "Opaque")],
         note="jade.utils.utils.create_script: writes an executable file")
contract("log_event", kind="assumed", params=[("event", "Opaque")], note="structured event logging (C20)")
contract("StructuredLogEvent", kind="assumed", pure=True, note="heap-independent",
         params=[("source", "Opaque"), ("category", "Opaque"), ("name", "Opaque"), ("message", "Opaque"),
                 ("batch_size", "Opaque", "None"), ("per_node_batch_size", "Opaque", "None"), ("job_id", "Opaque", "None"),
                 ("bytes_consumed", "Opaque", "None"), ("num_jobs", "Opaque", "None")],
         returns="Opaque")

contract("HpcSubmitter._create_run_script", kind="assumed",
         params=[("self", "Ref[HpcSubmitter]"), ("config_file", "Opaque"), ("filename", "Opaque"), ("submission_group", "Ref[SubmissionGroup]")],
         note="text content verified separately in C18 (string theory); here only: no effect on submitter state")

contract("AsyncHpcSubmitter.__init__", file=F, qualname="AsyncHpcSubmitter.__init__",
         params=[("self", "Ref[AsyncHpcSubmitter]"), ("hpc_manager", "Ref[HpcManager]"), ("status_collector", "Ref[HpcStatusCollector]"),
                 ("run_script", "Opt[Opaque]"), ("name", "Name"), ("submission_group", "Opt[Ref[SubmissionGroup]]"), ("output", "Opt[Opaque]"),
                 ("job_id", "Opt[Name]", "None"), ("dry_run", "bool", "False")],
         returns="Ref[AsyncHpcSubmitter]",
         ensures=["self._mgr == hpc_manager and self._status_collector == status_collector",
                  "self._submission_group == submission_group and self._job_id == job_id and self._name == name",
                  "not self._is_complete and self._dry_run == dry_run and isnone(self._return_code)",
                  "self._output == output",
                  "unchanged(AsyncJob.job_id, self) and unchanged(AsyncJob.g_is_batch, self) and unchanged(AsyncJob.name, self)"],
         modifies=["self._mgr", "self._status_collector", "self._run_script", "self._submission_group", "self._job_id", "self._output",
                   "self._name", "self._is_complete", "self._dry_run", "self._return_code",
                   "self.blocking", "self.g_launched", "self.g_canceled", "self.cancel_on_blocking_job_failure", "self.g_is_batch"],
         ghost_ensures=["empty(self.blocking)", "self.g_launched == 0", "not self.g_canceled", "not self.cancel_on_blocking_job_failure", "self.g_is_batch"])

ghost("last_batch_cfg", "Dict[Name,Opaque]")      # the mapping written as the newest config_batch_<i>.json
contract("dump_batch_config", kind="assumed", params=[("data", "Dict[Name,Opaque]"), ("filename", "Opaque"), ("cls", "Opaque", "None")],
         ensures=["ghost.last_batch_cfg == data"], modifies=["ghost.last_batch_cfg"],
         note="jade.utils.utils.dump_data at the batch-configuration call site: writes the mapping as JSON (T-fs); ghost: what was written")
contract("HpcSubmitter._make_async_submitter", file=F, fresh_result=True, call_alias={"dump_data": "dump_batch_config"},
         params=[("self", "Ref[HpcSubmitter]"), ("jobs", "Opaque"), ("submission_group", "Ref[SubmissionGroup]"), ("dry_run", "bool", "False")],
         returns="Ref[AsyncHpcSubmitter]",
         locals={"config": "Dict[Name,Opaque]"},
         ensures=[
             # C01: a batch identifier is used once - the index is consumed
             "self._batch_index == old(self._batch_index) + 1",
             # C07: the submitter carries the group it was built for, and that group's dry-run flag
             "result._submission_group == submission_group and result._dry_run == dry_run",
             "isnone(result._job_id) and not result.g_done and empty(result.blocking) and result.g_launched == 0 and result.g_is_batch",
             "result._mgr == self._hpc_mgr and result._status_collector == self._status_collector",
             "unchanged(AsyncJob.job_id, result) and unchanged(AsyncJob.g_is_batch, result) and unchanged(AsyncJob.name, result)",
             # C16/C17: the configuration written for the node is the submission's configuration with only the job list replaced, so node
             # setup / teardown commands and the submission groups reach the node
             "forall(k, self._base_config, k in ghost.last_batch_cfg and implies(k != typed('jobs', 'Name'), ghost.last_batch_cfg[k] == self._base_config[k]))",
             "typed('jobs', 'Name') in ghost.last_batch_cfg and ghost.last_batch_cfg[typed('jobs', 'Name')] == jobs",
         ],
         trusted_ensures=[
             # A-names (assumption, unchecked): the name <prefix>_batch_<index> of a new batch is not the name of any outstanding queue entry
             # (batch indices are consumed once - proved above - and scheduler ids are numeric)
             "forall(q, JobQueue, result.name not in q._outstanding_jobs)",
         ],
         modifies=["self._batch_index", "AsyncJob.g_is_batch", "AsyncJob.name", "AsyncJob.return_code", "AsyncJob.g_done", "AsyncJob.blocking", "AsyncJob.g_launched",
                   "AsyncJob.g_canceled", "AsyncJob.cancel_on_blocking_job_failure", "ghost.last_batch_cfg",
                   "AsyncHpcSubmitter._mgr", "AsyncHpcSubmitter._status_collector", "AsyncHpcSubmitter._run_script",
                   "AsyncHpcSubmitter._submission_group", "AsyncJob.job_id", "AsyncHpcSubmitter._output", "AsyncHpcSubmitter._dry_run"])

contract("HpcSubmitter._log_submission_event", kind="assumed",
         params=[("self", "Ref[HpcSubmitter]"), ("submission_group", "Ref[SubmissionGroup]"), ("batch", "Ref[_BatchJobs]")],
         note="structured event only")

contract("HpcSubmitter._submit_batch", file=F,
         params=[("self", "Ref[HpcSubmitter]"), ("queue", "Ref[JobQueue]"), ("submission_group", "Ref[SubmissionGroup]"), ("batch", "Ref[_BatchJobs]")],
         requires=["Inv_cap(queue)", "nout(queue) < queue._queue_depth", "len(queue._queued_jobs) == 0", "Inv_ids(queue)",
                   "len(batch._jobs) >= 1"],          # C07: a batch handed to the scheduler contains at least one job
         ensures=[
             "Inv_ids(queue)",
             "self._batch_index == old(self._batch_index) + 1",
             "Inv_cap(queue) and queue._queue_depth == old(queue._queue_depth) and len(queue._queued_jobs) == 0",
             # handed to the scheduler interface exactly once (C01), never parked in the queue (C05)
             "ghost.runs == old(ghost.runs) + 1",
             "nout(queue) <= old(nout(queue)) + 1 and nout(queue) >= old(nout(queue))",
         ],
         modifies=["self._batch_index", "JobQueue._num_jobs", "JobQueue._outstanding_jobs", "JobQueue._queued_jobs", "ghost.runs", "ghost.last_batch_cfg",
                   "AsyncJob.g_is_batch", "AsyncJob.name", "AsyncJob.return_code", "AsyncJob.g_done", "AsyncJob.blocking", "AsyncJob.g_launched",
                   "AsyncJob.g_canceled", "AsyncJob.cancel_on_blocking_job_failure",
                   "AsyncHpcSubmitter._mgr", "AsyncHpcSubmitter._status_collector", "AsyncHpcSubmitter._run_script",
                   "AsyncHpcSubmitter._submission_group", "AsyncJob.job_id", "AsyncHpcSubmitter._output", "AsyncHpcSubmitter._dry_run"])

# ---- _submit_batches ---------------------------------------------------------------------------
HEAP_ASYNC = ["AsyncJob.g_is_batch", "AsyncJob.name", "AsyncJob.return_code", "AsyncJob.g_done", "AsyncJob.blocking", "AsyncJob.g_launched",
              "AsyncJob.g_canceled", "AsyncJob.cancel_on_blocking_job_failure",
              "AsyncHpcSubmitter._mgr", "AsyncHpcSubmitter._status_collector", "AsyncHpcSubmitter._run_script",
              "AsyncHpcSubmitter._submission_group", "AsyncJob.job_id", "AsyncHpcSubmitter._output", "AsyncHpcSubmitter._dry_run"]
HEAP_BATCH = ["_BatchJobs._estimated_batch_time", "_BatchJobs._num_processes", "_BatchJobs._per_node_batch_size",
              "_BatchJobs._time_based_batching", "_BatchJobs._try_add_blocked_jobs", "_BatchJobs._jobs", "_BatchJobs._job_names",
              "_BatchJobs._is_ready_to_submit", "_BatchJobs._max_batch_time", "JadeJob.blocked_by"]

CFG_DOMAIN = [
    "implies(not G().time_based_batching, G().per_node_batch_size >= 1)",
    "implies(G().time_based_batching, not isnone(G().num_parallel_processes_per_node) and val(G().num_parallel_processes_per_node) >= 0)",
    "implies(G().time_based_batching, forall(i, range(len(jobs_of(self._cluster))), "
    "not isnone(cfgjob(self, jobs_of(self._cluster)[i].name).estimated_run_minutes) "
    "and val(cfgjob(self, jobs_of(self._cluster)[i].name).estimated_run_minutes) >= 0))",
]
SB_DEFS = {
    "G": ([], "submission_group.submitter_params"),
    "A0": ([], "loop_old(available_jobs)"),
    "CUR": ([], "len(loop_old(available_jobs)) - len(available_jobs)"),   # how many of A0 have been examined
    "S0": ([], "old(len(submitted_jobs))"),
    "B0": ([], "old(len(blocked_jobs))"),
}
SB_INV = [
    "Inv_cap(queue) and len(queue._queued_jobs) == 0 and queue._queue_depth == old(queue._queue_depth)",
    "Inv_ids(queue)",
    "len(available_jobs) <= len(A0())",
    # available_jobs is always a suffix of the list computed before the loop
    "forall(i, range(len(available_jobs)), available_jobs[i] == A0()[CUR() + i])",
    "forall(j, range(CUR(), len(A0())), A0()[j] == available_jobs[j - CUR()])",
    "num_submitted_jobs == len(_submitted_jobs)",
    "self._batch_index - old(self._batch_index) == ghost.runs - old(ghost.runs) and self._batch_index >= old(self._batch_index)",
    "implies(len(_submitted_jobs) > 0, self._batch_index > old(self._batch_index))",
    "implies(self._batch_index > old(self._batch_index), len(_submitted_jobs) > 0)",
    # C01: every job placed so far comes from the examined prefix, and no name was placed twice
    "forall(k, range(len(_submitted_jobs)), exists(m, range(CUR()), A0()[m] == _submitted_jobs[k]))",
    "forall(k, range(len(_submitted_jobs)), forall(m, range(k), _submitted_jobs[k].name != _submitted_jobs[m].name))",
    # blocked_jobs grows only by unplaced jobs of A0 that have blockers
    "len(blocked_jobs) >= B0()",
    "forall(k, range(B0()), blocked_jobs[k] == old(blocked_jobs)[k])",
    "forall(k, range(B0(), len(blocked_jobs)), not empty(blocked_jobs[k].blocked_by) "
    "and exists(m, range(len(A0())), A0()[m] == blocked_jobs[k]))",
    # a job recorded as blocked in this call is not placed by it: it lies below the cursor, or one of its blockers does
    "forall(i, range(len(A0())), forall(j, range(i), A0()[i].name != A0()[j].name))",
    "forall(k, range(B0(), len(blocked_jobs)), forall(m, range(len(_submitted_jobs)), blocked_jobs[k].name != _submitted_jobs[m].name))",
    "forall(k, range(B0(), len(blocked_jobs)), exists(m, range(len(A0())), A0()[m] == blocked_jobs[k] and (m < CUR() or "
    "exists(j, range(CUR()), A0()[j].name in blocked_jobs[k].blocked_by))))",
    # C05 (f): every examined job was placed or is blocked
    "forall(m, range(CUR()), exists(k, range(len(_submitted_jobs)), _submitted_jobs[k].name == A0()[m].name) or not empty(A0()[m].blocked_by))",
    "unchanged(Job.blocked_by) and unchanged(Job.name) and unchanged(Job.state)",
    "submitted_jobs == old(submitted_jobs)",
    "self._config == old(self._config) and self._cluster == old(self._cluster)",
]

contract("HpcSubmitter._submit_batches", file=F,
         params=[("self", "Ref[HpcSubmitter]"), ("queue", "Ref[JobQueue]"), ("submission_group", "Ref[SubmissionGroup]"),
                 ("blocked_jobs", "List[Ref[Job]]"), ("submitted_jobs", "List[Ref[Job]]")],
         locals={"_submitted_jobs": "List[Ref[Job]]", "available_jobs": "List[Ref[Job]]"},
         defs=SB_DEFS,
         requires=["Inv_cap(queue)", "nout(queue) < queue._queue_depth", "len(queue._queued_jobs) == 0", "Inv_ids(queue)",
                   "not isnone(self._cluster._job_status)", "distinct_job_names(self._cluster)",
                   "forall(i, range(len(jobs_of(self._cluster))), known(self, jobs_of(self._cluster)[i].name))"] + CFG_DOMAIN,
         loops={1: {"invariant": SB_INV}},
         ensures=[
             "Inv_cap(queue) and len(queue._queued_jobs) == 0 and queue._queue_depth == old(queue._queue_depth)",
             "Inv_ids(queue)",
             "self._batch_index - old(self._batch_index) == ghost.runs - old(ghost.runs) and self._batch_index >= old(self._batch_index)",
             "implies(len(submitted_jobs) > S0(), self._batch_index > old(self._batch_index))",
             "implies(self._batch_index > old(self._batch_index), len(submitted_jobs) > S0())",
             # submitted_jobs grows by jobs of this group that are not submitted, each name once (C01)
             "len(submitted_jobs) >= S0()",
             "forall(k, range(S0()), submitted_jobs[k] == old(submitted_jobs)[k])",
             "forall(k, range(S0(), len(submitted_jobs)), submitted_jobs[k].state == JobState.NOT_SUBMITTED "
             "and cfgjob(self, submitted_jobs[k].name).submission_group == submission_group.name "
             "and exists(m, range(len(jobs_of(self._cluster))), jobs_of(self._cluster)[m] == submitted_jobs[k]))",
             "forall(k, range(S0(), len(submitted_jobs)), forall(m, range(S0(), k), submitted_jobs[k].name != submitted_jobs[m].name))",
             "len(blocked_jobs) >= B0()",
             "forall(k, range(B0()), blocked_jobs[k] == old(blocked_jobs)[k])",
             "forall(k, range(B0(), len(blocked_jobs)), blocked_jobs[k].state == JobState.NOT_SUBMITTED and not empty(blocked_jobs[k].blocked_by) "
             "and cfgjob(self, blocked_jobs[k].name).submission_group == submission_group.name "
             "and exists(m, range(len(jobs_of(self._cluster))), jobs_of(self._cluster)[m] == blocked_jobs[k]))",
             # C05: a not-submitted job of the group without blockers is left behind only when the node limit is reached
             "nout(queue) >= queue._queue_depth or forall(m, range(len(jobs_of(self._cluster))), implies("
             "jobs_of(self._cluster)[m].state == JobState.NOT_SUBMITTED "
             "and cfgjob(self, jobs_of(self._cluster)[m].name).submission_group == submission_group.name "
             "and empty(jobs_of(self._cluster)[m].blocked_by), "
             "exists(k, range(S0(), len(submitted_jobs)), submitted_jobs[k].name == jobs_of(self._cluster)[m].name)))",
             "unchanged(Job.blocked_by) and unchanged(Job.name) and unchanged(Job.state)",
             # a job recorded as blocked in this call is not also placed in a batch by it (it is below the cursor for good, or one of its
             # blockers was placed in an earlier batch of the call and batches are disjoint)
             "forall(k, range(B0(), len(blocked_jobs)), forall(m, range(S0(), len(submitted_jobs)), blocked_jobs[k].name != submitted_jobs[m].name))",
         ],
         modifies=["submitted_jobs", "blocked_jobs", "self._batch_index", "JobQueue._num_jobs", "JobQueue._outstanding_jobs",
                   "JobQueue._queued_jobs", "ghost.runs", "ghost.last_batch_cfg"] + HEAP_ASYNC + HEAP_BATCH)

# ---- AsyncHpcSubmitter: implementation of the AsyncJob interface ---------------------------------
contract("HpcManager.submit", kind="assumed",
         params=[("self", "Ref[HpcManager]"), ("directory", "Opt[Opaque]"), ("name", "Name"), ("script", "Opaque"),
                 ("submission_group_name", "Name"), ("wait", "bool", "False"), ("keep_submission_script", "bool", "True"), ("dry_run", "bool", "False")],
         returns="Tuple[Opt[Name],Enum[Status]]",
         ensures=["implies(dry_run, ghost.sbatch_n == old(ghost.sbatch_n))",
                  "ghost.sbatch_n >= old(ghost.sbatch_n) and ghost.sbatch_n <= old(ghost.sbatch_n) + 1",
                  "implies(result[1] == Status.GOOD and not dry_run, ghost.sbatch_n == old(ghost.sbatch_n) + 1)",
                  "implies(result[1] == Status.GOOD, not isnone(result[0]))"],
         modifies=["ghost.sbatch_n"],
         note="HpcManager.submit -> SlurmManager.submit (verified in C18 contracts): writes the sbatch script, runs sbatch unless dry_run")
ghost("sbatch_n", "int")

contract("AsyncHpcSubmitter._make_singularity_command", kind="assumed",
         params=[("self", "Ref[AsyncHpcSubmitter]")], returns="Opaque", note="writes a wrapper script (C18)")

contract("AsyncHpcSubmitter.run", file=F,
         params=[("self", "Ref[AsyncHpcSubmitter]")], returns="Enum[Status]",
         requires=["not isnone(self._submission_group)"],
         ensures=[
             # interface clauses (AsyncJob.run)
             "implies(old(self._dry_run), ghost.sbatch_n == old(ghost.sbatch_n))",
             "ghost.sbatch_n <= old(ghost.sbatch_n) + 1",
             # C12: a failed submission is reported as ERROR and the batch is complete with a non-zero code, so it is never outstanding
             "implies(result != Status.GOOD, result == Status.ERROR and self.g_done and self.return_code == 1 and self._job_id == old(self._job_id))",
             "implies(result == Status.GOOD, not self.g_done or old(self.g_done))",
             "implies(result == Status.GOOD, not isnone(self._job_id))",      # interface clause of AsyncJob.run for batches
         ],
         modifies=["self._job_id", "self._return_code", "self._is_complete", "ghost.sbatch_n"])

contract("HpcStatusCollector.check_status", file=F,
         params=[("self", "Ref[HpcStatusCollector]"), ("job_id", "Opt[Name]")], returns="Enum[HpcJobStatus]",
         locals={"cur_time": "real"},
         ensures=["implies(not isnone(job_id), result == (self._statuses[val(job_id)] if val(job_id) in self._statuses else HpcJobStatus.NONE))"],
         raises={"ExecutionError": {"ensures": ["self._statuses == old(self._statuses)"]}},
         ghost_ensures=["ghost.last_status == result"],
         modifies=["self._statuses", "self._last_poll_time", "ghost.last_status"])
contract("HpcManager.check_statuses", kind="assumed",
         params=[("self", "Ref[HpcManager]")], returns="Dict[Name,Enum[HpcJobStatus]]",
         raises={"ExecutionError": {}},
         note="HpcManager.check_statuses -> SlurmManager.check_statuses (C18): squeue output parsed into id -> status; raises when squeue fails")
contract("time.time", kind="assumed", params=[], returns="real", note="wall clock")
contract("time.sleep", kind="assumed", params=[("secs", "real")], note="wall clock")

contract("AsyncHpcSubmitter.is_complete", file=F,
         params=[("self", "Ref[AsyncHpcSubmitter]")], returns="bool",
         ensures=["result == self.g_done", "implies(old(self.g_done), self.g_done)",
                  # C18/C06: complete only if it already was, or the collector reports COMPLETE / NONE (absent)
                  "implies(result and not old(self.g_done), ghost.last_status == HpcJobStatus.COMPLETE or ghost.last_status == HpcJobStatus.NONE)"],
         raises={"ExecutionError": {"ensures": ["self.g_done == old(self.g_done)"]}},
         modifies=["self._is_complete", "HpcStatusCollector._statuses", "HpcStatusCollector._last_poll_time", "ghost.last_status"])
ghost("last_status", "Enum[HpcJobStatus]")

contract("AsyncHpcSubmitter.create_from_id", file=F, fresh_result=True,
         params=[("hpc_manager", "Ref[HpcManager]"), ("status_collector", "Ref[HpcStatusCollector]"), ("job_id", "Name")],
         returns="Ref[AsyncHpcSubmitter]",
         ensures=["result._job_id == job_id and result.name == job_id and not result.g_done and isnone(result._submission_group)",
                  "result._mgr == hpc_manager and result._status_collector == status_collector",
                  "empty(result.blocking) and result.g_launched == 0 and not result.g_canceled and result.g_is_batch"],
         modifies=HEAP_ASYNC)

# ---- completion collection and failure cancellation at submitter level (C02, C04) ---------------------------
contract("HpcSubmitter._cancel_job", file=F, fresh_result=True,
         params=[("self", "Ref[HpcSubmitter]"), ("job", "Ref[Job]"), ("aggregator", "Ref[ResultsAggregator]")],
         returns="Ref[Result]",
         ensures=[
             # C04: a canceled job is final, has no blockers left, and gets exactly one 'canceled' row with a non-zero code
             "job.state == JobState.DONE and empty(job.blocked_by)",
             "result.name == job.name and result.return_code == 1 and result.status == JobCompletionStatus.CANCELED.value and isnone(result.hpc_job_id)",
             "forall(x, Name, (x in ghost.collected) == (x in old(ghost.collected) or x == job.name))",
             "forall(x, Name, (x in ghost.collected_failed) == (x in old(ghost.collected_failed) or x == job.name))",
             "unchanged(Job.state, job) and unchanged(Job.blocked_by, job)",
             "unchanged(Result.name, retval) and unchanged(Result.return_code, retval)",
         ],
         raises={"Timeout": {"ensures": [], "frame": False}},
         modifies=["job.state", "job.blocked_by", "ghost.collected", "ghost.collected_failed",
                   "Result.name", "Result.return_code", "Result.status", "Result.exec_time_s", "Result.completion_time", "Result.hpc_job_id"])

NS_, D_ = "JobState.NOT_SUBMITTED", "JobState.DONE"
UC_DEFS = {
    "CJL": ([], "val(self._cluster._job_status).jobs"),
    "NCJ": ([], "len(val(self._cluster._job_status).jobs)"),
    "NC": ([], "newly_completed"),
    "injobs": (["j"], "exists(m, range(NCJ()), CJL()[m] == j)"),
}
# per-job two-state facts (C02 / C04 / C09), over every persisted job
UC_JOBS = [
    # a job changes state only by being canceled here: NOT_SUBMITTED -> DONE
    f"forall(m, range(NCJ()), CJL()[m].state == old(CJL()[m].state) or (old(CJL()[m].state) == {NS_} and CJL()[m].state == {D_} "
    "and exists(k, range(len(canceled_jobs)), canceled_jobs[k] == CJL()[m])))",
    # remaining blockers only shrink ...
    "forall(m, range(NCJ()), subset(CJL()[m].blocked_by, old(CJL()[m].blocked_by)))",
    # ... and a blocker disappears only when it has a collected result (C02), or the job itself was canceled
    f"forall(m, range(NCJ()), forall(x, old(CJL()[m].blocked_by), x in CJL()[m].blocked_by or x in NC() or CJL()[m].state == {D_}))",
    "unchanged(Job.name) and unchanged(Job.cancel_on_blocking_job_failure) and val(self._cluster._job_status).jobs == old(val(self._cluster._job_status).jobs)",
    "self._cluster == old(self._cluster) and self._cluster._job_status == old(self._cluster._job_status)",
]
UC_CANCELED = [
    # C04 (sound): every canceled job was a flagged, not-submitted job one of whose blockers failed or was canceled
    f"forall(j, canceled_jobs, injobs(j) and old(j.state) == {NS_} and j.state == {D_} "
    "and empty(j.blocked_by) and j.cancel_on_blocking_job_failure and j.name in ghost.collected_failed "
    "and exists(b, old(j.blocked_by), b in ghost.collected_failed))",
    "forall(k, range(len(canceled_jobs)), forall(m, range(k), canceled_jobs[k].name != canceled_jobs[m].name))",
]
UC_COUNT = [
    # C09: each cancel turns exactly one not-submitted job into a done one (the counters are bumped later, in update_job_status)
    "fold('n_done', CJL()) == old(fold('n_done', CJL())) + len(canceled_jobs)",
    "fold('n_sub', CJL()) == old(fold('n_sub', CJL())) + len(canceled_jobs)",
]
# results stay within the submission's job names: a canceled job is one of the cluster's jobs; collected rows obey E-res (process_results)
ERES = "implies(old(subset(ghost.collected, ghost.universe)) and subset(nameset(CJL()), ghost.universe), subset(ghost.collected, ghost.universe))"
UC_COMMON = UC_COUNT + [ERES, "subset(NC(), ghost.collected)",
             "subset(old(ghost.collected), ghost.collected) and subset(old(ghost.collected_failed), ghost.collected_failed)"] + UC_JOBS + UC_CANCELED
UC_PENDING = [
    # results of the jobs canceled in the previous pass, not yet folded into newly_completed
    "forall(i, range(len(new_results)), allocated(new_results[i]) and new_results[i].return_code != 0 and new_results[i].name in ghost.collected "
    "and new_results[i].name in ghost.collected_failed)",
    "forall(k, range(len(canceled_jobs)), canceled_jobs[k].name in NC() or exists(i, range(len(new_results)), new_results[i].name == canceled_jobs[k].name))",
]
contract("HpcSubmitter._update_completed_jobs", file=F,
         params=[("self", "Ref[HpcSubmitter]")], returns="Tuple[Set[Name],List[Ref[Job]]]",
         locals={"newly_completed": "Set[Name]", "canceled_jobs": "List[Ref[Job]]", "new_results": "List[Ref[Result]]", "failed_jobs": "Set[Name]"},
         defs=UC_DEFS,
         requires=["not isnone(self._cluster._job_status)", "distinct_job_names(self._cluster)"],
         loops={
             1: {"invariant": UC_COMMON + UC_PENDING + [
                 "need_to_rerun or len(new_results) == 0",
                 # C04 (no stale blocker): once a pass ends without a cancel, no not-submitted job waits for a name that has an outcome
                 f"need_to_rerun or forall(m, range(NCJ()), implies(CJL()[m].state == {NS_}, forall(x, CJL()[m].blocked_by, x not in NC())))",
             ]},
             2: {"invariant": [ERES,
                 "subset(NC(), ghost.collected)", "subset(loop_old(newly_completed), NC())",
                 "forall(i, range(_k2), _it2[i].name in NC())",
                 "subset(failed_jobs, NC())", "forall(x, failed_jobs, x in ghost.collected_failed)",
                 "forall(i, range(_k2), implies(_it2[i].return_code != 0, _it2[i].name in failed_jobs))",
             ] + UC_JOBS[2:3]},
             3: {"invariant": UC_COMMON + UC_PENDING[:1] + [
                 "forall(k, range(len(canceled_jobs)), canceled_jobs[k].name in NC() or exists(i, range(len(new_results)), new_results[i].name == canceled_jobs[k].name))",
                 "subset(failed_jobs, NC())", "forall(x, failed_jobs, x in ghost.collected_failed)",
                 "need_to_rerun or len(new_results) == 0",
                 # jobs already visited in this pass that are still waiting do not wait for a completed name
                 f"forall(i, range(_k3), implies(_it3[i].state == {NS_}, forall(x, _it3[i].blocked_by, x not in NC())))",
                 f"forall(i, range(_k3, len(_it3)), _it3[i].state == {NS_})",
                 "newly_completed == loop_old(newly_completed) and failed_jobs == loop_old(failed_jobs)",
                 f"forall(m, range(NCJ()), CJL()[m].state == loop_old(CJL()[m].state) or CJL()[m].state == {D_})",
             ]},
         },
         ensures=[
             ERES,
             "subset(result[0], ghost.collected)",
             "subset(old(ghost.collected), ghost.collected) and subset(old(ghost.collected_failed), ghost.collected_failed)",
         ] + [c.replace("NC()", "result[0]").replace("canceled_jobs", "result[1]") for c in UC_JOBS + UC_CANCELED + UC_COUNT] + [
             "forall(k, range(len(result[1])), result[1][k].name in result[0])",
             f"forall(m, range(NCJ()), implies(CJL()[m].state == {NS_}, forall(x, CJL()[m].blocked_by, x not in result[0])))",
         ],
         trusted_ensures=[
             # E-res (environment): nodes write results only for jobs of batches that were handed to the scheduler, i.e. whose
             # persisted state is SUBMITTED; cannot follow from JADE's code alone (the producers are other processes)
             "forall(x, result[0], exists(m, range(NCJ()), CJL()[m].name == x and (CJL()[m].state == JobState.SUBMITTED "
             "or exists(k, range(len(result[1])), result[1][k] == CJL()[m]))))",
         ],
         raises={"Timeout": {"ensures": [], "frame": False}},
         modifies=["Job.state", "Job.blocked_by", "ghost.collected", "ghost.collected_failed",
                   "Result.name", "Result.return_code", "Result.status", "Result.exec_time_s", "Result.completion_time", "Result.hpc_job_id",
                   "ResultsAggregator._filename", "ResultsAggregator._lock_file", "ResultsAggregator._timeout",
                   "ResultsAggregator._delimiter", "ResultsAggregator._is_node"])

# ---- the submitter round ------------------------------------------------------------------------------------
ghost("fs", "Set[Opaque]")      # paths of marker files that exist (submitter.lock)
contract("Opaque.exists", kind="assumed", params=[("self", "Opaque")], returns="bool", ensures=["result == (self in ghost.fs)"],
         note="pathlib.Path.exists (T-fs)")
contract("Opaque.touch", kind="assumed", params=[("self", "Opaque")],
         ensures=["forall(p, Opaque, (p in ghost.fs) == (p in old(ghost.fs) or p == self))"], modifies=["ghost.fs"], note="pathlib.Path.touch (T-fs)")
contract("os.remove", kind="assumed", params=[("path", "Opaque")],
         ensures=["forall(p, Opaque, (p in ghost.fs) == (p in old(ghost.fs) and p != path))"], modifies=["ghost.fs"],
         raises={"FileNotFoundError": {"when": ["path not in ghost.fs"], "ensures": ["ghost.fs == old(ghost.fs)"]}},
         note="os.remove (T-fs)")
define("MARKER", ["s"], 'uf("pathjoin", "Opaque", uf("Path/", "Opaque", s._output), typed("submitter.lock", "Opaque"))')

contract("HpcSubmitter._is_complete", file=F,
         params=[("self", "Ref[HpcSubmitter]")], returns="bool",
         requires=["not ghost.cluster_lock", "not isnone(self._cluster._job_status)", "J(self._cluster)"],
         ensures=[
             # C05/C12: complete iff every job is done, or (forced) no batch is active any more on a real scheduler
             "result == (forall(i, range(len(JOBS(self._cluster))), JOBS(self._cluster)[i].state == JobState.DONE) "
             "or (len(val(self._cluster._job_status).hpc_job_ids) == 0 and self._hpc_mgr._hpc_type != HpcType.FAKE))",
             "not ghost.cluster_lock",
         ],
         raises={"Timeout": {"ensures": ["not ghost.cluster_lock"]}, "AnyException": {"ensures": ["not ghost.cluster_lock"], "frame": False}},
         modifies=["ghost.cluster_lock", "ghost.lock_marker_left"])

_uj = contract.__globals__["CONTRACTS"]["Cluster.update_job_status"]
from contracts.cluster import UJ_DEFS, UJ_PRE, UJ_POST
US_DEFS = dict(UJ_DEFS)
US_DEFS.update({"CFG": ([], "self._cluster._config"), "JL": ([], "val(self._cluster._job_status).jobs"),
                "NJ": ([], "len(val(self._cluster._job_status).jobs)"),
                "FRAME": ([], "True"), "LOOKUP": ([], "True")})
def _lift(text):
    """clauses of Cluster.update_job_status re-phrased for self._cluster"""
    return (text.replace("Inv_handle(self)", "Inv_handle(self._cluster)").replace("self.g_promoted", "self._cluster.g_promoted")
            .replace("isnone(self._job_status)", "isnone(self._cluster._job_status)").replace("distinct_job_names(self)", "distinct_job_names(self._cluster)")
            .replace("val(self._job_status)", "val(self._cluster._job_status)").replace("disk_cv(self)", "disk_cv(self._cluster)")
            .replace("disk_jv(self)", "disk_jv(self._cluster)").replace("cfg_mirrored(self)", "cfg_mirrored(self._cluster)")
            .replace("js_mirrored(self)", "js_mirrored(self._cluster)"))
contract("HpcSubmitter._update_status", file=F,
         params=[("self", "Ref[HpcSubmitter]"), ("submitted_jobs", "List[Ref[Job]]"), ("blocked_jobs", "List[Ref[Job]]"),
                 ("canceled_jobs", "List[Ref[Job]]"), ("hpc_job_ids", "List[Name]"), ("completed_job_names", "Set[Name]")],
         defs=US_DEFS,
         requires=["not ghost.cluster_lock"] + [_lift(r) for r in UJ_PRE if r != "ghost.cluster_lock"],
         ensures=[
             # J holds in memory either way (nothing to update => the canceled list is empty and the counters were already exact)
             "0 <= CFG().completed_jobs and CFG().completed_jobs <= CFG().submitted_jobs and CFG().submitted_jobs <= CFG().num_jobs and CFG().num_jobs == NJ()",
             "CFG().completed_jobs == fold('n_done', JL())", "CFG().submitted_jobs == fold('n_sub', JL())",
             "forall(i, range(NJ()), implies(JL()[i].state != JobState.NOT_SUBMITTED, empty(JL()[i].blocked_by)))",
             "not ghost.cluster_lock", "Inv_handle(self._cluster)",
             # whenever a batch was made, something completed or the active ids changed, the status IS persisted (C01/C11)
             "implies(len(submitted_jobs) > 0 or not empty(completed_job_names) or len(blocked_jobs) > 0, "
             "js_mirrored(self._cluster) and cfg_mirrored(self._cluster) and val(self._cluster._job_status).batch_index == self._batch_index "
             "and val(self._cluster._job_status).hpc_job_ids == hpc_job_ids)",
             "forall(k, range(len(submitted_jobs)), forall(m, range(NJ()), implies(JL()[m].name == submitted_jobs[k].name, JL()[m].state != JobState.NOT_SUBMITTED)))",
             "val(self._cluster._job_status).hpc_job_ids == hpc_job_ids",
             "val(self._cluster._job_status).jobs == old(val(self._cluster._job_status).jobs) and unchanged(Job.name)",
             "CFG().is_complete == old(CFG().is_complete) and CFG().is_canceled == old(CFG().is_canceled)",
         ],
         raises={k: dict(v, when=[_lift(w).replace("CFG()", "self._cluster._config") for w in v.get("when", [])], iff=False) for k, v in _uj.raises.items()},     # incl. AnyException: lock released
         modifies=[m for m in _uj.modifies if not m.startswith("self.")] + ["self._cluster._config_hash", "self._cluster._job_status_hash"])

RUN_DEFS = {
    "CL": ([], "self._cluster"),
    "CFG": ([], "self._cluster._config"),
    "JS": ([], "val(self._cluster._job_status)"),
    "JL": ([], "val(self._cluster._job_status).jobs"),
    "NJ": ([], "len(val(self._cluster._job_status).jobs)"),
    "GROUPS": ([], "self._cluster._config.submission_groups"),
    "persisted": ([], "val(self._cluster._job_status).batch_index == self._batch_index and js_mirrored(self._cluster)"),
}
RUN_PRE = [
    "not ghost.cluster_lock", "Inv_handle(CL())", "CL().g_promoted", "not isnone(CL()._job_status)", "J(CL())",
    "forall(i, range(NJ()), known(self, JL()[i].name))",
    "self._batch_index == JS().batch_index",
    # C06 carried from the previous rounds: no more persisted active batches than max-nodes
    "len(JS().hpc_job_ids) <= self._max_nodes",
    # configuration domain for every group (see C07)
    "forall(g, GROUPS(), implies(not g.submitter_params.time_based_batching, g.submitter_params.per_node_batch_size >= 1) "
    "and implies(g.submitter_params.time_based_batching, not isnone(g.submitter_params.num_parallel_processes_per_node) "
    "and val(g.submitter_params.num_parallel_processes_per_node) >= 0))",
    "forall(g, GROUPS(), implies(g.submitter_params.time_based_batching, forall(i, range(NJ()), "
    "not isnone(cfgjob(self, JL()[i].name).estimated_run_minutes) and val(cfgjob(self, JL()[i].name).estimated_run_minutes) >= 0)))",
    # group names are pairwise distinct (check_submission_groups, C17)
    "forall(a, range(len(GROUPS())), forall(b, range(a), GROUPS()[a].name != GROUPS()[b].name))",
]
# whatever the outcome, the CLI callback still holds a promoted handle and no lock, so its `finally` can give the role back (C10)
RUN_HANDLE_OK = ("not ghost.cluster_lock and self._cluster.g_promoted and self._cluster._config.submitter == self._cluster._hostname "
                 "and paths_distinct(self._cluster)")
contract("HpcSubmitter.run", file=F,
         params=[("self", "Ref[HpcSubmitter]")], returns="bool",
         locals={"blocked_jobs": "List[Ref[Job]]", "submitted_jobs": "List[Ref[Job]]", "hpc_submitters": "List[Ref[AsyncHpcSubmitter]]"},
         defs=RUN_DEFS, requires=RUN_PRE,
         loops={1: {"invariant": [
             "Inv_cap(queue) and len(queue._queued_jobs) == 0 and queue._queue_depth == self._max_nodes",
             "Inv_ids(queue)",
             "self._batch_index - starting_batch_index == ghost.runs - old(ghost.runs) and self._batch_index >= starting_batch_index",
             "implies(self._batch_index > starting_batch_index, len(submitted_jobs) > 0)",
             "forall(k, range(len(submitted_jobs)), submitted_jobs[k].state == JobState.NOT_SUBMITTED "
             "and exists(m, range(NJ()), JL()[m] == submitted_jobs[k]) "
             "and exists(a, range(_k1), cfgjob(self, submitted_jobs[k].name).submission_group == GROUPS()[a].name))",
             "forall(k, range(len(submitted_jobs)), forall(m, range(k), submitted_jobs[k].name != submitted_jobs[m].name))",
             "forall(k, range(len(blocked_jobs)), blocked_jobs[k].state == JobState.NOT_SUBMITTED and not empty(blocked_jobs[k].blocked_by) "
             "and exists(m, range(NJ()), JL()[m] == blocked_jobs[k]) "
             "and exists(a, range(_k1), cfgjob(self, blocked_jobs[k].name).submission_group == GROUPS()[a].name))",
             # JADE's assert in update_job_status: no job is both submitted and recorded as blocked in one round
             "forall(k, range(len(blocked_jobs)), forall(m, range(len(submitted_jobs)), blocked_jobs[k].name != submitted_jobs[m].name))",
             "MARKER(self) in ghost.fs",
             "self._cluster == old(self._cluster) and self._config == old(self._config) and self._max_nodes == old(self._max_nodes)",
             "CFG().is_canceled == old(CFG().is_canceled) and implies(old(CFG().is_canceled), ghost.runs == old(ghost.runs))",
         ]}},
         ensures=[
             "len(JS().hpc_job_ids) <= self._max_nodes",                        # C06
             "self._batch_index >= old(self._batch_index) and ghost.runs - old(ghost.runs) == self._batch_index - old(self._batch_index)",   # C01
             "MARKER(self) not in ghost.fs",
             # C14: cancel is final - a canceled submission never hands another batch to the scheduler
             "implies(old(CFG().is_canceled), ghost.runs == old(ghost.runs))",
             # what the CLI callback relies on after a round (C10, C05): a well-formed promoted handle, no lock, flags untouched, results only for configured jobs
             "not ghost.cluster_lock", "Inv_handle(self._cluster)", "self._cluster.g_promoted",
             "CFG().is_complete == old(CFG().is_complete) and CFG().pipeline_stage_num == old(CFG().pipeline_stage_num)",
             "implies(old(subset(ghost.collected, ghost.universe)) and subset(nameset(JL()), ghost.universe), subset(ghost.collected, ghost.universe))",
         ],
         raises={
             # C11: a failing status query happens before anything is handed over or written; the next round starts from the same state
             "ExecutionError": {"ensures": ["ghost.runs == old(ghost.runs) and ghost.file_writes == old(ghost.file_writes) and ghost.fs == old(ghost.fs)",
                                            "self._batch_index == old(self._batch_index)",
                                            # ... and no result was consumed: the next round sees the same completions (C11)
                                            "ghost.collected == old(ghost.collected) and ghost.collected_failed == old(ghost.collected_failed)",
                                            "unchanged(Job.state) and unchanged(Job.blocked_by)", RUN_HANDLE_OK], "frame": False},
             # C11: once a round handed a batch over, every exception leaves the marker in place (later rounds refuse)
             "Exception": {"ensures": ["ghost.runs == old(ghost.runs) or MARKER(self) in ghost.fs or persisted()", RUN_HANDLE_OK], "frame": False},
             "Timeout": {"ensures": [RUN_HANDLE_OK], "frame": False}, "ConfigVersionMismatch": {"ensures": [RUN_HANDLE_OK], "frame": False},
             "JobStatusVersionMismatch": {"ensures": [RUN_HANDLE_OK], "frame": False},
         },
         crash_inv=[
             # C11 (kill points): a batch handed to the scheduler and not yet persisted implies the marker file exists
             "ghost.runs == old(ghost.runs) or MARKER(self) in ghost.fs or persisted()",
         ],
         modifies=["self._batch_index", "ghost.runs", "ghost.last_batch_cfg", "ghost.fs", "ghost.cluster_lock", "ghost.lock_marker_left", "ghost.collected", "ghost.collected_failed",
                   "ghost.files", "ghost.vfiles", "ghost.file_writes", "ghost.last_status", "ghost.sbatch_n",
                   "Job.state", "Job.blocked_by", "JobStatus.hpc_job_ids", "JobStatus.batch_index", "JobStatus.version",
                   "ClusterConfig.submitted_jobs", "ClusterConfig.completed_jobs", "ClusterConfig.version",
                   "self._cluster._config_hash", "self._cluster._job_status_hash",
                   "JobQueue._queue_depth", "JobQueue._poll_interval", "JobQueue._outstanding_jobs", "JobQueue._queued_jobs", "JobQueue._num_jobs",
                   "JobQueue._num_completed", "JobQueue._monitor_func", "JobQueue._last_monitor_time", "JobQueue._monitor_interval",
                   "HpcStatusCollector._statuses", "HpcStatusCollector._last_poll_time",
                   "Result.name", "Result.return_code", "Result.status", "Result.exec_time_s", "Result.completion_time", "Result.hpc_job_id",
                   "ResultsAggregator._filename", "ResultsAggregator._lock_file", "ResultsAggregator._timeout", "ResultsAggregator._delimiter",
                   "ResultsAggregator._is_node", "AsyncJob.g_canceled"] + HEAP_ASYNC + HEAP_BATCH)
contract("sorted", kind="assumed", fresh_result=True, params=[("x", "List[Opt[Name]]")], returns="List[Opt[Name]]",
         ensures=["len(result) == len(x)", "forall(i, range(len(result)), exists(j, range(len(x)), x[j] == result[i]))"],
         note="T-sort: sorted() returns a permutation")
