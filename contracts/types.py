"""Record (class) declarations, enums and library contracts shared by all properties.

A record binds a name used in contracts to the real class (file, class name); the
frontend cross-checks that every modelled field exists in the real class and uses the real
attribute set for attribute-safety obligations.
"""
from pyvc.spec import record, contract, enum, ghost, define

# ---- enums: members are read from the real class bodies on every run ------------------------
enum("JobState", "jade/models/jobs.py")
enum("Status", "jade/enums.py")
enum("JobCompletionStatus", "jade/enums.py")
enum("HpcJobStatus", "jade/hpc/common.py")
enum("HpcType", "jade/hpc/common.py")
enum("ResourceMonitorType", "jade/enums.py")

# ---- models ---------------------------------------------------------------------------------
record("Job", file="jade/models/jobs.py", pydantic=True, fields={
    "name": "Name",
    "blocked_by": "Set[Name]",
    "cancel_on_blocking_job_failure": "bool",
    "state": "Enum[JobState]",
})

record("JobStatus", file="jade/models/jobs.py", pydantic=True, fields={
    "jobs": "List[Ref[Job]]",
    "hpc_job_ids": "List[Name]",
    "batch_index": "int",
    "version": "int",
})

record("ClusterConfig", file="jade/models/cluster_config.py", pydantic=True, fields={
    "submitter": "Opt[Name]",
    "submission_groups": "List[Ref[SubmissionGroup]]",
    "path": "Opaque",
    "pipeline_stage_num": "Opt[int]",
    "num_jobs": "int",
    "submitted_jobs": "int",
    "completed_jobs": "int",
    "is_complete": "bool",
    "is_canceled": "bool",
    "version": "int",
})

record("SubmissionGroup", file="jade/models/submission_group.py", pydantic=True, fields={
    "name": "Name",
    "submitter_params": "Ref[SubmitterParams]",
})

record("SubmitterParams", file="jade/models/submitter_params.py", pydantic=True, fields={
    "generate_reports": "bool",
    "hpc_config": "Ref[HpcConfig]",
    "max_nodes": "Opt[int]",
    "num_parallel_processes_per_node": "Opt[int]",
    "per_node_batch_size": "int",
    "node_setup_script": "Opt[Opaque]",
    "node_shutdown_script": "Opt[Opaque]",
    "poll_interval": "int",
    "resource_monitor_interval": "Opt[int]",
    "resource_monitor_type": "Enum[ResourceMonitorType]",
    "resource_monitor_stats": "Opaque",
    "try_add_blocked_jobs": "bool",
    "time_based_batching": "bool",
    "dry_run": "bool",
    "verbose": "bool",
    "singularity_params": "Opt[Ref[SingularityParams]]",
    "distributed_submitter": "bool",
    # ghost view of the parsed walltime in seconds (get_wall_time() contract)
    "wall_time_s": "int",
}, extra_attrs={"wall_time_s"})

record("SingularityParams", file="jade/models/singularity.py", pydantic=True, fields={
    "enabled": "bool",
    "setup_commands": "Opaque",
    "run_command": "Opaque",
    "load_command": "Opaque",
    "container": "Opaque",
})

record("HpcConfig", file="jade/models/hpc.py", pydantic=True, fields={
    "hpc_type": "Enum[HpcType]",
    "job_prefix": "Opaque",
    "hpc": "Opaque",
})

# A job of the user's configuration (GenericCommandParameters and other JobParametersInterface
# implementations).  `name`, `estimated_run_minutes`, `submission_group`,
# `cancel_on_blocking_job_failure` are read-only properties of the real class that return the
# pydantic model's field; they are modelled as fields (abstract view).  blocked_by is the
# model's set, reached through get_blocking_jobs/set_blocking_jobs/remove_blocking_job.
record("JadeJob", file="jade/extensions/generic_command/generic_command_parameters.py", cls="GenericCommandParameters",
       check_attrs=False, fields={
           "name": "Name",
           "estimated_run_minutes": "Opt[int]",
           "submission_group": "Opt[Name]",
           "cancel_on_blocking_job_failure": "bool",
           "blocked_by": "Set[Name]",
           "extension": "Opaque",
           "command": "Str",
           "append_job_name": "bool",
           "append_output_dir": "bool",
           "job_id": "Opt[int]",
       }, extra_attrs={"blocked_by"})

# ---- library functions (assumed contracts; listed in every evidence file that uses them) ------
contract("timedelta", kind="assumed", pure=True, note="heap-independent",
         params=[("days", "int", "0"), ("seconds", "int", "0"), ("minutes", "int", "0"), ("hours", "int", "0")],
         returns="int",
         ensures=["result == 86400 * days + seconds + 60 * minutes + 3600 * hours"])

# sum of the estimated run time (seconds) of the jobs of a batch
from pyvc.spec import fold
fold("est_s", "Ref[JadeJob]", "60 * val(x.estimated_run_minutes)")

# ---- results ------------------------------------------------------------------------------------------
record("Result", file="jade/result.py", fields={
    "name": "Name",
    "return_code": "int",
    "status": "Name",
    "exec_time_s": "real",
    "completion_time": "real",
    "hpc_job_id": "Opt[Name]",
}, extra_attrs={"name", "return_code", "status", "exec_time_s", "completion_time", "hpc_job_id", "_fields", "_asdict"})
