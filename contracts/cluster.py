"""Contracts for jade/jobs/cluster.py: persisted status (C09), single submitter / stale writes (C10)."""
from pyvc.spec import record, contract, define, ghost, fold, fold_le, opaque_fn

F = "jade/jobs/cluster.py"

# ---- ghost model of the shared directory ------------------------------------------------------------
ghost("cluster_lock", "bool")            # this process holds cluster_config.json.lock
ghost("lock_marker_left", "bool")        # the deliberate dead-lock marker was re-created after an exception
ghost("files", "Dict[Opaque,Opaque]")    # path -> text of the JSON files
ghost("vfiles", "Dict[Opaque,int]")      # path -> integer in the *_version.txt files
ghost("file_writes", "int")              # number of file writes performed (to state "disk unchanged")

# number of jobs marked done / submitted-or-done in a job list (snoc-recursive sums)
fold("n_done", "Ref[Job]", "1 if x.state == JobState.DONE else 0", bounds=(0, 1))
fold("n_sub", "Ref[Job]", "0 if x.state == JobState.NOT_SUBMITTED else 1", bounds=(0, 1))
fold_le("n_done", "n_sub")

# projections of the serialized ClusterConfig / JobStatus text (T-json: the text determines the fields)
define("t_submitter", ["t"], 'uf("t_submitter", "Opt[Name]", t)')
define("t_complete", ["t"], 'uf("t_complete", "bool", t)')
define("t_canceled", ["t"], 'uf("t_canceled", "bool", t)')
define("t_submitted", ["t"], 'uf("t_submitted", "int", t)')
define("t_completed", ["t"], 'uf("t_completed", "int", t)')
define("t_version", ["t"], 'uf("t_version", "int", t)')
define("t_ndone", ["t"], 'uf("t_ndone", "int", t)')
define("t_nsub", ["t"], 'uf("t_nsub", "int", t)')
define("disk_cfg", ["cl"], "ghost.files[cl._config_file]")
define("disk_js", ["cl"], "ghost.files[cl._job_status_file]")
define("disk_cv", ["cl"], "ghost.vfiles[cl._config_version_file]")
define("disk_jv", ["cl"], "ghost.vfiles[cl._job_status_version_file]")

contract("ClusterConfig.json", kind="assumed", pure=True,
         params=[("self", "Ref[ClusterConfig]")], returns="Opaque",
         ensures=["uf('text_kind', 'int', result) == 0","t_submitter(result) == self.submitter and t_complete(result) == self.is_complete and t_canceled(result) == self.is_canceled",
                  "t_submitted(result) == self.submitted_jobs and t_completed(result) == self.completed_jobs and t_version(result) == self.version"],
         note="pydantic .json(): T-json/T-pyd - the text determines every field (stated for the fields the properties mention)")
contract("JobStatus.json", kind="assumed", pure=True, reads=["JobStatus", "Job"],
         params=[("self", "Ref[JobStatus]")], returns="Opaque",
         ensures=["uf('text_kind', 'int', result) == 1", "t_version(result) == self.version", "t_ndone(result) == fold('n_done', self.jobs)", "t_nsub(result) == fold('n_sub', self.jobs)"],
         note="pydantic .json() of the job status (T-json/T-pyd)")

# hash(): injective on the texts compared (T-hash: no collisions); applied as an uninterpreted function
contract("hash", kind="assumed", pure=True, note="heap-independent",
         params=[("x", "Opaque")], returns="int",
         ensures=["result == uf('hash', 'int', x)", "uf('unhash', 'Opaque', result) == x"],
         )

# ---- file helpers (I/O boundary: assumed) -------------------------------------------------------------
contract("Cluster._get_config_version", kind="assumed",
         params=[("self", "Ref[Cluster]")], returns="int", requires=["ghost.cluster_lock"],
         ensures=["result == disk_cv(self)"], note="reads config_version.txt (T-fs)")
contract("Cluster._get_job_status_version", kind="assumed",
         params=[("self", "Ref[Cluster]")], returns="int", requires=["ghost.cluster_lock"],
         ensures=["result == disk_jv(self)"], note="reads job_status_version.txt (T-fs)")
contract("Cluster._serialize_config_version", kind="assumed",
         params=[("self", "Ref[Cluster]")],
         ensures=["disk_cv(self) == self._config.version",
                  "forall(p, Opaque, implies(p != self._config_version_file, ghost.vfiles[p] == old(ghost.vfiles)[p] and (p in ghost.vfiles) == (p in old(ghost.vfiles))))",
                  "ghost.file_writes == old(ghost.file_writes) + 1"],
         modifies=["ghost.vfiles", "ghost.file_writes"], note="writes config_version.txt (T-fs)")
contract("Cluster._serialize_job_status_version", kind="assumed",
         params=[("self", "Ref[Cluster]")],
         ensures=["disk_jv(self) == val(self._job_status).version",
                  "forall(p, Opaque, implies(p != self._job_status_version_file, ghost.vfiles[p] == old(ghost.vfiles)[p] and (p in ghost.vfiles) == (p in old(ghost.vfiles))))",
                  "ghost.file_writes == old(ghost.file_writes) + 1"],
         modifies=["ghost.vfiles", "ghost.file_writes"], note="writes job_status_version.txt (T-fs)")
contract("Cluster._serialize_file", kind="assumed",
         params=[("text", "Opaque"), ("filename", "Opaque")],
         ensures=["ghost.files[filename] == text and filename in ghost.files",
                  "forall(p, Opaque, implies(p != filename, ghost.files[p] == old(ghost.files)[p] and (p in ghost.files) == (p in old(ghost.files))))",
                  "ghost.file_writes == old(ghost.file_writes) + 1"],
         modifies=["ghost.files", "ghost.file_writes"],
         note="rename-to-backup, write, remove backup (T-fs: atomic at call granularity)")

# distinct paths of the four files of one Cluster (os.path.join of the same directory with different names)
define("paths_distinct", ["cl"], "cl._config_file != cl._job_status_file and cl._config_version_file != cl._job_status_version_file")

# the disk copy of the config mirrors the in-memory one (fields the properties mention)
define("cfg_mirrored", ["cl"], """(
    t_submitter(disk_cfg(cl)) == cl._config.submitter and t_complete(disk_cfg(cl)) == cl._config.is_complete
    and t_canceled(disk_cfg(cl)) == cl._config.is_canceled and t_submitted(disk_cfg(cl)) == cl._config.submitted_jobs
    and t_completed(disk_cfg(cl)) == cl._config.completed_jobs and t_version(disk_cfg(cl)) == cl._config.version
    and disk_cv(cl) == cl._config.version)""")
define("js_mirrored", ["cl"], """(
    t_version(disk_js(cl)) == val(cl._job_status).version and disk_jv(cl) == val(cl._job_status).version
    and t_ndone(disk_js(cl)) == fold('n_done', val(cl._job_status).jobs) and t_nsub(disk_js(cl)) == fold('n_sub', val(cl._job_status).jobs))""")
# _config_hash is None or the hash of a config text; when this handle is current it is the hash of the text on disk
define("Inv_hash", ["cl"], """(
    (isnone(cl._config_hash) or uf('text_kind', 'int', uf('unhash', 'Opaque', val(cl._config_hash))) == 0)
    and implies(cl._config.version == disk_cv(cl), isnone(cl._config_hash) or uf('unhash', 'Opaque', val(cl._config_hash)) == disk_cfg(cl)))""")

# ---- serialization with version check (C10) -------------------------------------------------------------
contract("Cluster._serialize", file=F,
         params=[("self", "Ref[Cluster]"), ("reason", "Opaque")],
         # Inv_hash (the cached hash belongs to the text on disk when the handle is current) is a hypothesis of the clauses that need it, not a
         # precondition: the CLI callbacks' `finally: demote_from_submitter()` runs on whatever handle an exception left behind
         requires=["ghost.cluster_lock", "paths_distinct(self)"],
         ensures=[
             "implies(old(Inv_hash(self)), Inv_hash(self))",
             # whether or not the text had to be rewritten, the file now holds the in-memory config (T-hash)
             "implies(old(Inv_hash(self)), cfg_mirrored(self))",
             "self._config.version == old(self._config.version) or self._config.version == old(self._config.version) + 1",
             "implies(self._config.version == old(self._config.version), ghost.files == old(ghost.files) and ghost.vfiles == old(ghost.vfiles) "
             "and ghost.file_writes == old(ghost.file_writes))",
             "implies(self._config.version == old(self._config.version) + 1, ghost.file_writes == old(ghost.file_writes) + 2)",
             "disk_js(self) == old(disk_js(self)) and disk_jv(self) == old(disk_jv(self))",
             "unchanged(ClusterConfig.version, self._config)",
         ],
         raises={"ConfigVersionMismatch": {
             # C10: a stale handle cannot write - rejected before anything is touched
             "when": ["self._config.version != disk_cv(self)"], "iff": True,
             "ensures": ["implies(old(Inv_hash(self)), Inv_hash(self))", "ghost.files == old(ghost.files) and ghost.vfiles == old(ghost.vfiles) and ghost.file_writes == old(ghost.file_writes)",
                         "self._config.version == old(self._config.version)"]}},
         modifies=["ClusterConfig.version", "self._config_hash", "ghost.files", "ghost.vfiles", "ghost.file_writes"])

contract("Cluster._serialize_jobs", file=F,
         params=[("self", "Ref[Cluster]"), ("reason", "Opaque")],
         requires=["ghost.cluster_lock", "paths_distinct(self)", "Inv_hash(self)", "not isnone(self._job_status)"],
         ensures=[
             "js_mirrored(self)",
             "val(self._job_status).version == old(val(self._job_status).version) + 1",
             "ghost.file_writes == old(ghost.file_writes) + 2",
             "disk_cfg(self) == old(disk_cfg(self)) and disk_cv(self) == old(disk_cv(self))",
             "unchanged(JobStatus.version, val(self._job_status))",
         ],
         raises={"JobStatusVersionMismatch": {
             "when": ["val(self._job_status).version != disk_jv(self)"], "iff": True,
             "ensures": ["Inv_hash(self)", "ghost.files == old(ghost.files) and ghost.vfiles == old(ghost.vfiles) and ghost.file_writes == old(ghost.file_writes)",
                         "val(self._job_status).version == old(val(self._job_status).version)"]}},
         modifies=["JobStatus.version", "self._job_status_hash", "ghost.files", "ghost.vfiles", "ghost.file_writes"])

# ---- typestate: promoted handle (C10) ------------------------------------------------------------------
# Cluster.g_promoted is a ghost field: this handle won the promotion and has not demoted yet.

define("Inv_handle", ["cl"], "paths_distinct(cl) and Inv_hash(cl) and implies(cl.g_promoted, cl._config.submitter == cl._hostname)")

contract("Cluster._promote_to_submitter", file=F,
         params=[("self", "Ref[Cluster]"), ("serialize", "bool", "True")], returns="bool",
         requires=["ghost.cluster_lock", "Inv_handle(self)", "not self.g_promoted"],
         ensures=[
             "Inv_handle(self)",
             # C10: promotion fails while anybody holds the role, and then nothing is written
             "result == isnone(old(self._config.submitter))",
             "implies(not result, ghost.file_writes == old(ghost.file_writes) and self._config.submitter == old(self._config.submitter))",
             "implies(result, self._config.submitter == self._hostname)",
             "implies(result and serialize, cfg_mirrored(self))",
         ],
         ghost_ensures=["self.g_promoted == result"],
         raises={"ConfigVersionMismatch": {
             "when": ["isnone(self._config.submitter) and serialize and self._config.version != disk_cv(self)"], "iff": True,
             "ensures": ["Inv_handle(self)", "ghost.files == old(ghost.files) and ghost.vfiles == old(ghost.vfiles) and ghost.file_writes == old(ghost.file_writes)"],
             "frame": False}},
         modifies=["self._config.submitter", "ClusterConfig.version", "self._config_hash", "ghost.files", "ghost.vfiles", "ghost.file_writes",
                   "self.g_promoted"])

contract("Cluster._demote_from_submitter", file=F,
         params=[("self", "Ref[Cluster]"), ("serialize", "bool", "True")],
         requires=["ghost.cluster_lock", "paths_distinct(self)",
                   "self.g_promoted and self._config.submitter == self._hostname"],     # C10 discipline: only the promoted handle demotes (JADE's own assert)
         ensures=["implies(old(Inv_handle(self)), Inv_handle(self))", "isnone(self._config.submitter)", "implies(serialize and old(Inv_handle(self)), cfg_mirrored(self))"],
         ghost_ensures=["not self.g_promoted"],
         raises={"ConfigVersionMismatch": {
             "when": ["serialize and self._config.version != disk_cv(self)"], "iff": True,
             "ensures": ["ghost.files == old(ghost.files) and ghost.vfiles == old(ghost.vfiles) and ghost.file_writes == old(ghost.file_writes)"],
             "frame": False}},
         modifies=["self._config.submitter", "ClusterConfig.version", "self._config_hash", "ghost.files", "ghost.vfiles", "ghost.file_writes",
                   "self.g_promoted"])

contract("Cluster._mark_complete", file=F,
         params=[("self", "Ref[Cluster]")],
         requires=["ghost.cluster_lock", "Inv_handle(self)", "self.g_promoted",
                   "not self._config.is_complete"],       # C05: completion happens once (JADE's assert)
         ensures=["Inv_handle(self)", "self._config.is_complete", "cfg_mirrored(self)"],
         raises={"ConfigVersionMismatch": {
             "when": ["self._config.version != disk_cv(self)"], "iff": True,
             "ensures": ["Inv_handle(self)", "ghost.files == old(ghost.files) and ghost.vfiles == old(ghost.vfiles) and ghost.file_writes == old(ghost.file_writes)"],
             "frame": False}},
         modifies=["self._config.is_complete", "ClusterConfig.version", "self._config_hash", "ghost.files", "ghost.vfiles", "ghost.file_writes"])

contract("Cluster._mark_canceled", file=F,
         params=[("self", "Ref[Cluster]")],
         requires=["ghost.cluster_lock", "Inv_handle(self)", "self.g_promoted"],
         ensures=["Inv_handle(self)", "self._config.is_canceled", "cfg_mirrored(self)"],
         raises={"ConfigVersionMismatch": {
             "when": ["self._config.version != disk_cv(self)"], "iff": True,
             "ensures": ["Inv_handle(self)", "ghost.files == old(ghost.files) and ghost.vfiles == old(ghost.vfiles) and ghost.file_writes == old(ghost.file_writes)"],
             "frame": False}},
         modifies=["self._config.is_canceled", "ClusterConfig.version", "self._config_hash", "ghost.files", "ghost.vfiles", "ghost.file_writes"])

# ---- lock wrappers (parametric contracts, DESIGN 3.4.4; SoftFileLock mutual exclusion is T-lock) -------------
contract("Cluster._do_action_under_lock", kind="assumed", lock_wrapper={"ghost": "cluster_lock", "marker": "lock_marker_left"},
         params=[("self", "Ref[Cluster]")],
         note="acquires cluster_config.json.lock, calls the bound method once, releases on every exit; on an exception the lock file is "
              "re-created on purpose (dead-lock marker). Body uses filelock.SoftFileLock and *args/**kwargs: trusted")
contract("Cluster.do_action_under_lock", kind="assumed", lock_wrapper={"ghost": "cluster_lock", "marker": "lock_marker_left", "func_index": 1},
         params=[], note="static variant of the cluster lock wrapper")

# public operations = private operation under the lock
for pub, priv, params, ret in [
    ("promote_to_submitter", "_promote_to_submitter", [("serialize", "bool", "True")], "bool"),
    ("demote_from_submitter", "_demote_from_submitter", [("serialize", "bool", "True")], "None"),
    ("mark_complete", "_mark_complete", [], "None"),
    ("mark_canceled", "_mark_canceled", [], "None"),
]:
    c = _priv = None
    from pyvc.spec import CONTRACTS as _C
    _p = _C["Cluster." + priv]
    contract("Cluster." + pub, file=F,
             params=[("self", "Ref[Cluster]")] + params, returns=ret,
             requires=["not ghost.cluster_lock"] + [r for r in _p.requires if r != "ghost.cluster_lock"],
             ensures=list(_p.ensures) + ["not ghost.cluster_lock"],
             ghost_ensures=list(_p.ghost_ensures),
             raises=dict({k: dict(v, ensures=list(v.get("ensures", [])) + ["not ghost.cluster_lock", "ghost.lock_marker_left"]) for k, v in _p.raises.items()},
                         Timeout={"ensures": ["ghost.files == old(ghost.files) and ghost.vfiles == old(ghost.vfiles) and ghost.file_writes == old(ghost.file_writes)",
                                              "not ghost.cluster_lock"], "frame": True}),
             modifies=list(_p.modifies) + ["ghost.cluster_lock", "ghost.lock_marker_left"])

# ---- the persisted-status invariant J (C09) and the status update ----------------------------------------
define("JOBS", ["cl"], "val(cl._job_status).jobs")
define("rank", ["s"], "(0 if s == JobState.NOT_SUBMITTED else (1 if s == JobState.SUBMITTED else 2))")
# J in two parts: the counters, and the rest (finding F8 concerns the submitted counter only)
define("J_COUNTS", ["cl"], """(
    0 <= cl._config.completed_jobs and cl._config.completed_jobs <= cl._config.submitted_jobs
    and cl._config.submitted_jobs <= cl._config.num_jobs
    and cl._config.completed_jobs == fold('n_done', JOBS(cl)) and cl._config.submitted_jobs == fold('n_sub', JOBS(cl)))""")
define("J_REST", ["cl"], """(
    cl._config.num_jobs == len(JOBS(cl))
    and forall(i, range(len(JOBS(cl))), implies(JOBS(cl)[i].state != JobState.NOT_SUBMITTED, empty(JOBS(cl)[i].blocked_by)))
    and distinct_job_names(cl))""")
define("J", ["cl"], "(J_COUNTS(cl) and J_REST(cl))")

UJ_DEFS = {
    "CFG": ([], "self._config"),
    "JL": ([], "val(self._job_status).jobs"),
    "NJ": ([], "len(val(self._job_status).jobs)"),
    "stored_in": (["nm", "st"], "exists(m, range(NJ()), JL()[m].name == nm and JL()[m].state == st)"),
    "CN": ([], "nameset(canceled_jobs)"),
    "SN": ([], "nameset(submitted_jobs)"),
    # frame shared by all loops: the job list, the names and the handle's file paths never change
    "FRAME": ([], "val(self._job_status).jobs == old(val(self._job_status).jobs) and self._job_status == old(self._job_status) "
                  "and self._config == old(self._config) and unchanged(Job.name) and unchanged(Job.cancel_on_blocking_job_failure) "
                  "and CFG().num_jobs == old(CFG().num_jobs) and CFG().submitter == old(CFG().submitter) and CFG().version == old(CFG().version) "
                  "and CFG().is_complete == old(CFG().is_complete) and CFG().is_canceled == old(CFG().is_canceled)"),
    "MONO": ([], "forall(r, Job, rank(r.state) >= rank(old(r.state)))"),
    "LOOKUP": ([], "forall(m, range(NJ()), JL()[m].name in status_lookup and status_lookup[JL()[m].name] == JL()[m])"),
}
UJ_PRE = [
    "ghost.cluster_lock", "Inv_handle(self)", "self.g_promoted", "not isnone(self._job_status)",
    "distinct_job_names(self)", "CFG().num_jobs == NJ()",
    # in-memory counters lag behind by the jobs canceled in this round (their state is already DONE)
    "CFG().completed_jobs == fold('n_done', JL()) - len(canceled_jobs)",
    "CFG().submitted_jobs == fold('n_sub', JL()) - len(canceled_jobs)",
    "CFG().completed_jobs >= 0",
    "forall(i, range(NJ()), implies(JL()[i].state != JobState.NOT_SUBMITTED, empty(JL()[i].blocked_by)))",
    # submitted: distinct names of stored not-submitted jobs
    "forall(k, range(len(submitted_jobs)), forall(m, range(k), submitted_jobs[k].name != submitted_jobs[m].name))",
    "forall(k, range(len(submitted_jobs)), stored_in(submitted_jobs[k].name, JobState.NOT_SUBMITTED))",
    # blocked: stored not-submitted jobs that are not being submitted; their blocker sets only shrink
    "forall(k, range(len(blocked_jobs)), stored_in(blocked_jobs[k].name, JobState.NOT_SUBMITTED) and blocked_jobs[k].name not in SN())",
    "forall(k, range(len(blocked_jobs)), forall(m, range(NJ()), implies(JL()[m].name == blocked_jobs[k].name, "
    "subset(blocked_jobs[k].blocked_by, JL()[m].blocked_by))))",
    # canceled: distinct names, all reported as completed, already DONE in memory
    "forall(k, range(len(canceled_jobs)), forall(m, range(k), canceled_jobs[k].name != canceled_jobs[m].name))",
    "forall(k, range(len(canceled_jobs)), canceled_jobs[k].name in completed_job_names and stored_in(canceled_jobs[k].name, JobState.DONE))",
    # completed names: submitted jobs (or the canceled ones), none of them submitted or blocked in this call
    "forall(x, completed_job_names, (x in CN() and stored_in(x, JobState.DONE)) or (x not in CN() and stored_in(x, JobState.SUBMITTED)))",
    "forall(x, completed_job_names, x not in SN() and forall(k, range(len(blocked_jobs)), blocked_jobs[k].name != x))",
]
UJ_POST = [
    # J, clause by clause
    "0 <= CFG().completed_jobs and CFG().completed_jobs <= CFG().submitted_jobs and CFG().submitted_jobs <= CFG().num_jobs and CFG().num_jobs == NJ()",
    "CFG().completed_jobs == fold('n_done', JL())",
    "CFG().submitted_jobs == fold('n_sub', JL())",
    "forall(i, range(NJ()), implies(JL()[i].state != JobState.NOT_SUBMITTED, empty(JL()[i].blocked_by)))",
    "distinct_job_names(self)",
    "Inv_handle(self)", "cfg_mirrored(self)", "js_mirrored(self)",
    "val(self._job_status).hpc_job_ids == hpc_job_ids and val(self._job_status).batch_index == batch_index",
    # M: only forward
    "CFG().completed_jobs >= old(CFG().completed_jobs) and CFG().submitted_jobs >= old(CFG().submitted_jobs)",
    "MONO()",
    "forall(m, range(NJ()), subset(JL()[m].blocked_by, old(JL()[m].blocked_by)))",
    "forall(k, range(len(submitted_jobs)), forall(m, range(NJ()), implies(JL()[m].name == submitted_jobs[k].name, JL()[m].state != JobState.NOT_SUBMITTED)))",
    "forall(m, range(NJ()), implies(JL()[m].name in completed_job_names, JL()[m].state == JobState.DONE))",
    "forall(m, range(NJ()), implies(JL()[m].name not in completed_job_names and JL()[m].name not in SN(), JL()[m].state == old(JL()[m].state)))",
    "val(self._job_status).version == old(val(self._job_status).version) + 1",
    "CFG().is_complete == old(CFG().is_complete) and CFG().is_canceled == old(CFG().is_canceled) and CFG().submitter == old(CFG().submitter)",
    "val(self._job_status).jobs == old(val(self._job_status).jobs) and unchanged(Job.name)",
]
COUNTS = lambda dsub, dnsub, dcomp, dndone: [
    f"CFG().submitted_jobs == old(CFG().submitted_jobs) + {dsub}",
    f"fold('n_sub', JL()) == old(fold('n_sub', JL())) + {dnsub}",
    f"CFG().completed_jobs == old(CFG().completed_jobs) + {dcomp}",
    f"fold('n_done', JL()) == old(fold('n_done', JL())) + {dndone}",
]
NS_, S_, D_ = "JobState.NOT_SUBMITTED", "JobState.SUBMITTED", "JobState.DONE"
contract("Cluster._update_job_status", file=F,
         params=[("self", "Ref[Cluster]"), ("submitted_jobs", "List[Ref[Job]]"), ("blocked_jobs", "List[Ref[Job]]"),
                 ("canceled_jobs", "List[Ref[Job]]"), ("completed_job_names", "Set[Name]"), ("hpc_job_ids", "List[Name]"), ("batch_index", "int")],
         locals={"status_lookup": "Dict[Name,Ref[Job]]", "processed": "Set[Name]"},
         defs=UJ_DEFS, requires=UJ_PRE, ensures=UJ_POST,
         loops={
             1: {"invariant": ["FRAME()", "MONO()", "LOOKUP()", "unchanged(Job.blocked_by)"] + COUNTS("_k1", "_k1", "0", "0") + [
                 "forall(k, range(_k1), submitted_jobs[k].name in processed)",
                 "forall(x, processed, exists(k, range(_k1), submitted_jobs[k].name == x))",
                 f"forall(m, range(NJ()), implies(JL()[m].name in processed, JL()[m].state == {S_}))",
                 "forall(m, range(NJ()), implies(JL()[m].name not in processed, JL()[m].state == old(JL()[m].state)))",
             ]},
             2: {"invariant": ["FRAME()", "MONO()", "LOOKUP()"] + COUNTS("len(submitted_jobs)", "len(submitted_jobs)", "0", "0") + [
                 "forall(x, Name, implies(x in SN(), x in processed))",
                 "forall(x, processed, x in SN() or exists(k, range(_k2), blocked_jobs[k].name == x))",
                 "forall(k, range(_k2), blocked_jobs[k].name in processed)",
                 f"forall(m, range(NJ()), implies(JL()[m].name in SN(), JL()[m].state == {S_}))",
                 "forall(m, range(NJ()), implies(JL()[m].name not in SN(), JL()[m].state == old(JL()[m].state)))",
                 "forall(m, range(NJ()), subset(JL()[m].blocked_by, old(JL()[m].blocked_by)))",
                 "forall(k, range(len(blocked_jobs)), forall(m, range(NJ()), implies(JL()[m].name == blocked_jobs[k].name, "
                 "subset(blocked_jobs[k].blocked_by, old(JL()[m].blocked_by)))))",
             ]},
             3: {"invariant": ["FRAME()", "MONO()", "LOOKUP()"] + COUNTS("len(submitted_jobs) + _k3", "len(submitted_jobs)", "0", "0") + [
                 "forall(x, processed, x in SN() or exists(k, range(len(blocked_jobs)), blocked_jobs[k].name == x))",
                 f"forall(m, range(NJ()), implies(JL()[m].name in SN(), JL()[m].state == {S_}))",
                 "forall(m, range(NJ()), implies(JL()[m].name not in SN(), JL()[m].state == old(JL()[m].state)))",
                 "forall(m, range(NJ()), subset(JL()[m].blocked_by, old(JL()[m].blocked_by)))",
             ]},
             4: {"invariant": ["FRAME()", "MONO()", "LOOKUP()"] + COUNTS(
                 "len(submitted_jobs) + len(canceled_jobs)", "len(submitted_jobs)", "card(_seen4)", "card(_seen4) - card_in(_seen4, CN())") + [
                 "forall(x, processed, x in SN() or exists(k, range(len(blocked_jobs)), blocked_jobs[k].name == x))",
                 "subset(_seen4, completed_job_names)",
                 f"forall(m, range(NJ()), implies(JL()[m].name in SN(), JL()[m].state == {S_}))",
                 f"forall(m, range(NJ()), implies(JL()[m].name in _seen4, JL()[m].state == {D_}))",
                 "forall(m, range(NJ()), implies(JL()[m].name not in SN() and JL()[m].name not in _seen4, JL()[m].state == old(JL()[m].state)))",
                 "forall(m, range(NJ()), subset(JL()[m].blocked_by, old(JL()[m].blocked_by)))",
             ]},
             5: {"invariant": ["FRAME()", "MONO()"] + COUNTS(
                 "len(submitted_jobs) + len(canceled_jobs)", "len(submitted_jobs)", "card(completed_job_names)", "card(completed_job_names) - len(canceled_jobs)") + [
                 f"forall(m, range(NJ()), implies(JL()[m].name in SN(), JL()[m].state == {S_}))",
                 f"forall(m, range(NJ()), implies(JL()[m].name in completed_job_names, JL()[m].state == {D_}))",
                 "forall(m, range(NJ()), implies(JL()[m].name not in SN() and JL()[m].name not in completed_job_names, JL()[m].state == old(JL()[m].state)))",
                 "forall(m, range(NJ()), subset(JL()[m].blocked_by, old(JL()[m].blocked_by)))",
                 f"forall(m, range(_k5), implies(_it5[m].state != {NS_}, empty(_it5[m].blocked_by)))",
                 f"forall(m, range(NJ()), implies(old(JL()[m].state) != {NS_}, empty(JL()[m].blocked_by)))",
             ]},
         },
         raises={
             "ConfigVersionMismatch": {"when": ["CFG().version != disk_cv(self)"], "iff": True,
                                       "ensures": ["ghost.files == old(ghost.files) and ghost.vfiles == old(ghost.vfiles) and ghost.file_writes == old(ghost.file_writes)"],
                                       "frame": False},
             # C10: never "config written, job status rejected" for a handle that is current on the config
             "JobStatusVersionMismatch": {"when": ["val(self._job_status).version != disk_jv(self)"], "ensures": [], "frame": False},
         },
         modifies=["JobStatus.hpc_job_ids", "JobStatus.batch_index", "Job.state", "Job.blocked_by", "ClusterConfig.submitted_jobs",
                   "ClusterConfig.completed_jobs", "ClusterConfig.version", "JobStatus.version", "self._config_hash", "self._job_status_hash",
                   "ghost.files", "ghost.vfiles", "ghost.file_writes"])

_uj = contract.__globals__["CONTRACTS"]["Cluster._update_job_status"]
contract("Cluster.update_job_status", file=F,
         params=list(_uj.params), defs=UJ_DEFS,
         requires=["not ghost.cluster_lock"] + [r for r in UJ_PRE if r != "ghost.cluster_lock"],
         ensures=UJ_POST + ["not ghost.cluster_lock"],
         raises=dict({k: dict(v, ensures=list(v.get("ensures", [])) + ["not ghost.cluster_lock", "ghost.lock_marker_left"]) for k, v in _uj.raises.items()},
                     Timeout={"ensures": ["ghost.files == old(ghost.files) and ghost.vfiles == old(ghost.vfiles) and ghost.file_writes == old(ghost.file_writes)",
                                          "not ghost.cluster_lock"]},
                     AnyException={"ensures": ["not ghost.cluster_lock"], "frame": False}),      # the wrapper releases the lock whatever is raised inside
         modifies=list(_uj.modifies) + ["ghost.cluster_lock", "ghost.lock_marker_left"])

contract("Cluster._are_all_jobs_complete", file=F,
         params=[("self", "Ref[Cluster]")], returns="bool",
         requires=["not isnone(self._job_status)", "J(self)", "fold_hint('n_done', JOBS(self))"],
         ensures=["result == forall(i, range(len(JOBS(self))), JOBS(self)[i].state == JobState.DONE)"],
         loops={1: {"invariant": ["forall(i, range(_k1), _it1[i].state == JobState.DONE)"]}})
contract("Cluster.are_all_jobs_complete", file=F,
         params=[("self", "Ref[Cluster]")], returns="bool",
         requires=["not ghost.cluster_lock", "not isnone(self._job_status)", "J(self)"],
         ensures=["result == forall(i, range(len(JOBS(self))), JOBS(self)[i].state == JobState.DONE)", "not ghost.cluster_lock"],
         raises={"Timeout": {"ensures": ["not ghost.cluster_lock"]}, "AnyException": {"ensures": ["not ghost.cluster_lock"], "frame": False}},
         modifies=["ghost.cluster_lock", "ghost.lock_marker_left"])

contract("Cluster._complete_hpc_job_id", file=F,
         params=[("self", "Ref[Cluster]"), ("job_id", "Name"), ("serialize", "bool", "True")],
         requires=["ghost.cluster_lock", "Inv_handle(self)", "self.g_promoted", "not isnone(self._job_status)",
                   "job_id in nameset_ids(self)" if False else "exists(i, range(len(val(self._job_status).hpc_job_ids)), val(self._job_status).hpc_job_ids[i] == job_id)"],
         ensures=["len(val(self._job_status).hpc_job_ids) == old(len(val(self._job_status).hpc_job_ids)) - 1",
                  "implies(serialize, js_mirrored(self))"],
         raises={"JobStatusVersionMismatch": {"when": ["serialize and val(self._job_status).version != disk_jv(self)"], "iff": True,
                                              "ensures": ["ghost.files == old(ghost.files) and ghost.vfiles == old(ghost.vfiles)"], "frame": False}},
         modifies=["JobStatus.hpc_job_ids", "JobStatus.version", "self._job_status_hash", "ghost.files", "ghost.vfiles", "ghost.file_writes"])
