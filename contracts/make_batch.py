"""Contracts for HpcSubmitter batch construction (C01, C02, C05, C07)."""
from pyvc.spec import record, contract, define

F = "jade/hpc/hpc_submitter.py"

record("HpcSubmitter", file=F, fields={
    "_config": "Ref[JobConfiguration]",
    "_cluster": "Ref[Cluster]",
    "_batch_index": "int",
    "_config_file": "Opaque",
    "_base_config": "Dict[Name,Opaque]",
    "_hpc_mgr": "Ref[HpcManager]",
    "_output": "Opaque",
    "_max_nodes": "int",
    "_poll_interval": "int",
    "_status_collector": "Ref[HpcStatusCollector]",
    "_submission_groups": "Opaque",
}, consts={"LOCK_FILENAME": "submitter.lock"})

# Abstract view of a JobConfiguration: the job registered under each name (ghost map view of
# JobContainerByName._jobs, whose add_job/get_job contracts are verified in contracts/config.py).
record("JobConfiguration", file="jade/jobs/job_configuration.py", fields={
    "_jobs": "Ref[JobContainerByName]",
    "_job_names": "Opt[Opaque]",
    "_submission_groups": "List[Ref[SubmissionGroup]]",
    "_setup_command": "Opt[Opaque]",
    "_teardown_command": "Opt[Opaque]",
    "_node_setup_command": "Opt[Opaque]",
    "_node_teardown_command": "Opt[Opaque]",
})

record("JobContainerByName", file="jade/jobs/job_container_by_name.py", fields={
    "_jobs": "Dict[Name,Ref[JadeJob]]",
})

define("cfgjob", ["s", "nm"], "s._config._jobs._jobs[nm]")
define("known", ["s", "nm"], "nm in s._config._jobs._jobs and s._config._jobs._jobs[nm].name == nm")

contract("JobConfiguration.get_job", kind="assumed", pure=True, reads=["JobConfiguration", "JobContainerByName"],
         params=[("self", "Ref[JobConfiguration]"), ("name", "Name")], returns="Ref[JadeJob]",
         requires=["name in self._jobs._jobs"],
         ensures=["result == self._jobs._jobs[name]"],
         note="JobConfiguration.get_job -> JobContainerByName.get_job (dict lookup; verified separately in C17 contracts); "
              "the names-only reload branch (_job_names is not None and no jobs) is not taken by a submitter")

contract("JadeJob.set_blocking_jobs", kind="assumed",
         params=[("self", "Ref[JadeJob]"), ("blocking_jobs", "Set[Name]")],
         ensures=["self.blocked_by == blocking_jobs"], modifies=["self.blocked_by"],
         note="GenericCommandParameters.set_blocking_jobs assigns the pydantic field (validate_assignment copies)")


N = "len(available_jobs)"
INV = [
    "Inv_B(batch)", "not batch._is_ready_to_submit",
    "batch._try_add_blocked_jobs == P().try_add_blocked_jobs",
    "batch._time_based_batching == P().time_based_batching",
    "batch._per_node_batch_size == P().per_node_batch_size",
    "submitted_jobs_by_name == batch._job_names",
    "-1 <= highest_index and highest_index <= len(available_jobs) - 1",
    # cursor: every placed job lies at or below the cursor  (C01 clause b)
    "forall(k, range(len(available_jobs)), implies(available_jobs[k].name in S(), k <= highest_index))",
    # (c)
    "forall(k, range(len(available_jobs)), implies(available_jobs[k].name in S(), "
    "empty(available_jobs[k].blocked_by) or (P().try_add_blocked_jobs and subset(available_jobs[k].blocked_by, S()))))",
    # examined jobs were placed or are blocked (f)
    "forall(k, range(len(available_jobs)), implies(k <= highest_index, available_jobs[k].name in S() or not empty(available_jobs[k].blocked_by)))",
    # blocked_jobs_by_name (e)
    "forall(x, blocked_jobs_by_name, x not in S() and not empty(blocked_jobs_by_name[x].blocked_by) and blocked_jobs_by_name[x].name == x "
    "and exists(k, range(len(available_jobs)), available_jobs[k] == blocked_jobs_by_name[x]))",
    # (g) a job recorded as blocked lies at or below the cursor - or (the cursor stepped back over it) all of its blockers are in this batch
    "forall(x, blocked_jobs_by_name, exists(k, range(len(available_jobs)), available_jobs[k] == blocked_jobs_by_name[x] "
    "and (k <= highest_index or (P().try_add_blocked_jobs and subset(blocked_jobs_by_name[x].blocked_by, S())))))",
    "forall(x, S(), exists(k, range(len(available_jobs)), available_jobs[k].name == x))",
    # the jobs appended to submitted_jobs mirror the batch (a)
    "len(submitted_jobs) == L0() + len(batch._jobs)",
    "forall(k, range(L0()), submitted_jobs[k] == old(submitted_jobs)[k])",
    "forall(k, range(L0(), len(submitted_jobs)), batch._jobs[k - L0()] == cfgjob(self, submitted_jobs[k].name))",
    "forall(k, range(L0(), len(submitted_jobs)), submitted_jobs[k].name in S())",
    # C02/C03: the job description written into the batch configuration carries the blockers that REMAIN (names with an outcome were
    # removed from the persisted record), so the node waits for nothing outside its batch
    "forall(k, range(L0(), len(submitted_jobs)), cfgjob(self, submitted_jobs[k].name).blocked_by == submitted_jobs[k].blocked_by)",
    "forall(x, S(), exists(k, range(L0(), len(submitted_jobs)), submitted_jobs[k].name == x))",
    "forall(k, range(L0(), len(submitted_jobs)), exists(m, range(len(available_jobs)), available_jobs[m] == submitted_jobs[k]))",
    "forall(k, range(L0(), len(submitted_jobs)), forall(m, range(L0(), k), submitted_jobs[k].name != submitted_jobs[m].name))",
    "unchanged(Job.blocked_by) and unchanged(Job.name) and unchanged(Job.state)",
    "unchanged(JadeJob.name) and unchanged(JadeJob.estimated_run_minutes)",
    "blocked_jobs == old(blocked_jobs)",
]
contract("HpcSubmitter._make_batch", file=F,
         params=[("self", "Ref[HpcSubmitter]"), ("available_jobs", "List[Ref[Job]]"), ("submission_group", "Ref[SubmissionGroup]"),
                 ("submitted_jobs", "List[Ref[Job]]"), ("blocked_jobs", "List[Ref[Job]]")],
         returns="Tuple[Ref[_BatchJobs],List[Ref[Job]]]",
         locals={"submitted_jobs_by_name": "Set[Name]", "blocked_jobs_by_name": "Dict[Name,Ref[Job]]", "not_checked": "List[Ref[Job]]"},
         defs={
             "P": ([], "submission_group.submitter_params"),
             "S": ([], "submitted_jobs_by_name"),
             "L0": ([], "old(len(submitted_jobs))"),
         },
         requires=[
             "forall(i, range(len(available_jobs)), forall(j, range(len(available_jobs)), implies(i != j, available_jobs[i].name != available_jobs[j].name)))",
             "forall(i, range(len(available_jobs)), known(self, available_jobs[i].name))",
             # configuration domain (DESIGN C07): enforced by submit-jobs' option checks / run_checks, not here
             "implies(not P().time_based_batching, P().per_node_batch_size >= 1)",
             "implies(P().time_based_batching, not isnone(P().num_parallel_processes_per_node) and val(P().num_parallel_processes_per_node) >= 0)",
             "implies(P().time_based_batching, forall(i, range(len(available_jobs)), not isnone(cfgjob(self, available_jobs[i].name).estimated_run_minutes) "
             "and val(cfgjob(self, available_jobs[i].name).estimated_run_minutes) >= 0))",
         ],
         loops={
             1: {"invariant": INV + ["not done"]},
             2: {"invariant": INV + ["highest_index >= _k2 - 1", "not done"]},
             3: {"invariant": [
                 "len(blocked_jobs) >= old(len(blocked_jobs))",
                 "forall(k, range(old(len(blocked_jobs))), blocked_jobs[k] == old(blocked_jobs)[k])",
                 "forall(k, range(old(len(blocked_jobs)), len(blocked_jobs)), blocked_jobs[k].name not in batch._job_names "
                 "and not empty(blocked_jobs[k].blocked_by) and exists(m, range(len(available_jobs)), available_jobs[m] == blocked_jobs[k]))",
                 "forall(k, range(old(len(blocked_jobs)), len(blocked_jobs)), exists(m, range(len(available_jobs)), available_jobs[m] == blocked_jobs[k] "
                 "and (m <= highest_index or (P().try_add_blocked_jobs and subset(blocked_jobs[k].blocked_by, batch._job_names)))))",
             ]},
         },
         ensures=[
             # (d) C07: size / time limit of the batch, and its flags come from the group
             "Inv_B(result[0])",
             "result[0]._time_based_batching == P().time_based_batching and result[0]._per_node_batch_size == P().per_node_batch_size",
             # (a) C01: the jobs appended to submitted_jobs are exactly the batch's jobs, same order, distinct, taken from available_jobs
             "len(submitted_jobs) == old(len(submitted_jobs)) + len(result[0]._jobs)",
             "forall(k, range(old(len(submitted_jobs))), submitted_jobs[k] == old(submitted_jobs)[k])",
             "forall(k, range(L0(), len(submitted_jobs)), result[0]._jobs[k - L0()] == cfgjob(self, submitted_jobs[k].name))",
             "forall(k, range(L0(), len(submitted_jobs)), submitted_jobs[k].name in result[0]._job_names)",
             # C02/C03: each placed job's description carries exactly the remaining blockers of the persisted record
             "forall(k, range(L0(), len(submitted_jobs)), cfgjob(self, submitted_jobs[k].name).blocked_by == submitted_jobs[k].blocked_by)",
             "forall(x, result[0]._job_names, exists(k, range(L0(), len(submitted_jobs)), submitted_jobs[k].name == x))",
             "forall(k, range(L0(), len(submitted_jobs)), exists(m, range(len(available_jobs)), available_jobs[m] == submitted_jobs[k]))",
             "forall(k, range(L0(), len(submitted_jobs)), forall(m, range(L0(), k), submitted_jobs[k].name != submitted_jobs[m].name))",
             # (b) C01: not_checked is a suffix of available_jobs and contains no job placed in this batch
             "len(result[1]) <= len(available_jobs)",
             "forall(i, range(len(result[1])), result[1][i] == available_jobs[len(available_jobs) - len(result[1]) + i])",
             "forall(k, range(len(available_jobs)), implies(available_jobs[k].name in result[0]._job_names, k < len(available_jobs) - len(result[1])))",
             # (c) C02/C07: a placed job has no remaining blockers, or try-add-blocked and all of them are in this batch
             "forall(k, range(len(available_jobs)), implies(available_jobs[k].name in result[0]._job_names, "
             "empty(available_jobs[k].blocked_by) or (P().try_add_blocked_jobs and subset(available_jobs[k].blocked_by, result[0]._job_names))))",
             "forall(x, result[0]._job_names, exists(k, range(len(available_jobs)), available_jobs[k].name == x))",
             # (e) blocked_jobs grows only by available, unplaced jobs that really have blockers
             "len(blocked_jobs) >= old(len(blocked_jobs))",
             "forall(k, range(old(len(blocked_jobs))), blocked_jobs[k] == old(blocked_jobs)[k])",
             "forall(k, range(old(len(blocked_jobs)), len(blocked_jobs)), blocked_jobs[k].name not in result[0]._job_names "
             "and not empty(blocked_jobs[k].blocked_by) and exists(m, range(len(available_jobs)), available_jobs[m] == blocked_jobs[k]))",
             # (g) ... and lies below the cursor (it is not offered to a later batch of this call), or all of its blockers are in this batch
             "forall(k, range(old(len(blocked_jobs)), len(blocked_jobs)), exists(m, range(len(available_jobs)), available_jobs[m] == blocked_jobs[k] "
             "and (m < len(available_jobs) - len(result[1]) or (P().try_add_blocked_jobs and subset(blocked_jobs[k].blocked_by, result[0]._job_names)))))",
             # (f) C05: every examined job was placed or has blockers
             "forall(k, range(len(available_jobs) - len(result[1])), available_jobs[k].name in result[0]._job_names or not empty(available_jobs[k].blocked_by))",
             # frame on the persistent job records
             "unchanged(Job.blocked_by) and unchanged(Job.name) and unchanged(Job.state)",
         ],
         modifies=["submitted_jobs", "blocked_jobs", "JadeJob.blocked_by",
                   "_BatchJobs._estimated_batch_time", "_BatchJobs._num_processes", "_BatchJobs._per_node_batch_size",
                   "_BatchJobs._time_based_batching", "_BatchJobs._try_add_blocked_jobs", "_BatchJobs._jobs", "_BatchJobs._job_names",
                   "_BatchJobs._is_ready_to_submit", "_BatchJobs._max_batch_time"])


# ---- available jobs of a group ---------------------------------------------------------------
AVAIL_POST = [
    # sound: every returned job is a not-submitted job of this group, taken from the persisted list
    "forall(k, range(len(result)), result[k].state == JobState.NOT_SUBMITTED "
    "and cfgjob(self, result[k].name).submission_group == submission_group.name "
    "and exists(m, range(len(jobs_of(self._cluster))), jobs_of(self._cluster)[m] == result[k]))",
    # complete: every such job is returned  (C05: nothing is skipped)
    "forall(m, range(len(jobs_of(self._cluster))), implies(jobs_of(self._cluster)[m].state == JobState.NOT_SUBMITTED "
    "and cfgjob(self, jobs_of(self._cluster)[m].name).submission_group == submission_group.name, "
    "exists(k, range(len(result)), result[k] == jobs_of(self._cluster)[m])))",
    # C01: pairwise distinct names
    "forall(k, range(len(result)), forall(m, range(k), result[k].name != result[m].name))",
]
AVAIL_PRE = [
    "not isnone(self._cluster._job_status)",
    "distinct_job_names(self._cluster)",
    "forall(i, range(len(jobs_of(self._cluster))), known(self, jobs_of(self._cluster)[i].name))",
]

contract("HpcSubmitter._get_available_jobs", file=F,
         params=[("self", "Ref[HpcSubmitter]"), ("submission_group", "Ref[SubmissionGroup]")],
         returns="List[Ref[Job]]", fresh_result=True,
         locals={"available_jobs": "List[Ref[Job]]"},
         requires=AVAIL_PRE, ensures=AVAIL_POST,
         loops={1: {"invariant": [
             "forall(k, range(len(available_jobs)), exists(m, range(_k1), _it1[m] == available_jobs[k]))",
             "forall(k, range(len(available_jobs)), cfgjob(self, available_jobs[k].name).submission_group == submission_group.name)",
             "forall(m, range(_k1), implies(cfgjob(self, _it1[m].name).submission_group == submission_group.name, "
             "exists(k, range(len(available_jobs)), available_jobs[k] == _it1[m])))",
             "forall(k, range(len(available_jobs)), forall(m, range(k), available_jobs[k].name != available_jobs[m].name))",
         ]}})

contract("HpcSubmitter._get_available_jobs_by_time", kind="assumed",
         params=[("self", "Ref[HpcSubmitter]"), ("submission_group", "Ref[SubmissionGroup]")],
         returns="List[Ref[Job]]", fresh_result=True,
         requires=AVAIL_PRE, ensures=AVAIL_POST,
         note="same jobs as _get_available_jobs re-ordered by list.sort(key=lambda) (T-sort: a permutation); the lambda/sort is outside the "
              "verified subset, checked only by the bounded native harness")
