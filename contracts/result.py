"""Contracts for jade/result.py classifiers and the tallies built from them (C03, C12, C20)."""
from pyvc.spec import record, contract, define, fold

F = "jade/result.py"
FIN = "JobCompletionStatus.FINISHED.value"
CAN = "JobCompletionStatus.CANCELED.value"

contract("Result.is_successful", file=F, pure=True, params=[("self", "Ref[Result]")], returns="bool",
         ensures=[f"result == (self.return_code == 0 and self.status == {FIN})"])
contract("Result.is_failed", file=F, pure=True, params=[("self", "Ref[Result]")], returns="bool",
         ensures=[f"result == (self.return_code != 0 and self.status == {FIN})"])
contract("Result.is_canceled", file=F, pure=True, params=[("self", "Ref[Result]")], returns="bool",
         ensures=[f"result == (self.return_code != 0 and self.status == {CAN})"])

# a well-formed result row: produced by AsyncCliCommand._complete (finished, any code), AsyncCliCommand.cancel or
# HpcSubmitter._cancel_job (canceled, code 1) - the three producers are verified to establish it
define("wf_result", ["r"], f"(r.status == {FIN}) or (r.status == {CAN} and r.return_code != 0)")

fold("n_succ", "Ref[Result]", f"1 if (x.return_code == 0 and x.status == {FIN}) else 0", bounds=(0, 1))
fold("n_fail", "Ref[Result]", f"1 if (x.return_code != 0 and x.status == {FIN}) else 0", bounds=(0, 1))
fold("n_canc", "Ref[Result]", f"1 if (x.return_code != 0 and x.status == {CAN}) else 0", bounds=(0, 1))
