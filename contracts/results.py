"""ResultsAggregator as seen by its callers (ghost row sets); its own functions are verified in contracts/aggregator.py (C08)."""
from pyvc.spec import record, contract, define, ghost

F = "jade/jobs/results_aggregator.py"

record("ResultsAggregator", file=F, fields={
    "_filename": "Opaque",
    "_lock_file": "Opaque",
    "_timeout": "int",
    "_delimiter": "Opaque",
    "_is_node": "bool",
})

# names that have a row in the consolidated results file, and those whose row has a non-zero return code
ghost("universe", "Set[Name]")           # names of the submission's configured jobs (never changes)
ghost("collected", "Set[Name]")
ghost("collected_failed", "Set[Name]")

contract("Result.__init__", kind="assumed", fresh_result=True,
         params=[("name", "Name"), ("return_code", "int"), ("status", "Enum[JobCompletionStatus]"), ("exec_time_s", "real"),
                 ("completion_time", "Opt[real]", "None"), ("hpc_job_id", "Opt[Name]", "None")],
         returns="Ref[Result]",
         ensures=["result.name == name and result.return_code == return_code and result.status == status.value "
                  "and result.exec_time_s == exec_time_s and result.hpc_job_id == hpc_job_id",
                  "unchanged(Result.name, result) and unchanged(Result.return_code, result) and unchanged(Result.status, result)"],
         modifies=["Result.name", "Result.return_code", "Result.status", "Result.exec_time_s", "Result.completion_time", "Result.hpc_job_id"],
         note="namedtuple constructor Result.__new__ (status enum converted to its value; completion_time defaults to now); "
              "verified separately as Result.__new__ in C19 contracts")

contract("ResultsAggregator.load", kind="assumed", fresh_result=True,
         params=[("output_dir", "Opaque")], returns="Ref[ResultsAggregator]",
         ensures=["not result._is_node"], modifies=["ResultsAggregator._filename", "ResultsAggregator._lock_file", "ResultsAggregator._timeout",
                                                   "ResultsAggregator._delimiter", "ResultsAggregator._is_node"],
         note="classmethod constructor for processed_results.csv")

contract("ResultsAggregator.process_results", kind="assumed",
         params=[("self", "Ref[ResultsAggregator]")], returns="List[Ref[Result]]", fresh_result=True,
         requires=["not self._is_node"],
         ensures=["forall(i, range(len(result)), result[i].name in ghost.collected "
                  "and (result[i].return_code != 0) == (result[i].name in ghost.collected_failed))",
                  "subset(old(ghost.collected), ghost.collected) and subset(old(ghost.collected_failed), ghost.collected_failed)",
                  # E-res (environment): node files hold rows only for jobs of this submission
                  "implies(old(subset(ghost.collected, ghost.universe)), subset(ghost.collected, ghost.universe))"],
         raises={"Timeout": {"ensures": ["ghost.collected == old(ghost.collected) and ghost.collected_failed == old(ghost.collected_failed)"]}},
         modifies=["ghost.collected", "ghost.collected_failed"],
         note="moves every per-node results file into the consolidated file and returns the moved rows (verified at file level in C08); "
              "one row per job name (C01/C08) so a name's failed flag is determined by its row")

contract("ResultsAggregator.append_result", kind="assumed",
         params=[("self", "Ref[ResultsAggregator]"), ("result", "Ref[Result]")],
         ensures=["forall(x, Name, (x in ghost.collected) == (x in old(ghost.collected) or x == result.name))",
                  "forall(x, Name, (x in ghost.collected_failed) == (x in old(ghost.collected_failed) or (x == result.name and result.return_code != 0)))"],
         raises={"Timeout": {"ensures": ["ghost.collected == old(ghost.collected) and ghost.collected_failed == old(ghost.collected_failed)"]}},
         modifies=["ghost.collected", "ghost.collected_failed"],
         note="appends one row under the file lock (verified at file level in C08)")
