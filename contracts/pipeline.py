"""Contracts for jade/jobs/pipeline_manager.py (C15)."""
from pyvc.spec import record, contract, define, ghost, opaque_fn

F = "jade/jobs/pipeline_manager.py"
record("PipelineManager", file=F, fields={"_output": "Opaque", "_config_file": "Opaque", "_config": "Ref[PipelineConfig]"},
       consts={"CONFIG_FILENAME": "pipeline.json"})
record("PipelineConfig", file="jade/models/pipeline.py", pydantic=True, fields={
    "path": "Opt[Opaque]", "stage_num": "int", "stages": "List[Ref[PipelineStage]]", "is_complete": "bool"})
record("PipelineStage", file="jade/models/pipeline.py", pydantic=True, fields={
    "auto_config_cmd": "Opt[Opaque]", "config_file": "Opaque", "stage_num": "int", "path": "Opt[Opaque]",
    "return_code": "Opt[int]", "submitter_params": "Ref[SubmitterParams]"})

ghost("submitted_stages", "List[int]")     # stage numbers handed to JobSubmitter.run_submit_jobs, in order
ghost("pipeline_saves", "int")             # number of times pipeline.json was rewritten
ghost("persisted_stage", "int")            # the stage number in pipeline.json on disk (what the next completion trigger is compared with)

for name, ret in [("stage_num", "int"), ("path", "Opt[Opaque]"), ("stages", "List[Ref[PipelineStage]]"), ("config", "Ref[PipelineConfig]")]:
    contract("PipelineManager." + name, file=F, inline=True, params=[("self", "Ref[PipelineManager]")], returns=ret)
contract("JobConfiguration.submission_groups", file="jade/jobs/job_configuration.py", inline=True,
         params=[("self", "Ref[JobConfiguration]")], returns="List[Ref[SubmissionGroup]]")
contract("PipelineManager._serialize", kind="assumed", params=[("self", "Ref[PipelineManager]")],
         ensures=["ghost.pipeline_saves == old(ghost.pipeline_saves) + 1", "ghost.persisted_stage == self._config.stage_num"],
         modifies=["ghost.pipeline_saves", "ghost.persisted_stage"],
         note="writes pipeline.json from self._config.json() (T-fs/T-pyd); ghost: the stage number pipeline.json now carries")
contract("PipelineManager._run_auto_config", kind="assumed", params=[("self", "Ref[PipelineManager]"), ("stage", "Ref[PipelineStage]")],
         raises={"ExecutionError": {}}, modifies=["stage.config_file"], note="runs the user's auto-config command (not decided: its effects)")
contract("PipelineManager.get_stage_output_path", kind="assumed", pure=True, note="heap-independent",
         params=[("output", "Opt[Opaque]"), ("stage_num", "int")], returns="Opaque")
contract("create_config_from_file", kind="assumed", params=[("filename", "Opaque")], returns="Ref[JobConfiguration]",
         raises={"InvalidConfiguration": {}, "FileNotFoundError": {}}, note="loads a configuration (C17)")
contract("JobConfiguration.assign_default_submission_group", kind="assumed",
         params=[("self", "Ref[JobConfiguration]"), ("submitter_params", "Ref[SubmitterParams]")],
         modifies=["self._submission_groups", "JadeJob.submission_group"], note="C17")
contract("JobSubmitter.run_submit_jobs", kind="assumed",
         params=[("config", "Ref[JobConfiguration]"), ("output", "Opaque"), ("local", "bool", "False"), ("dry_run", "bool", "False"),
                 ("pipeline_stage_num", "Opt[int]", "None")], returns="int",
         # C15: the stage is handed over only after pipeline.json records it - the stage's own completion (in local mode: inside this call)
         # triggers `submit-next-stage <n+1>`, which is compared with the number on disk
         requires=["implies(not isnone(pipeline_stage_num), ghost.persisted_stage == val(pipeline_stage_num))"],
         ensures=["implies(not isnone(pipeline_stage_num), len(ghost.submitted_stages) == old(len(ghost.submitted_stages)) + 1 "
                  "and ghost.submitted_stages[old(len(ghost.submitted_stages))] == val(pipeline_stage_num) "
                  "and forall(i, range(old(len(ghost.submitted_stages))), ghost.submitted_stages[i] == old(ghost.submitted_stages)[i]))"],
         raises={"InvalidConfiguration": {"ensures": ["ghost.submitted_stages == old(ghost.submitted_stages)"]}},
         modifies=["ghost.submitted_stages"],
         note="submission of one stage (its own behaviour is C01-C17's subject); ghost: the stage number it was asked to submit")

define("PC", ["s"], "s._config")
define("NST", ["s"], "len(s._config.stages)")
# Inv_P: the recorded stage is a real stage, the pipeline is not complete, stages are numbered 1..n, earlier stages have a return code
define("Inv_P", ["s"], """(
    1 <= PC(s).stage_num and PC(s).stage_num <= NST(s) and not PC(s).is_complete
    and forall(i, range(NST(s)), PC(s).stages[i].stage_num == i + 1)
    and forall(i, range(PC(s).stage_num - 1), not isnone(PC(s).stages[i].return_code))
    and forall(i, range(NST(s)), forall(j, range(i), PC(s).stages[i] != PC(s).stages[j])))""")

contract("PipelineManager._submit_next_stage", file=F,
         params=[("self", "Ref[PipelineManager]"), ("stage_num", "int"), ("return_code", "Opt[int]", "None")],
         requires=["Inv_P(self)",
                   "implies(isnone(return_code), stage_num == 1 and PC(self).stage_num == 1)"],   # `pipeline submit` starts stage 1 (JADE's assert)
         ensures=[
             # first submission: stage 1, state untouched
             "implies(isnone(return_code), PC(self).stage_num == 1 and not PC(self).is_complete "
             "and len(ghost.submitted_stages) == old(len(ghost.submitted_stages)) + 1 and ghost.submitted_stages[old(len(ghost.submitted_stages))] == 1)",
             # next stage: the finished stage's code is recorded, the counter advances by one
             "implies(not isnone(return_code), stage_num == old(PC(self).stage_num) + 1 and PC(self).stage_num == stage_num "
             "and PC(self).stages[stage_num - 2].return_code == return_code)",
             # last stage finished: complete, nothing submitted; otherwise exactly stage `stage_num` is submitted, once, after the state was saved
             "implies(not isnone(return_code) and stage_num == NST(self) + 1, PC(self).is_complete and ghost.submitted_stages == old(ghost.submitted_stages))",
             "implies(not isnone(return_code) and stage_num <= NST(self), not PC(self).is_complete "
             "and len(ghost.submitted_stages) == old(len(ghost.submitted_stages)) + 1 and ghost.submitted_stages[old(len(ghost.submitted_stages))] == stage_num)",
             "ghost.pipeline_saves == old(ghost.pipeline_saves) + 1",
             "forall(i, range(NST(self)), implies(i != stage_num - 2 or isnone(return_code), PC(self).stages[i].return_code == old(PC(self).stages[i].return_code)))",
             "PC(self).stages == old(PC(self).stages) and unchanged(PipelineStage.stage_num)",
         ],
         raises={
             # a duplicate or out-of-order trigger is rejected and changes nothing (C15: each stage exactly once)
             "InvalidParameter": {"when": ["not isnone(return_code) and stage_num != PC(self).stage_num + 1"], "iff": True,
                                  "ensures": ["ghost.submitted_stages == old(ghost.submitted_stages) and ghost.pipeline_saves == old(ghost.pipeline_saves)",
                                              "PC(self).stage_num == old(PC(self).stage_num)"]},
             "ExecutionError": {"ensures": ["PC(self).stage_num == (old(PC(self).stage_num) if isnone(return_code) else old(PC(self).stage_num) + 1)"], "frame": False},
             "InvalidConfiguration": {"ensures": [], "frame": False},
             "FileNotFoundError": {"ensures": [], "frame": False},
         },
         modifies=["PipelineStage.return_code", "PipelineStage.config_file", "self._config.stage_num", "self._config.is_complete",
                   "ghost.submitted_stages", "ghost.pipeline_saves", "ghost.persisted_stage", "JobConfiguration._submission_groups", "JadeJob.submission_group"])
