"""Cluster record and its read-only views (used by every property touching persisted status)."""
from pyvc.spec import record, contract, define

F = "jade/jobs/cluster.py"

record("Cluster", file=F, fields={
    "_config": "Ref[ClusterConfig]",
    "_job_status": "Opt[Ref[JobStatus]]",
    "_hostname": "Name",
    "_timeout": "int",
    "_config_hash": "Opt[int]",
    "_job_status_hash": "Opt[int]",
    "_config_file": "Opaque",
    "_job_status_file": "Opaque",
    "_lock_file": "Opaque",
    "_config_version_file": "Opaque",
    "_job_status_version_file": "Opaque",
    "g_promoted": "bool",     # ghost typestate: this handle won the promotion and has not demoted (C10)
}, extra_attrs={"g_promoted"})

# generators read from the real source as filtered views (DESIGN 3.4.3)
contract("Cluster.iter_jobs", file=F, inline="generator",
         params=[("self", "Ref[Cluster]"), ("state", "Opt[Enum[JobState]]", "None")], returns="List[Ref[Job]]")
contract("Cluster.iter_hpc_job_ids", file=F, inline="generator",
         params=[("self", "Ref[Cluster]")], returns="List[Name]")

# trivial accessors: executed from the real source at each call site
for name, ret in [("config", "Ref[ClusterConfig]"), ("job_status", "Opt[Ref[JobStatus]]"), ("has_submitter", "bool"),
                  ("am_i_submitter", "bool"), ("is_complete", "bool"), ("is_canceled", "bool"), ("all_jobs_submitted", "bool")]:
    contract("Cluster." + name, file=F, inline=True, params=[("self", "Ref[Cluster]")], returns=ret)

define("jobs_of", ["cl"], "val(cl._job_status).jobs")
# names of the persisted job list are pairwise distinct (part of the status invariant J, C09)
define("distinct_job_names", ["cl"],
       "forall(i, range(len(jobs_of(cl))), forall(j, range(len(jobs_of(cl))), implies(i != j, jobs_of(cl)[i].name != jobs_of(cl)[j].name)))")
