"""Contracts for the CLI callbacks that take and give back the submitter role (C05, C10, C13, C14): jade/cli/try_submit_jobs.py, ..."""
from pyvc.spec import record, contract, define, ghost, opaque_fn, opaque_global

ghost("exit_code", "int")
contract("sys.exit", kind="assumed", params=[("code", "int", "0")],
         ensures=["False"],         # never returns
         raises={"SystemExit": {"when": ["True"], "iff": True, "ensures": ["ghost.exit_code == code"], "frame": False}},
         modifies=["ghost.exit_code"], note="sys.exit: raises SystemExit(code)")
opaque_fn("setup_event_logging", "setup_logging", "get_cli_string", "os.path.join")
opaque_global("__name__")
contract("Opaque.info", kind="assumed", params=[("self", "Opaque"), ("msg", "Opaque", "None"), ("a1", "Opaque", "None"), ("a2", "Opaque", "None")], note="logging")
contract("Opaque.exception", kind="assumed", params=[("self", "Opaque"), ("msg", "Opaque", "None")], note="logging")

# a handle loaded under the cluster lock: current on both files; promoted iff the role was free and promotion was asked for
contract("Cluster.deserialize", kind="assumed", fresh_result=True,
         params=[("path", "Opaque"), ("try_promote_to_submitter", "bool", "False"), ("deserialize_jobs", "bool", "False")],
         returns="Tuple[Ref[Cluster],bool]",
         requires=["not ghost.cluster_lock"],
         ensures=["Inv_handle(result[0])", "result[0].g_promoted == result[1]", "implies(not try_promote_to_submitter, not result[1])",
                  "not ghost.cluster_lock",
                  "result[0]._config.version == disk_cv(result[0])",
                  "implies(deserialize_jobs, not isnone(result[0]._job_status) and val(result[0]._job_status).version == disk_jv(result[0]))",
                  "cfg_mirrored(result[0])",
                  # an unsuccessful attempt writes nothing
                  "implies(not result[1], ghost.files == old(ghost.files) and ghost.vfiles == old(ghost.vfiles) and ghost.file_writes == old(ghost.file_writes))",
                  "ghost.runs == old(ghost.runs)",
                  "forall(c, Cluster, implies(old(allocated(c)), c.g_promoted == old(c.g_promoted)))"],
         raises={"Timeout": {"ensures": ["ghost.file_writes == old(ghost.file_writes)", "not ghost.cluster_lock"]}},
         modifies=["ghost.files", "ghost.vfiles", "ghost.file_writes", "Cluster.g_promoted", "Cluster._config", "Cluster._job_status", "Cluster._config_hash",
                   "Cluster._job_status_hash", "Cluster._hostname", "Cluster._config_file", "Cluster._job_status_file", "Cluster._config_version_file",
                   "Cluster._job_status_version_file", "ClusterConfig.submitter", "ClusterConfig.version"],
         note="classmethod: Cluster._deserialize under the cluster lock (json + pydantic load; _promote_to_submitter is verified and is what it calls when asked to promote)")
contract("JobSubmitter.load", kind="assumed", fresh_result=True, params=[("output", "Opaque")], returns="Ref[JobSubmitter]",
         ensures=["Inv_cfg(result._config)", "ghost.universe == nameset(result._config.g_joblist)", "not result._is_new", "result._output == output"],
         modifies=["JobSubmitter._hpc", "JobSubmitter._is_new", "JobManagerBase._config", "JobManagerBase._config_file", "JobManagerBase._output",
                   "JobManagerBase._jobs_output", "JobManagerBase._results"],
         raises={"InvalidConfiguration": {}, "FileNotFoundError": {}},
         note="classmethod: create_config_from_file(output/config.json) + constructor (C17); ghost.universe is by definition the configured names")

FT = "jade/cli/try_submit_jobs.py"
ROLE_BACK = "not cluster.g_promoted and not ghost.cluster_lock"
contract("try_submit_jobs", file=FT,
         params=[("output", "Opaque"), ("verbose", "bool")],
         locals={"ret": "int"},
         requires=["not ghost.cluster_lock", "forall(c, Cluster, not c.g_promoted)",        # a fresh process: holds neither the lock nor the role
                   "subset(ghost.collected, ghost.universe)"],                             # E-res: result rows exist only for configured jobs
         ensures=["False"],                      # the command always ends through sys.exit
         raises={
             "SystemExit": {"ensures": [
                 # C10: whoever was promoted gives the role back before the process ends, on every path
                 ROLE_BACK,
                 # not promoted (another node is submitter): nothing is written, nothing is submitted, exit status 0
                 "implies(not promoted, ghost.file_writes == old(ghost.file_writes) and ghost.runs == old(ghost.runs) and ghost.exit_code == 0)",
                 ], "frame": False},
             "Timeout": {"ensures": ["not ghost.cluster_lock"], "frame": False},
             # an exception escapes only after the `finally` tried to give the role back (it fails only if the demotion itself is rejected)
             "Exception": {"ensures": ["not ghost.cluster_lock"], "frame": False},
         },
         modifies=["ghost.exit_code"])
