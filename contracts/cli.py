"""Contracts for the CLI callbacks that take and give back the submitter role (C05, C10, C13, C14): jade/cli/try_submit_jobs.py, ..."""
from pyvc.spec import record, contract, define, ghost, opaque_fn, opaque_global

ghost("exit_code", "int")
contract("sys.exit", kind="assumed", params=[("code", "int", "0")],
         ensures=["False"],         # never returns
         raises={"SystemExit": {"when": ["True"], "iff": True, "ensures": ["ghost.exit_code == code"], "frame": False}},
         modifies=["ghost.exit_code"], note="sys.exit: raises SystemExit(code)")
opaque_fn("setup_event_logging", "setup_logging", "get_cli_string", "os.path.join")
opaque_global("__name__")
contract("Opaque.info", kind="assumed", params=[("self", "Opaque"), ("msg", "Opaque", "None"), ("a1", "Opaque", "None"), ("a2", "Opaque", "None")], note="logging")
contract("Opaque.exception", kind="assumed", params=[("self", "Opaque"), ("msg", "Opaque", "None")], note="logging")

# a handle loaded under the cluster lock: current on both files; promoted iff the role was free and promotion was asked for
contract("Cluster.deserialize", kind="assumed", fresh_result=True,
         params=[("path", "Opaque"), ("try_promote_to_submitter", "bool", "False"), ("deserialize_jobs", "bool", "False")],
         returns="Tuple[Ref[Cluster],bool]",
         requires=["not ghost.cluster_lock"],
         ensures=["Inv_handle(result[0])", "result[0].g_promoted == result[1]", "implies(not try_promote_to_submitter, not result[1])",
                  "not ghost.cluster_lock",
                  "result[0]._config.version == disk_cv(result[0])",
                  "implies(deserialize_jobs, not isnone(result[0]._job_status) and val(result[0]._job_status).version == disk_jv(result[0]))",
                  "cfg_mirrored(result[0])",
                  # an unsuccessful attempt writes nothing
                  "implies(not result[1], ghost.files == old(ghost.files) and ghost.vfiles == old(ghost.vfiles) and ghost.file_writes == old(ghost.file_writes))",
                  "ghost.runs == old(ghost.runs)",
                  "forall(c, Cluster, implies(c != result[0], c.g_promoted == old(c.g_promoted)))",       # no other handle changes its role
                  "ghost.loaded_complete == result[0]._config.is_complete",
                  # the persisted status invariant holds at every lock-free instant (C09) and the loaded jobs are the submission's jobs
                  "implies(deserialize_jobs, J(result[0]) and nameset(val(result[0]._job_status).jobs) == ghost.universe)",
                  "implies(deserialize_jobs, CLUSTER_READY(result[0]) and J_COUNTS(result[0]))"],
         raises={"Timeout": {"ensures": ["ghost.file_writes == old(ghost.file_writes)", "not ghost.cluster_lock"]}},
         modifies=["ghost.files", "ghost.vfiles", "ghost.file_writes", "Cluster.g_promoted", "Cluster._config", "Cluster._job_status", "Cluster._config_hash",
                   "Cluster._job_status_hash", "Cluster._hostname", "Cluster._config_file", "Cluster._job_status_file", "Cluster._config_version_file",
                   "Cluster._job_status_version_file", "ClusterConfig.submitter", "ClusterConfig.version", "ghost.loaded_complete"],
         note="classmethod: Cluster._deserialize under the cluster lock (json + pydantic load; _promote_to_submitter is verified and is what it calls when asked to promote)")
contract("JobSubmitter.load", kind="assumed", fresh_result=True, params=[("output", "Opaque")], returns="Ref[JobSubmitter]",
         ensures=["Inv_cfg(result._config)", "ghost.universe == nameset(result._config.g_joblist)", "not result._is_new", "result._output == output",
                  "CONFIG_READY(result)"],
         modifies=["JobSubmitter._hpc", "JobSubmitter._is_new", "JobManagerBase._config", "JobManagerBase._config_file", "JobManagerBase._output",
                   "JobManagerBase._jobs_output", "JobManagerBase._results"],
         raises={"InvalidConfiguration": {}},
         note="classmethod: create_config_from_file(output/config.json) + constructor (C17); ghost.universe is by definition the configured names; "
              "config.json exists in every submission directory")

FT = "jade/cli/try_submit_jobs.py"
ROLE_BACK = "not cluster.g_promoted and not ghost.cluster_lock"
contract("try_submit_jobs", file=FT,
         params=[("output", "Opaque"), ("verbose", "bool")],
         locals={"ret": "int"},
         requires=["not ghost.cluster_lock", "forall(c, Cluster, not c.g_promoted)",        # a fresh process: holds neither the lock nor the role
                   "subset(ghost.collected, ghost.universe)"],                             # E-res: result rows exist only for configured jobs
         ensures=["False"],                      # the command always ends through sys.exit
         raises={
             "SystemExit": {"ensures": [
                 # C10: whoever was promoted gives the role back before the process ends, on every path
                 ROLE_BACK,
                 # not promoted (another node is submitter): nothing is written, nothing is submitted, exit status 0
                 "implies(not promoted, ghost.file_writes == old(ghost.file_writes) and ghost.runs == old(ghost.runs) and ghost.exit_code == 0)",
                 ], "frame": False},
             "Timeout": {"ensures": ["not ghost.cluster_lock"], "frame": False},
             # an exception escapes only after the `finally` tried to give the role back (it fails only if the demotion itself is rejected)
             "Exception": {"ensures": ["not ghost.cluster_lock"], "frame": False},
         },
         modifies=["ghost.exit_code"])

# ---- resubmit-jobs (C13; fixed findings F4, F5) ---------------------------------------------------------------------------
FRS = "jade/cli/resubmit_jobs.py"
from pyvc.spec import CONTRACTS as _C
ghost("pruned", "Set[Name]")          # the set of names whose result rows the last _reset_results removed
ghost("pruned_n", "int")              # how many times results were pruned
opaque_global("EVENTS_DIR")
contract("load_data", kind="assumed", params=[("filename", "Opaque")], returns="List[Opaque]", fresh_result=True, note="json/toml loader (list of group dicts)")
define("SEL_RES", ["output"], "uf('results_of', 'Dict[Name,Ref[Result]]', output)")
# the names selected by the flags: failed/canceled rows, successful rows, configured jobs without a row
define("SELECTED", ["x", "cluster", "output", "failed", "missing", "successful"],
       "((failed and x in SEL_RES(output) and (R_FAIL(SEL_RES(output)[x]) or R_CANC(SEL_RES(output)[x])))"
       " or (successful and x in SEL_RES(output) and R_SUCC(SEL_RES(output)[x]))"
       " or (missing and x not in SEL_RES(output) and x in nameset(val(cluster._job_status).jobs)))")
contract("_get_jobs_to_resubmit", file=FRS,
         params=[("cluster", "Ref[Cluster]"), ("output", "Opaque"), ("failed", "bool"), ("missing", "bool"), ("successful", "bool")],
         returns="Set[Name]", fresh_result=True,
         requires=["not isnone(cluster._job_status)", "nameset(val(cluster._job_status).jobs) == ghost.universe",
                   # every row of results.json belongs to a configured job (C03: one row per configured job, nothing else)
                   "subset(keys(SEL_RES(output)), ghost.universe)"],
         ensures=["subset(result, ghost.universe)",
                  # C13: exactly the jobs selected by the flags
                  "forall(x, Name, (x in result) == SELECTED(x, cluster, output, failed, missing, successful))",
                  "unchanged(Job.name) and unchanged(Job.state) and unchanged(Job.blocked_by)"],
         raises={"InvalidConfiguration": {"frame": True}})
contract("_reset_results", kind="assumed", params=[("output", "Opaque"), ("jobs_to_resubmit", "Set[Name]")],
         ensures=["ghost.pruned == jobs_to_resubmit and ghost.pruned_n == old(ghost.pruned_n) + 1",
                  # result pruning: exactly the rows of these names are removed (ResultsAggregator.clear_results_for_resubmission)
                  "forall(x, Name, (x in ghost.collected) == (x in old(ghost.collected) and x not in jobs_to_resubmit))",
                  "forall(x, Name, (x in ghost.collected_failed) == (x in old(ghost.collected_failed) and x not in jobs_to_resubmit))"],
         modifies=["ghost.pruned", "ghost.pruned_n", "ghost.collected", "ghost.collected_failed"],
         note="ResultsAggregator.load(output).clear_results_for_resubmission(set): keeps the rows whose name is not in the set (csv boundary; bounded by the C13 harness)")
contract("Opaque.iterdir", kind="assumed", params=[("self", "Opaque")], returns="List[Opaque]", fresh_result=True,
         raises={"FileNotFoundError": {"when": ["self not in ghost.fs"], "iff": True, "frame": True}}, note="pathlib.Path.iterdir: the directory must exist (T-fs)")
contract("Opaque.unlink", kind="assumed", params=[("self", "Opaque")], modifies=["ghost.fs"], note="pathlib.Path.unlink of an events file")

RS_KEEP = ("unchanged(Job.state) and unchanged(Job.blocked_by) and ghost.collected == old(ghost.collected) and ghost.pruned_n == old(ghost.pruned_n) "
           "and ghost.runs == old(ghost.runs)")
contract("resubmit_jobs", file=FRS,
         params=[("output", "Opaque"), ("failed", "bool"), ("missing", "bool"), ("successful", "bool"), ("submission_groups_file", "Opt[Opaque]"), ("verbose", "bool")],
         locals={"ret": "int", "jobs_to_resubmit": "Set[Name]", "updated_blocking_jobs_by_name": "Dict[Name,Set[Name]]", "groups": "List[Opaque]", "found": "bool"},
         requires=["not ghost.cluster_lock", "forall(c, Cluster, not c.g_promoted)", "subset(ghost.collected, ghost.universe)",
                   # results.json of the completed submission has rows of configured jobs only (C03: exactly one entry per configured job)
                   "subset(keys(SEL_RES(output)), ghost.universe)",
                   # scope: without --submission-groups-file.  With it the replaced groups are whatever the file holds (SubmissionGroup(**mapping)); the
                   # group-parameter domain a submitter round needs is then not re-validated by the command, so nothing is claimed for that path
                   "isnone(submission_groups_file)"],
         ensures=["False"],
         loops={1: {"invariant": ["Inv_handle(cluster) and cluster.g_promoted and not ghost.cluster_lock and cluster._config.is_complete", RS_KEEP,
                                  "J(cluster) and not isnone(cluster._job_status) and nameset(val(cluster._job_status).jobs) == ghost.universe",
                                  "cluster._config.version == disk_cv(cluster) and val(cluster._job_status).version == disk_jv(cluster)"]},
                2: {"invariant": ["len(cluster._config.submission_groups) == len(_it2)",
                                  "Inv_handle(cluster) and cluster.g_promoted and not ghost.cluster_lock and cluster._config.is_complete", RS_KEEP,
                                  "J(cluster) and not isnone(cluster._job_status) and nameset(val(cluster._job_status).jobs) == ghost.universe",
                                  "cluster._config.version == disk_cv(cluster) and val(cluster._job_status).version == disk_jv(cluster)"]},
                3: {"invariant": ["Inv_handle(cluster) and cluster.g_promoted and not ghost.cluster_lock and not cluster._config.is_complete",
                                  "ghost.pruned == ghost.reset_set and ghost.pruned_n == old(ghost.pruned_n) + 1",
                                  "subset(ghost.collected, ghost.universe)"]}},
         raises={
             "SystemExit": {"ensures": [
                 "not cluster.g_promoted and not ghost.cluster_lock",                      # C10/F4: the role is given back iff it was taken, before every exit
                 # refusal: an incomplete submission is left exactly as it was (jobs, results, counters), exit status 1
                 "implies(not old_complete_flag(), ghost.exit_code == 1 and " + RS_KEEP + ")",
                 # otherwise: results were pruned exactly once, for exactly the closed set that was also reset (closure BEFORE pruning)
                 "implies(ghost.pruned_n != old(ghost.pruned_n), ghost.pruned_n == old(ghost.pruned_n) + 1 and ghost.pruned == ghost.reset_set)",
             ], "frame": False},
             "Timeout": {"ensures": ["not ghost.cluster_lock"], "frame": False},
             "Exception": {"ensures": ["not ghost.cluster_lock"], "frame": False},
             "AssertionError": {"ensures": ["not ghost.cluster_lock"], "frame": False},
             # F5: a missing events/ directory (reports disabled) must not abort the command after results were pruned and the state reset
             "FileNotFoundError": {"when": ["False"], "iff": True, "ensures": [], "frame": False},
         },
         defs={"old_complete_flag": ([], "ghost.loaded_complete")},
         modifies=["ghost.exit_code"])
ghost("loaded_complete", "bool")

# ---- cancel-jobs (C14) ---------------------------------------------------------------------------------------------------------
FCJ = "jade/cli/cancel_jobs.py"
NO_ROLE = "forall(c, Cluster, not c.g_promoted) and not ghost.cluster_lock"
contract("cancel_jobs", file=FCJ,
         params=[("output", "Opaque"), ("complete", "bool"), ("verbose", "bool")],
         locals={"ret": "int"},
         call_alias={"run_command": "run_command_env"},
         requires=["not ghost.cluster_lock", "forall(c, Cluster, not c.g_promoted)"],
         ensures=["False"],
         loops={1: {"invariant": [NO_ROLE, "ghost.scanceled == old(ghost.scanceled) and ghost.runs == old(ghost.runs)",
]}},
         raises={
             "SystemExit": {"ensures": [
                 NO_ROLE,                    # C10: the role is given back before every exit
                 # C14: exit status 0 without --complete means: either the submission was already finished, or every active batch was asked to be
                 # canceled and the canceled flag was persisted; nothing is handed to the scheduler by this command itself
                 "ghost.runs == old(ghost.runs)",
                 "implies(ghost.exit_code == 0 and not complete, ghost.loaded_complete or ghost.cancel_persisted)",
             ], "frame": False},
             "Timeout": {"ensures": ["not ghost.cluster_lock"], "frame": False},
             "Exception": {"ensures": ["not ghost.cluster_lock"], "frame": False},
         },
         modifies=["ghost.exit_code"])
