"""Contracts for jade/hpc/hpc_submitter.py: _BatchJobs (C01, C02, C07)."""
from pyvc.spec import record, contract, define

F = "jade/hpc/hpc_submitter.py"

record("_BatchJobs", file=F, fields={
    "_estimated_batch_time": "int",          # timedelta, in seconds
    "_num_processes": "Opt[int]",
    "_per_node_batch_size": "int",
    "_time_based_batching": "bool",
    "_try_add_blocked_jobs": "bool",
    "_jobs": "List[Ref[JadeJob]]",
    "_job_names": "Set[Name]",
    "_is_ready_to_submit": "bool",
    "_max_batch_time": "Opt[int]",
})

# Representation invariant Inv_B of a batch under construction.
define("Inv_B", ["b"], """(
    len(b._jobs) >= 0
    and forall(i, range(len(b._jobs)), b._jobs[i].name in b._job_names)
    and forall(x, b._job_names, exists(i, range(len(b._jobs)), b._jobs[i].name == x))
    and implies(not b._time_based_batching, len(b._jobs) <= b._per_node_batch_size)
    and implies(not b._time_based_batching and len(b._jobs) >= b._per_node_batch_size, b._is_ready_to_submit)
    and implies(b._time_based_batching, not isnone(b._max_batch_time)
                and b._estimated_batch_time == fold("est_s", b._jobs)
                and b._estimated_batch_time <= val(b._max_batch_time))
)""")

contract("SubmitterParams.get_wall_time", kind="assumed", pure=True,
         params=[("self", "Ref[SubmitterParams]")], returns="int",
         ensures=["result == self.wall_time_s", "result >= 0"],
         note="walltime string parsed by _to_timedelta (regex; bounded stand-in in C07), seconds as ghost field wall_time_s")

contract("_BatchJobs.__init__", file=F, qualname="_BatchJobs.__init__",
         params=[("self", "Ref[_BatchJobs]"), ("params", "Ref[SubmitterParams]")],
         requires=[
             # configuration-domain assumptions (DESIGN C07): enforced by the CLI, not by this class
             "implies(params.time_based_batching, not isnone(params.num_parallel_processes_per_node) and val(params.num_parallel_processes_per_node) >= 0)",
             "implies(not params.time_based_batching, params.per_node_batch_size >= 1)",
         ],
         ensures=[
             "Inv_B(self)",
             "len(self._jobs) == 0",
             "empty(self._job_names)",
             "not self._is_ready_to_submit",
             "self._time_based_batching == params.time_based_batching",
             "self._try_add_blocked_jobs == params.try_add_blocked_jobs",
             "self._per_node_batch_size == params.per_node_batch_size",
             "implies(params.time_based_batching, val(self._max_batch_time) == params.wall_time_s * val(params.num_parallel_processes_per_node))",
         ],
         modifies=["self._estimated_batch_time", "self._num_processes", "self._per_node_batch_size", "self._time_based_batching",
                   "self._try_add_blocked_jobs", "self._jobs", "self._job_names", "self._is_ready_to_submit", "self._max_batch_time"],
         returns="Ref[_BatchJobs]")

contract("_BatchJobs.num_jobs", file=F, qualname="_BatchJobs.num_jobs", inline=True,
         params=[("self", "Ref[_BatchJobs]")], returns="int")
contract("_BatchJobs.is_ready_to_submit", file=F, qualname="_BatchJobs.is_ready_to_submit", inline=True,
         params=[("self", "Ref[_BatchJobs]")], returns="bool")

contract("_BatchJobs.try_append", file=F,
         params=[("self", "Ref[_BatchJobs]"), ("job", "Ref[JadeJob]")],
         returns="bool",
         requires=[
             "Inv_B(self)",
             "not self._is_ready_to_submit",
             "implies(not self._time_based_batching, self._per_node_batch_size >= 1)",
             "implies(self._time_based_batching, not isnone(job.estimated_run_minutes) and val(job.estimated_run_minutes) >= 0)",
         ],
         ensures=[
             "Inv_B(self)",
             # exact: refused iff time-based and the job does not fit
             "result == (not self._time_based_batching or old(self._estimated_batch_time) + 60 * val(job.estimated_run_minutes) <= val(self._max_batch_time))",
             "implies(result, len(self._jobs) == old(len(self._jobs)) + 1 and self._jobs[old(len(self._jobs))] == job)",
             "implies(result, forall(i, range(old(len(self._jobs))), self._jobs[i] == old(self._jobs)[i]))",
             "implies(result, forall(x, Name, (x in self._job_names) == (x in old(self._job_names) or x == job.name)))",
             "implies(not result, self._jobs == old(self._jobs) and self._job_names == old(self._job_names) and self._is_ready_to_submit)",
             "implies(result and self._time_based_batching, self._estimated_batch_time == old(self._estimated_batch_time) + 60 * val(job.estimated_run_minutes))",
             "implies(result and not self._time_based_batching, self._is_ready_to_submit == (len(self._jobs) >= self._per_node_batch_size))",
             "implies(result and self._time_based_batching, not self._is_ready_to_submit)",
         ],
         modifies=["self._jobs", "self._job_names", "self._estimated_batch_time", "self._is_ready_to_submit"])

contract("_BatchJobs.are_blocking_jobs_present", file=F,
         params=[("self", "Ref[_BatchJobs]"), ("blocking_jobs", "Set[Name]")], returns="bool",
         ensures=["result == subset(blocking_jobs, self._job_names)"])

contract("_BatchJobs.is_job_blocked", file=F,
         params=[("self", "Ref[_BatchJobs]"), ("job", "Ref[Job]")], returns="bool",
         ensures=[
             # C02/C07: not blocked  <=>  no remaining blockers, or try-add-blocked and all of them are in this batch
             "result == (not empty(job.blocked_by) and not (self._try_add_blocked_jobs and subset(job.blocked_by, self._job_names)))",
         ])

contract("_BatchJobs.serialize", kind="assumed", pure=True,
         params=[("self", "Ref[_BatchJobs]")], returns="Opaque",
         note="list of job.serialize() dicts; content is C17's subject")
