PROP = {'id': 'C14',
    'level': 'proof',
    'functions': ['HpcSubmitter.run',
    'Cluster._mark_canceled',
    'Cluster.mark_canceled'], 'native': [], 'records': ['HpcSubmitter',
    'Cluster',
    'ClusterConfig'], 'min_obligations': 200, 'assumptions': ["whether scancel succeeds is the scheduler's business"], 'not_decided': ['JobSubmitter.cancel_jobs / the cancel_jobs callback (scancel for every active id, promotion discipline) are not yet under contract'], 'explanation': 'HpcSubmitter.run: a canceled submission hands no batch to the scheduler (ghost.runs unchanged); mark_canceled persists the flag under the lock.'}
