PROP = {'id': 'C14',
 'level': 'proof',
 'functions': ['HpcSubmitter.run', 'Cluster._mark_canceled', 'Cluster.mark_canceled', 'JobSubmitter.cancel_jobs', 'cancel_jobs'],
 'native': ['HpcSubmitter.run', 'JobSubmitter.cancel_jobs'],
 'records': ['HpcSubmitter', 'Cluster', 'ClusterConfig'],
 'min_obligations': 100,
 'assumptions': ["whether scancel succeeds is the scheduler's business"],
 'not_decided': [],
 'explanation': 'HpcSubmitter.run: a canceled submission hands no batch to the scheduler (ghost.runs unchanged); mark_canceled persists the flag under the '
                'lock. The cancel-jobs callback is under contract: it retries promotion up to 60 times without holding the role in between, hands nothing to '
                'the scheduler itself, exits 0 without --complete only after the submission was found finished or every active batch was asked to be canceled '
                'and the flag persisted, and gives the role back before every exit.'}
