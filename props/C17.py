PROP = {'id': 'C17',
 'level': 'other',
 'functions': ['JobContainerByName.add_job',
               'JobConfiguration.check_job_dependencies',
               'JobConfiguration.check_job_estimated_run_minutes',
               'JobConfiguration.check_job_runtimes',
               'JobSubmitter.run_checks'],
 'native': ['JobSubmitter.run_checks', 'JobContainerByName.add_job', '_to_timedelta'],
 'lemmas': [],
 'records': ['JobConfiguration', 'JobContainerByName'],
 'min_obligations': 40,
 'native_budget': {'quick': 30, 'thorough': 300},
 'assumptions': ['JobConfiguration.check_submission_groups (getattr/setattr over pydantic field names, defaultdict) is an ASSUMED contract in the proof of '
                 'run_checks: accepted <=> at least one group, distinct group names, every job assigned to a listed group, equal hpc_type / max_nodes / '
                 'poll_interval; it is only checked at run time on generated configurations (bounded)',
                 'iter_jobs yields the jobs in insertion order (ghost list view g_joblist of JobContainerByName._jobs)',
                 'SubmitterParams.get_wall_time parses HH:MM:SS / D-HH:MM:SS (ghost wall_time_s; bounded harness _to_timedelta); timedelta(minutes=m) is 60*m '
                 'seconds'],
 'not_decided': ['the JSON round trip (serialize / dump / create_config_from_file run through pydantic and json): BOUNDED only - generated configurations, '
                 'compared field by field after reloading',
                 'JobSubmitter.create writes config.json only after run_checks returned (two statements; exercised by the bounded harness, not under contract)',
                 'walltime text -> seconds (_to_timedelta, a regular expression): BOUNDED only (HH:MM:SS and D-HH:MM:SS generated); other SLURM forms '
                 '(minutes, MM:SS, D-HH) are not accepted by the parser and not generated'],
 'explanation': 'PROVED for all configurations: add_job rejects exactly a second job with a stored name and otherwise stores it without touching other '
                'entries; check_job_dependencies raises InvalidConfiguration exactly when some blocker is not a configured job; '
                "check_job_estimated_run_minutes exactly when a job of the group lacks an estimate; check_job_runtimes exactly when some job's estimate "
                "exceeds its group's walltime (given distinct group names and assigned jobs); run_checks composes them in an order that establishes each "
                'precondition and raises before anything is submitted (ghost.runs / sbatch counter unchanged). BOUNDED (run-time contract checking on '
                "generated configurations, 1-3 groups, each single injected invalidity): the JSON round trip and check_submission_groups. The level is 'other' "
                'because half of the property (round trip) is decided by bounded checking only.'}
