PROP = {'id': 'C13',
 'level': 'proof',
 'functions': ['_update_with_blocking_jobs', 'Cluster.prepare_for_resubmission'],
 'native': ['_update_with_blocking_jobs', 'Cluster.prepare_for_resubmission'],
 'lemmas': ['lemma_count_in', 'lemma_fold_schemas'],
 'records': ['Cluster', 'ClusterConfig', 'JobStatus', 'Job', 'JobConfiguration'],
 'min_obligations': 80,
 'assumptions': ['create_config_from_file returns the configuration that passed check_job_dependencies at submission time (every blocker is a configured job; '
                 'C17)',
                 'the jobs the submitter then runs are exactly the NOT_SUBMITTED ones, each once and after its remaining blockers (C01, C02): composed, not '
                 're-proved here',
                 'finite-set primitives (|A+{x}| = |A| + [x not in A], inclusion-exclusion, subset => <=) are trusted; the counting schema is proved in '
                 'lemma_count_in'],
 'not_decided': ['_get_jobs_to_resubmit (flag selection over ResultsSummary: a list mixing Result and Job objects, outside the typed subset) - not yet under '
                 'contract',
                 'ResultsAggregator.clear_results_for_resubmission (result pruning through the csv module) - boundary, not yet under contract',
                 'the resubmit_jobs callback itself (refusal path, ordering of pruning / reset / submission, try/finally demotion; fixed findings F4, F5) - '
                 'not yet under contract'],
 'explanation': "_update_with_blocking_jobs: the set only grows, ends closed under 'has a blocker in the set' and sound (every added job has a blocker in the "
                "set), the returned map is exactly blockers-restricted-to-rerun-jobs, and JADE's own iteration-bound assertion cannot fail (cardinality "
                'argument). prepare_for_resubmission: exactly the selected jobs are reset to NOT_SUBMITTED with those blockers, every other job keeps state '
                'and blockers, flags and counters are reset consistently (counters: when every unselected job ran - otherwise finding F8).'}
