PROP = {'id': 'C13',
 'level': 'proof',
 'functions': ['ResultsSummary.get_result', 'ResultsSummary.get_results_by_type', 'ResultsSummary.get_missing_jobs', '_get_jobs_to_resubmit',
               '_update_with_blocking_jobs', 'Cluster.prepare_for_resubmission', 'resubmit_jobs'],
 'native': ['_get_jobs_to_resubmit', '_update_with_blocking_jobs', 'Cluster.prepare_for_resubmission', 'resubmit_jobs'],
 'lemmas': ['lemma_count_in', 'lemma_fold_schemas'],
 'records': ['Cluster', 'ClusterConfig', 'JobStatus', 'Job', 'JobConfiguration'],
 'min_obligations': 300,
 'assumptions': ['create_config_from_file returns the configuration that passed check_job_dependencies at submission time (every blocker is a configured job; '
                 'C17)',
                 'the jobs the submitter then runs are exactly the NOT_SUBMITTED ones, each once and after its remaining blockers (C01, C02): composed, not '
                 're-proved here',
                 'finite-set primitives (|A+{x}| = |A| + [x not in A], inclusion-exclusion, subset => <=) are trusted; the counting schema is proved in '
                 'lemma_count_in'],
 'not_decided': ['ResultsSummary.__init__ (json + deserialize_results: results.json parsed into a dict keyed by each row\'s own name) is an assumed boundary '
                 'contract of _get_jobs_to_resubmit, bounded by the selection harness on real files',
                 'ResultsAggregator.clear_results_for_resubmission (result pruning through the csv module): assumed boundary contract of _reset_results '
                 '(exactly the rows of the set are removed)',
                 'resubmit-jobs --submission-groups-file: the replaced groups are unconstrained objects in the proof and the command does not re-validate '
                 'them; the callback contract is restricted to the path without that option'],
 'explanation': "_get_jobs_to_resubmit: the returned set is EXACTLY the names selected by the flags (failed or canceled rows with --failed, "
                "successful rows with --successful, configured jobs without a row with --missing), proved through get_results_by_type (each of the "
                "three lists is sound and complete for its class) and get_missing_jobs; the list that mixes Result rows and Job records is typed by a "
                "union record whose attribute reads dispatch on a class tag. _update_with_blocking_jobs: the set only grows, ends closed under 'has a blocker in the set' and sound (every added job has a blocker in the "
                "set), the returned map is exactly blockers-restricted-to-rerun-jobs, and JADE's own iteration-bound assertion cannot fail (cardinality "
                'argument). prepare_for_resubmission: exactly the selected jobs are reset to NOT_SUBMITTED with those blockers, every other job keeps state '
                'and blockers, flags and counters are reset consistently (counters: when every unselected job ran - otherwise finding F8). The resubmit_jobs '
                'callback is under contract: on an incomplete submission it exits 1 with jobs, results and counters untouched and gives the role back iff it '
                'took it (F4); otherwise the closure is computed before the results are pruned - the pruned set IS the set that is reset -, pruning happens '
                'exactly once, every precondition of prepare_for_resubmission and submit_jobs is established, a missing events directory is tolerated (F5) and '
                'the role is given back before every exit.',
 'native_budget': {'quick': 60, 'thorough': 400}}
