PROP = {'id': 'C12',
 'level': 'proof',
 'functions': ['AsyncHpcSubmitter.run',
               'JobQueue._run_job',
               'JobSubmitter._handle_completion',
               'HpcSubmitter._is_complete',
               'HpcSubmitter._update_completed_jobs',
               'HpcSubmitter._cancel_job',
               'SlurmManager.submit',
               'AsyncCliCommand.is_complete',
               'AsyncCliCommand._complete',
               'AsyncCliCommand.cancel',
               'HpcSubmitter._update_status',
               'HpcSubmitter.run',
               'AsyncHpcSubmitter.is_complete',
               'HpcStatusCollector.check_status'],
 'native': ['HpcSubmitter.run', 'JobSubmitter._handle_completion', 'HpcSubmitter._update_status'],
 'records': ['AsyncHpcSubmitter', 'JobQueue', 'JobSubmitter'],
 'min_obligations': 600,
 'assumptions': ['E1/E2 (environment) for "reaches completion"; the fault schedules (failed sbatch, lost nodes) are explored only by the bounded simulator',
                 'row producers are exactly AsyncCliCommand._complete / .cancel and HpcSubmitter._cancel_job (call-graph reading, not mechanised)'],
 'not_decided': ['which jobs a killed node had really finished',
                 'dependency cycles end up missing: follows from "a blocker is removed only for a collected name" (C02) but is exercised only by the '
                 'simulator'],
 'explanation': 'A failed submission returns ERROR, marks the handle complete with a non-zero code and is never added to `outstanding`; its jobs stay '
                'SUBMITTED (never re-placed, C01); _handle_completion reports exactly the configured jobs without a row as missing and never invents or drops '
                'a row; _is_complete forces completion exactly when no batch id is active. the node-level AsyncCliCommand methods are proved to refine the '
                'AsyncJob interface contracts JobQueue is verified against. _update_status persists the list of active batch ids whenever it differs from the '
                'stored one (post: stored ids == active ids), which is what lets _is_complete force completion after the last batches vanished.'}
