PROP = {'id': 'C04',
 'level': 'proof',
 'functions': ['JobQueue._check_completions',
               'JobQueue.process_queue',
               'HpcSubmitter._update_completed_jobs',
               'HpcSubmitter._cancel_job',
               'Result.is_successful',
               'Result.is_failed',
               'Result.is_canceled',
               'AsyncCliCommand.cancel',
               'AsyncCliCommand.is_complete'],
 'native': ['JobQueue._check_completions', 'JobQueue.process_queue', 'HpcSubmitter.run'],
 'records': ['JobQueue', 'HpcSubmitter', 'Job', 'Result'],
 'min_obligations': 300,
 'assumptions': ['AsyncJobInterface contracts (is_complete sticky, cancel never starts the process and records a non-zero canceled result) - AsyncCliCommand '
                 'is checked against them separately',
                 'E-res and one result row per job name (C01/C08)'],
 'not_decided': ['exactness in the "only if" direction at node level (a queued job is canceled only because a blocker failed): the contract proves every '
                 'canceled job was flagged and left with no blockers, never started, and that unflagged jobs are never canceled; the failed-blocker witness is '
                 'proved at submitter level only',
                 'closure (every flagged job with a failed blocker IS canceled) is checked by the bounded native harnesses only',
                 'detection latency'],
 'explanation': 'Node level: _check_completions never starts anything, removes from the queue exactly the jobs it canceled (flagged, blockers emptied, '
                'canceled result), pops every canceled job again from `outstanding` before returning, and only shrinks blocker sets. Submitter level: '
                '_update_completed_jobs cancels only flagged not-submitted jobs with a blocker whose collected row has a non-zero code (or was canceled), each '
                'once, marks them done with an empty blocker set and exactly one canceled row, and leaves no not-submitted job waiting for a name that has an '
                'outcome. the node-level AsyncCliCommand methods are proved to refine the AsyncJob interface contracts JobQueue is verified against.'}
