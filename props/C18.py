PROP = {'id': 'C18', 'level': 'proof',
 'functions': ['SlurmManager._create_submission_script_text', 'HpcSubmitterT._create_run_script', 'SlurmManager._get_statuses_from_output',
               'SlurmManager.check_statuses', 'SlurmManager.submit', 'SlurmManager.cancel_job', 'run_command', '_should_exit_early',
               'HpcStatusCollector.check_status', 'AsyncHpcSubmitter.is_complete', 'AsyncHpcSubmitter.run', 'HpcManagerV._get_interface', 'HpcManagerV.submit'],
 'native': ['SlurmManager._create_submission_script_text', 'SlurmManager._get_statuses_from_output', 'run_command'],
 'records': ['SlurmManager', 'SlurmConfigText', 'HpcStatusCollector', 'AsyncHpcSubmitter'],
 'min_obligations': 4000,
 'assumptions': ['str.split / str.strip / str.join / re search / str(int) are assumed library contracts (tokenisation of squeue text and the sbatch regex are not decided by the solver; bounded native checks only)',
                 'T-proc: _run_command starts exactly one process per call and reports its exit status',
                 'the finished set is fixed as SLURM COMPLETED and COMPLETING; every other state text, known or unknown, must map to a not-complete status'],
 'not_decided': ['PBS', 'whether squeue --Format truncates columns', 'wall-clock delays between retries', 'HpcManager.submit passing the just-created script (assumed contract)'],
 'explanation': 'Script text equals the spec list of lines for all 2^9 set/unset combinations of the optional parameters (constant-tuple loop unrolled, SMT strings); the status table is read from the real class body; '
                'COMPLETE only from COMPLETED/COMPLETING lines and never NONE; GOOD submit iff exit 0 and regex match; run_command executes between 1 and num_retries+1 times and stops only at success, budget or a listed permanent error.'}
