PROP = {'id': 'C05',
 'level': 'proof',
 'functions': ['HpcSubmitter._is_complete',
               'HpcSubmitter._submit_batches',
               'HpcSubmitter._make_batch',
               'HpcSubmitter.run',
               'Cluster._mark_complete',
               'Cluster.mark_complete',
               'Cluster._are_all_jobs_complete',
               'Cluster.are_all_jobs_complete',
               'HpcSubmitter._get_available_jobs',
               'HpcSubmitter._update_completed_jobs',
               'try_submit_jobs',
               'JobSubmitter._submit_to_hpc',
               'JobSubmitter.submit_jobs'],
 'native': ['HpcSubmitter._make_batch', 'HpcSubmitter.run'],
 'records': ['HpcSubmitter', 'Cluster', 'ClusterConfig'],
 'min_obligations': 1000,
 'assumptions': ['E1/E2 (environment): a batch with unfinished jobs is reported queued/running; a submitted batch eventually ends',
                 'liveness (finitely many rounds) is NOT proved: only the per-round safety/progress clauses',
                 "link CLI -> round: JobSubmitter._submit_to_hpc is VERIFIED against HpcSubmitter.run's precondition; what remains assumed is "
                 'HpcSubmitter.__init__ (field assignments) and that the state loaded by Cluster.deserialize / JobSubmitter.load satisfies the invariants '
                 'every verified writer maintains (J, active ids <= max-nodes, group-parameter domain, configured names = job names)'],
 'not_decided': ['actual termination on a real scheduler', 'which node wins a promotion race'],
 'explanation': 'Per-round clauses: a not-submitted job of a group without blockers is left behind only when the node limit is reached (_submit_batches clause '
                'f); _is_complete is exact; mark_complete requires not-complete (completion once). The try-submit-jobs callback is under contract: not '
                'promoted => nothing written or submitted, exit 0; promoted => the role is given back before every sys.exit.'}
