PROP = {'id': 'C07',
 'level': 'proof',
 'functions': ['_BatchJobs.__init__',
               '_BatchJobs.try_append',
               '_BatchJobs.are_blocking_jobs_present',
               '_BatchJobs.is_job_blocked',
               'HpcSubmitter._make_batch',
               'HpcManagerV._get_interface',
               'HpcManagerV.submit',
               'HpcSubmitterT._create_run_script',
               'HpcSubmitter._make_async_submitter',
               'HpcSubmitter._get_available_jobs',
               'AsyncHpcSubmitter.run'],
 'native': ['_BatchJobs.__init__', '_BatchJobs.try_append', '_BatchJobs.is_job_blocked', 'HpcSubmitter._make_batch', 'HpcSubmitterT._create_run_script'],
 'records': ['_BatchJobs', 'Job', 'SubmitterParams', 'SubmissionGroup', 'HpcSubmitter'],
 'min_obligations': 1000,
 'assumptions': ['configuration domain: per_node_batch_size >= 1 when not time-based; num_parallel_processes_per_node and every estimated_run_minutes set (>= '
                 '0) when time-based (enforced by the CLI / run_checks, not by these functions)',
                 'job names in available_jobs are pairwise distinct and registered in the configuration (established by Cluster.create from '
                 'JobContainerByName, C17)'],
 'not_decided': ['that the estimate is truthful', 'walltime string parsing (_to_timedelta regex): bounded stand-in only'],
 'explanation': "Inv_B (size/time limit) is a representation invariant of _BatchJobs proved for __init__/try_append; _make_batch's postcondition gives "
                'one-group batches whose blocked jobs have all blockers inside the batch.'}
