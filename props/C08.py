PROP = {'id': 'C08',
 'level': 'proof',
 'functions': ['RAgg._create_files',
               'RAgg.create_files',
               'RAgg._append_result',
               'RAgg.append_result',
               'RAgg.append',
               'RAgg._append_processed_results',
               'RAgg._move_results',
               'RAgg.move_results',
               'RAgg._process_results',
               'RAgg.process_results'],
 'native': ['RAgg._process_results', 'RAgg._move_results', 'RAgg.move_results'],
 'lemmas': ['lemma_c08_exactly_once'],
 'records': ['RAgg'],
 'min_obligations': 100,
 'native_budget': {'quick': 40, 'thorough': 400},
 'assumptions': ['T-lock: SoftFileLock on <file>.lock is mutual exclusion between processes; every access to a results file happens inside the locked action '
                 "of that file (checked: each action requires its file's lock, the public operations take it), so the locked actions are atomic per file - "
                 'interleavings below that granularity are not modelled (no concurrency reasoning in this family)',
                 'T-fs: open/tell/write/os.remove/glob behave as sequential files (ghost: path -> complete lines + unfinished line); a different results file '
                 'has a different lock file',
                 "T-csv: _format_row (csv.writer) is a function of the Result's six fields and _get_results (csv.DictReader) inverts it, one Result per line "
                 '(holds for every text after the fix of F9; checked at run time with names containing the delimiter, quotes and blanks)',
                 "one collecting round at a time (the round holds the consolidated file's lock; C10 gives one submitter)"],
 'not_decided': ['a process killed inside a locked action (half-written line, lock file left): C11 treats leftovers as refusal, torn rows are outside the file '
                 'model',
                 'ResultsAggregator.clear_results_for_resubmission / _write_results (resubmission; reads under the lock, rewrites without it)'],
 'explanation': 'File-level contracts on the real ResultsAggregator: _append_result adds exactly one terminated row at the end of its file and re-creates the '
                "header when the file was absent or empty (deleted by a collection); _move_results, under the node file's lock, returns every row of the node "
                'file once, appends exactly those rows to the consolidated file and deletes the node file; _process_results returns exactly the rows it added '
                'to the consolidated file, in order, and leaves every listed node file deleted; every function keeps its file well formed (header first, '
                "complete lines, no unfinished line) and touches no other file; each requires its file's lock and the public operations acquire exactly that "
                'lock. Lemma L-C08 lifts the per-action effects to any interleaving of any number of appenders and rounds: every appended row is always in '
                'exactly one place and is reported by exactly one round.'}
