PROP = {'id': 'C10',
 'level': 'proof',
 'functions': ['Cluster._serialize',
               'Cluster._serialize_jobs',
               'Cluster._promote_to_submitter',
               'Cluster._demote_from_submitter',
               'Cluster._mark_complete',
               'Cluster._mark_canceled',
               'Cluster.promote_to_submitter',
               'Cluster.demote_from_submitter',
               'Cluster.mark_complete',
               'Cluster.mark_canceled',
               'Cluster._update_job_status',
               'Cluster.update_job_status',
               'try_submit_jobs',
               'resubmit_jobs',
               'cancel_jobs',
               'JobSubmitter._submit_to_hpc',
               'JobSubmitter.submit_jobs'],
 'native': ['Cluster._serialize', 'resubmit_jobs'],
 'lemmas': ['lemma_c10_single_submitter'],
 'records': ['Cluster', 'ClusterConfig'],
 'min_obligations': 300,
 'assumptions': ['T-lock',
                 'A-host: handles are identified by process in the lemma, by hostname in the code; the promotion typestate precondition closes the gap for the '
                 'call sites under contract',
                 'Cluster._deserialize (json load + pydantic, **kwargs) is an assumed contract',
                 "link CLI -> round: JobSubmitter._submit_to_hpc is VERIFIED against HpcSubmitter.run's precondition; what remains assumed is "
                 'HpcSubmitter.__init__ (field assignments) and that the state loaded by Cluster.deserialize / JobSubmitter.load satisfies the invariants '
                 'every verified writer maintains (J, active ids <= max-nodes, group-parameter domain, configured names = job names)'],
 'not_decided': ['CLI call sites (cancel_jobs/resubmit_jobs callbacks; try_submit_jobs IS under contract) are not yet under contract: the discipline '
                 'precondition is checked only in HpcSubmitter/Cluster callers'],
 'explanation': '_serialize raises ConfigVersionMismatch iff the handle is stale and writes nothing before; promotion fails iff a submitter is recorded; lemma '
                'L-C10 lifts this to all interleavings of lock-protected operations. The try-submit-jobs callback is under contract: not promoted => nothing '
                'written or submitted, exit 0; promoted => the role is given back before every sys.exit.'}
