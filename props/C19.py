PROP = {'id': 'C19',
 'level': 'proof',
 'functions': ['GenericCommandExecution.generate_command',
               'JobRunner._generate_jobs',
               'AsyncCliCommand.__init__',
               'AsyncCliCommand.run',
               'AsyncCliCommand._complete',
               'AsyncCliCommand.is_complete',
               'AsyncCliCommand.cancel'],
 'native': ['AsyncCliCommand.run'],
 'lemmas': [],
 'records': ['AsyncCliCommand', 'GenericCommandExecution'],
 'min_obligations': 90,
 'native_budget': {'quick': 30, 'thorough': 300},
 'assumptions': ['shlex.split(text, posix=True) IS the POSIX word splitting the property names (library, uninterpreted in the proof; compared against /bin/sh '
                 'on generated command lines by the bounded harness)',
                 'subprocess.Popen starts exactly one process with the given argv, environment and stdio; Popen.poll returns None while it runs and then its '
                 'real exit status (T-proc)',
                 "ResultsAggregator.append writes the Result it is given as one row of the node's results file (C08); Result.__new__ stores its arguments "
                 '(namedtuple)',
                 'strings: the command text is an uninterpreted value; + is an uninterpreted concatenation, so the proof pins down WHICH pieces are '
                 'concatenated in WHICH order, not character-level facts',
                 "sys.platform is 'linux' (posix=True)",
                 'the extension registry maps a generic_command job to GenericCommandExecution'],
 'not_decided': ["other extensions' generate_command implementations",
                 'an output directory containing blanks together with append_output_dir (the documented argument is appended unquoted)'],
 'explanation': 'generate_command returns the configured command verbatim followed by exactly the requested documented arguments in the documented order; '
                "_generate_jobs builds one AsyncCliCommand per configured job from that job, that command, the batch id, the manager flag and the node's HPC "
                "job id; run starts exactly one process whose argv is shlex.split of that command, whose environment is the caller's plus "
                'JADE_RUNTIME_OUTPUT/JADE_JOB_NAME and whose stdout/stderr are <output>/job-stdio/<name>.o/.e; is_complete/_complete record exactly one row '
                "(manager node only) carrying the job's name, the process's real return code, FINISHED and the HPC job id; cancel records a CANCELED row with "
                'code 1 and never starts a process. The same methods are proved to refine the AsyncJob interface contracts that JobQueue is verified against '
                '(C02, C04, C06, C12).'}
