PROP = {'id': 'C16',
 'level': 'proof',
 'functions': ['JobSubmitter.submit_jobs', 'JobSubmitter._handle_completion', 'JobRunner.run_jobs_v', 'JobRunner._run_jobs', 'Cluster.mark_complete',
               'HpcSubmitter._make_async_submitter'],
 'native': ['JobSubmitter._handle_completion', 'JobRunner.run_jobs_v', 'HpcSubmitter.run'],
 'records': ['JobSubmitter', 'JobRunner', 'JobConfiguration', 'Cluster', 'HpcSubmitter'],
 'min_obligations': 500,
 'assumptions': ['ghost event log: the boundary contracts of write_results_summary, run_command / check_run_command (with env), Cluster.mark_complete and '
                 'JobRunner._run_jobs append their tag; the log is ghost state, its bookkeeping clauses are assumed by callers and defined (not checked) at '
                 'the boundary functions',
                 'HpcSubmitter construction + run inside _submit_to_hpc, JobRunner.run_jobs in local mode, _generate_jobs, serialize_for_execution are assumed '
                 'boundary contracts',
                 'the obsolete node_setup_script / node_shutdown_script variants are covered only in the sense that the function verifies with them set (order '
                 'clauses are stated for the command variant)'],
 'not_decided': ['a node setup command that itself fails (check_run_command raises: the batch does not run)',
                 'what the commands do',
                 'the content of the pipeline trigger command string'],
 'explanation': 'submit_jobs runs the setup command exactly when the submission is new and configures one, once, before anything is handed over (ghost.runs '
                'unchanged at that point); _handle_completion logs summary, then teardown (iff configured, independent of results), then the completion flag; '
                'run_jobs runs node setup strictly before and node teardown strictly after the batch, with JADE_RUNTIME_OUTPUT and JADE_SUBMISSION_GROUP in '
                'the environment, and returns the batch status whatever the teardown status; attribute-safety obligations cover every attribute read (F3).',
 'native_budget': {'quick': 40, 'thorough': 300}}
