PROP = {'id': 'C15',
 'level': 'proof',
 'functions': ['PipelineManager._submit_next_stage', 'JobSubmitter._handle_completion'],
 'native': ['PipelineManager._submit_next_stage', 'JobSubmitter._handle_completion'],
 'lemmas': ['lemma_c15_pipeline_order'],
 'records': ['PipelineManager', 'PipelineConfig', 'PipelineStage'],
 'min_obligations': 50,
 'assumptions': ['JobSubmitter.run_submit_jobs / create_config_from_file / _run_auto_config / _serialize are assumed boundary contracts (ghost: stage number '
                 'handed over, save counter)',
                 'environment: `pipeline submit` is invoked once; submit-next-stage for k is triggered by the completion of stage k-1 (C05: a submission '
                 'completes once)',
                 'pipeline.json has no lock: truly concurrent triggers are outside the contracts'],
 'not_decided': ["the auto-config commands' effects", 'JobSubmitter._handle_completion issuing the trigger after mark_complete (not yet under contract)'],
 'explanation': 'Per call: in-order trigger records the return code, advances stage_num by one, saves, and hands exactly that stage to run_submit_jobs (or '
                'marks the pipeline complete after the last); any other trigger raises InvalidParameter and changes nothing. Lemma L-C15 gives exactly-once, '
                'in order. The trigger of the next stage is issued by _handle_completion only after the completion flag of this stage is persisted (event-log '
                'order clause).'}
