"""Lemmas over contracts: inductive invariants whose transition relations restate the proved
contract clauses of the named functions (each op cites the contract it is taken from; the
function proofs are what ties them to the code).  Unbounded in the number of handles / jobs.
Also: the finite-sum / finite-set lemma schemas the engine instantiates, proved here by induction
(base + step), so they are not trusted axioms.
"""
import z3
from pyvc.state import Obligation


def _ob(oid, desc, hyps, goal):
    return Obligation(oid, "lemma", oid.split("/")[0], 0, desc, hyps, goal)


# ---------------------------------------------------------------------------------------------------
def lemma_c10_single_submitter():
    """L-C10: at most one promoted handle; a promoted handle is current; stale handles cannot write."""
    H = z3.DeclareSort("Handle")
    Host = z3.DeclareSort("Host")
    cv, cv2 = z3.Function("cv", H, z3.IntSort()), z3.Function("cv_n", H, z3.IntSort())
    prom, prom2 = z3.Function("prom", H, z3.BoolSort()), z3.Function("prom_n", H, z3.BoolSort())
    host = z3.Function("host", H, Host)
    dcv, dcv2 = z3.Ints("dcv dcv_n")
    dnone, dnone2 = z3.Bools("dsub_none dsub_none_n")
    dsub, dsub2 = z3.Consts("dsub dsub_n", Host)
    hsub_none = z3.Function("hsub_none", H, z3.BoolSort())   # the handle's in-memory copy of the submitter field
    hsub_none2 = z3.Function("hsub_none_n", H, z3.BoolSort())
    h, g, x = z3.Consts("h g x", H)

    def inv(cv, prom, hsub_none, dcv, dnone, dsub):
        return z3.And(
            z3.ForAll([h], cv(h) <= dcv),
            z3.ForAll([h, g], z3.Implies(z3.And(prom(h), prom(g)), h == g)),                       # mutual exclusion
            z3.ForAll([h], z3.Implies(prom(h), z3.And(z3.Not(dnone), dsub == host(h), cv(h) == dcv))),   # promoted => current, role on disk
            z3.Implies(dnone, z3.ForAll([h], z3.Not(prom(h)))),
            # a current handle's copy of the submitter field is the disk's
            z3.ForAll([h], z3.Implies(cv(h) == dcv, hsub_none(h) == dnone)),
        )

    I = inv(cv, prom, hsub_none, dcv, dnone, dsub)
    I2 = inv(cv2, prom2, hsub_none2, dcv2, dnone2, dsub2)
    others = lambda f, f2: z3.ForAll([x], z3.Implies(x != h, f2(x) == f(x)))
    frame_others = z3.And(others(cv, cv2), others(prom, prom2), others(hsub_none, hsub_none2))
    disk_same = z3.And(dcv2 == dcv, dnone2 == dnone, dsub2 == dsub)
    obs = []
    # Load(h): Cluster._deserialize without promotion - copies the disk state          [Cluster._deserialize, assumed I/O]
    load = z3.And(cv2(h) == dcv, hsub_none2(h) == dnone, z3.Not(prom(h)), prom2(h) == False, frame_others, disk_same)
    obs.append(_ob("L-C10/step/load", "Inv preserved by loading a handle", [I, load], I2))
    # Promote(h): Cluster._promote_to_submitter contract
    #   result == isnone(old submitter copy); not result => nothing written; result => _serialize:
    #   raises ConfigVersionMismatch iff cv(h) != dcv (nothing written) else dcv' = cv'(h) = dcv+1, disk mirrors memory
    promote_ok = z3.And(z3.Not(prom(h)), hsub_none(h), cv(h) == dcv, dcv2 == dcv + 1, cv2(h) == dcv + 1, prom2(h), z3.Not(dnone2), dsub2 == host(h),
                        hsub_none2(h) == False, frame_others)
    promote_refused = z3.And(z3.Not(prom(h)), z3.Not(hsub_none(h)), cv2(h) == cv(h), prom2(h) == False, hsub_none2(h) == hsub_none(h), frame_others, disk_same)
    promote_stale = z3.And(z3.Not(prom(h)), hsub_none(h), cv(h) != dcv, cv2(h) == cv(h), prom2(h) == False, hsub_none2(h) == hsub_none(h), frame_others, disk_same)
    obs.append(_ob("L-C10/step/promote", "Inv preserved by a successful promotion", [I, promote_ok], I2))
    obs.append(_ob("L-C10/step/promote-refused", "Inv preserved by a refused promotion", [I, promote_refused], I2))
    obs.append(_ob("L-C10/step/promote-stale", "Inv preserved by a promotion rejected with ConfigVersionMismatch", [I, promote_stale], I2))
    # promotion really fails while another handle holds the role: a successful promotion implies nobody was promoted
    obs.append(_ob("L-C10/goal/exclusive-promotion", "a promotion succeeds only when no handle is promoted", [I, promote_ok], z3.ForAll([g], z3.Not(prom(g)))))
    # Demote(h): Cluster._demote_from_submitter contract (requires g_promoted)
    demote = z3.And(prom(h), dcv2 == dcv + 1, cv2(h) == dcv + 1, dnone2, prom2(h) == False, hsub_none2(h) == True, frame_others)
    obs.append(_ob("L-C10/step/demote", "Inv preserved by demotion", [I, demote], I2))
    # Write(h): any other promoted mutator (update_job_status, mark_complete, mark_canceled): requires g_promoted
    write = z3.And(prom(h), z3.Or(z3.And(dcv2 == dcv + 1, cv2(h) == dcv + 1), z3.And(dcv2 == dcv, cv2(h) == cv(h))), dnone2 == dnone, dsub2 == dsub,
                   prom2(h), hsub_none2(h) == hsub_none(h), frame_others)
    obs.append(_ob("L-C10/step/write", "Inv preserved by a promoted write", [I, write], I2))
    # goal: a stale handle's write is rejected with the disk unchanged (first clause of _serialize's contract), and a promoted handle is never stale
    obs.append(_ob("L-C10/goal/promoted-current", "a promoted handle is never stale", [I, prom(h)], cv(h) == dcv))
    # init: one handle created by Cluster.create, promoted, version 1 on disk
    h0 = z3.Const("h0", H)
    init = z3.And(dcv == 1, z3.Not(dnone), dsub == host(h0), z3.ForAll([h], z3.And(prom(h) == (h == h0), cv(h) == z3.If(h == h0, 1, 0),
                                                                                  hsub_none(h) == (h != h0))))
    # handles other than h0 do not exist yet: model them as never-loaded (cv 0 <= dcv); their copy is irrelevant until Load
    init_inv = z3.And(z3.ForAll([h], cv(h) <= dcv), z3.ForAll([h, g], z3.Implies(z3.And(prom(h), prom(g)), h == g)),
                      z3.ForAll([h], z3.Implies(prom(h), z3.And(z3.Not(dnone), dsub == host(h), cv(h) == dcv))))
    obs.append(_ob("L-C10/init", "the invariant's exclusion clauses hold after Cluster.create", [init], init_inv))
    return obs


# ---------------------------------------------------------------------------------------------------
def lemma_c01_cross_round():
    """L-C01: over any sequence of submitter rounds each job is placed at most once and batch ids are unique."""
    Job = z3.DeclareSort("JobL")
    NS, SUB, DONE = 0, 1, 2
    st, st2 = z3.Function("st", Job, z3.IntSort()), z3.Function("st_n", Job, z3.IntSort())
    placed, placed2 = z3.Function("placed", Job, z3.IntSort()), z3.Function("placed_n", Job, z3.IntSort())
    used, used2 = z3.Function("used", z3.IntSort(), z3.BoolSort()), z3.Function("used_n", z3.IntSort(), z3.BoolSort())
    inS = z3.Function("inS", Job, z3.BoolSort())         # jobs placed by this round (submitted_jobs of HpcSubmitter.run)
    bi, bi2 = z3.Ints("bi bi_n")
    j = z3.Const("j", Job)
    u = z3.Int("u")

    def inv(st, placed, used, bi):
        return z3.And(z3.ForAll([j], z3.And(0 <= placed(j), placed(j) <= 1, 0 <= st(j), st(j) <= 2, z3.Implies(placed(j) == 1, st(j) != NS))),
                      z3.ForAll([u], z3.Implies(used(u), z3.And(1 <= u, u < bi))), bi >= 1)

    I, I2 = inv(st, placed, used, bi), inv(st2, placed2, used2, bi2)
    # Round: from HpcSubmitter.run / _submit_batches / Cluster._update_job_status contracts:
    #   submitted jobs are not-submitted jobs with pairwise distinct names (each placed in exactly one batch of the round),
    #   they become SUBMITTED; states only advance (MONO); ids used are [bi, bi') and bi' is persisted
    rnd = z3.And(z3.ForAll([j], z3.Implies(inS(j), st(j) == NS)),
                 z3.ForAll([j], placed2(j) == placed(j) + z3.If(inS(j), 1, 0)),
                 z3.ForAll([j], z3.And(st2(j) >= st(j), st2(j) <= 2, z3.Implies(inS(j), st2(j) != NS))),
                 bi2 >= bi, z3.ForAll([u], used2(u) == z3.Or(used(u), z3.And(bi <= u, u < bi2))))
    obs = [_ob("L-C01/step/round", "placed <= 1 and fresh batch ids are preserved by a submitter round", [I, rnd], I2),
           _ob("L-C01/goal/fresh-ids", "the ids a round uses were never used before", [I, rnd, bi <= u, u < bi2], z3.Not(used(u))),
           _ob("L-C01/init", "holds initially (nothing placed, batch index 1)",
               [z3.ForAll([j], z3.And(placed(j) == 0, st(j) == NS)), z3.ForAll([u], z3.Not(used(u))), bi == 1], I)]
    return obs


# ---------------------------------------------------------------------------------------------------
def lemma_fold_schemas():
    """The finite-sum schemas the engine instantiates (speceval.fold_*), proved by induction on the list
    length for an arbitrary term function t: index -> Int (the list element at that index, abstracted)."""
    n = z3.Int("n")
    i = z3.Int("i")
    obs = []
    # fold defined by snoc recursion over a fixed list: F(0)=0, F(k+1)=F(k)+t(k)
    t = z3.Function("t", z3.IntSort(), z3.IntSort())
    F = z3.Function("F", z3.IntSort(), z3.IntSort())
    defF = z3.And(F(0) == 0, z3.ForAll([i], z3.Implies(i >= 0, F(i + 1) == F(i) + t(i))))
    bounded = z3.ForAll([i], z3.Implies(i >= 0, z3.And(0 <= t(i), t(i) <= 1)))
    # bounds 0 <= F(n) <= n : base and step
    obs.append(_ob("L-fold/bounds/base", "0 <= fold <= len (base)", [defF, bounded], z3.And(0 <= F(0), F(0) <= 0)))
    obs.append(_ob("L-fold/bounds/step", "0 <= fold <= len (step)", [defF, bounded, n >= 0, 0 <= F(n), F(n) <= n], z3.And(0 <= F(n + 1), F(n + 1) <= n + 1)))
    # pointwise <= lifts to sums
    t2 = z3.Function("t2", z3.IntSort(), z3.IntSort())
    F2 = z3.Function("F2", z3.IntSort(), z3.IntSort())
    defF2 = z3.And(F2(0) == 0, z3.ForAll([i], z3.Implies(i >= 0, F2(i + 1) == F2(i) + t2(i))))
    le = z3.ForAll([i], z3.Implies(i >= 0, t(i) <= t2(i)))
    obs.append(_ob("L-fold/le/base", "pointwise <= lifts to sums (base)", [defF, defF2, le], F(0) <= F2(0)))
    obs.append(_ob("L-fold/le/step", "pointwise <= lifts to sums (step)", [defF, defF2, le, n >= 0, F(n) <= F2(n)], F(n + 1) <= F2(n + 1)))
    # extremal: all terms 1 => F(n) = n ; some term 0 => F(n) <= n-1
    all1 = z3.ForAll([i], z3.Implies(z3.And(0 <= i), t(i) == 1))
    obs.append(_ob("L-fold/all-hi/step", "all terms at the upper bound => sum at the upper bound (step)", [defF, all1, n >= 0, F(n) == n], F(n + 1) == n + 1))
    k = z3.Int("k")
    obs.append(_ob("L-fold/some-lo/step", "a term below the bound keeps the sum below the bound (step)",
                   [defF, bounded, n >= 0, z3.Implies(z3.And(0 <= k, k < n, t(k) == 0), F(n) <= n - 1), 0 <= k, k < n + 1, t(k) == 0, F(n) <= n],
                   F(n + 1) <= n))
    # point update: t' agrees with t except at index k  =>  F'(n) = F(n) - t(k) + t'(k) for k < n, F'(n) = F(n) for k >= n
    tp = z3.Function("tp", z3.IntSort(), z3.IntSort())
    Fp = z3.Function("Fp", z3.IntSort(), z3.IntSort())
    defFp = z3.And(Fp(0) == 0, z3.ForAll([i], z3.Implies(i >= 0, Fp(i + 1) == Fp(i) + tp(i))))
    agree = z3.ForAll([i], z3.Implies(i != k, tp(i) == t(i)))
    claim = lambda m: Fp(m) == F(m) + z3.If(k < m, tp(k) - t(k), 0)
    obs.append(_ob("L-fold/point-update/base", "point update of one element (base)", [defF, defFp, agree, k >= 0], claim(z3.IntVal(0))))
    obs.append(_ob("L-fold/point-update/step", "point update of one element (step)", [defF, defFp, agree, k >= 0, n >= 0, claim(n)], claim(n + 1)))
    return obs


# ---------------------------------------------------------------------------------------------------
def lemma_count_in():
    """The schema behind speceval.fn_count_in: for a list with pairwise distinct names and a finite set S of names that all
    occur in the list, the number of positions whose name is in S equals |S|.  Proved in the generalised form
    C(n) = |S & N(n)| by induction on the prefix length n, with N(n) the names of the first n elements; the finite-set
    primitive used is |A + {x}| = |A| + [x not in A] (the same axiom the engine uses for set.add)."""
    Name = z3.DeclareSort("LName")
    SetS = z3.ArraySort(Name, z3.BoolSort())
    nm = z3.Function("nm", z3.IntSort(), Name)                 # name of the element at a position
    N = z3.Function("N", z3.IntSort(), SetS)                   # names of the first n elements
    C = z3.Function("C", z3.IntSort(), z3.IntSort())           # count_in of the first n elements
    card = z3.Function("card", SetS, z3.IntSort())
    Sset = z3.Const("S", SetS)
    i, j, n = z3.Ints("i j n")
    A = z3.Const("A", SetS)
    x = z3.Const("x", Name)
    empty = z3.K(Name, z3.BoolVal(False))
    card_ax = z3.And(card(empty) == 0,
                     z3.ForAll([A, x], card(z3.Store(A, x, z3.BoolVal(True))) == card(A) + z3.If(z3.Select(A, x), 0, 1)))
    defN = z3.And(N(0) == empty, z3.ForAll([i], z3.Implies(i >= 0, N(i + 1) == z3.Store(N(i), nm(i), z3.BoolVal(True)))))
    defC = z3.And(C(0) == 0, z3.ForAll([i], z3.Implies(i >= 0, C(i + 1) == C(i) + z3.If(z3.Select(Sset, nm(i)), 1, 0))))
    distinct = z3.ForAll([i, j], z3.Implies(z3.And(0 <= i, i < j), nm(i) != nm(j)))
    # N(n) is the set characterised by nameset(): x in N(n) <=> some position below n carries x   (one direction is what the step needs)
    charN = lambda k: z3.ForAll([x], z3.Implies(z3.Select(N(k), x), z3.Exists([i], z3.And(0 <= i, i < k, nm(i) == x))))
    I_n = z3.SetIntersect(Sset, N(n))
    obs = [
        _ob("L-count/char/base", "names of the empty prefix", [defN], charN(z3.IntVal(0))),
        _ob("L-count/char/step", "x in N(n+1) => some position below n+1 carries x", [defN, n >= 0, charN(n)], charN(n + 1)),
        # base: only the ground conjuncts of the three definitions are needed (fewer hypotheses = a stronger lemma).  With the quantified
        # halves of defN/defC/card_ax among the hypotheses z3 needed 14-15 s of a 15 s budget on this query (instantiation of the
        # card(store(A, x, true)) axiom is a matching loop) and the verdict flipped with machine load; ground, it is decided in ms.
        _ob("L-count/base", "count over the empty prefix = |S & {}|", [N(0) == empty, C(0) == 0, card(empty) == 0],
            C(0) == card(z3.SetIntersect(Sset, N(0)))),
        _ob("L-count/step/fresh", "the name at position n is not among the first n names", [defN, distinct, n >= 0, charN(n)], z3.Not(z3.Select(N(n), nm(n)))),
        _ob("L-count/step/in", "count over n+1 elements = |S & N(n+1)|, new name in S",
            [defN, defC, n >= 0, z3.Not(z3.Select(N(n), nm(n))), z3.Select(Sset, nm(n)), C(n) == card(I_n),
             card(z3.Store(I_n, nm(n), z3.BoolVal(True))) == card(I_n) + z3.If(z3.Select(I_n, nm(n)), 0, 1)],      # instance of the finite-set axiom
            C(n + 1) == card(z3.SetIntersect(Sset, N(n + 1)))),
        _ob("L-count/step/out", "count over n+1 elements = |S & N(n+1)|, new name not in S",
            [defN, defC, n >= 0, z3.Not(z3.Select(Sset, nm(n))), C(n) == card(I_n)],
            C(n + 1) == card(z3.SetIntersect(Sset, N(n + 1)))),
        _ob("L-count/subset", "S a subset of the names => |S & N| = |S|", [z3.IsSubset(Sset, N(n))], card(z3.SetIntersect(Sset, N(n))) == card(Sset)),
    ]
    return obs


# ---------------------------------------------------------------------------------------------------
def lemma_c20_running_stats():
    """L-C20: starting from (max, min, sum) = (0, sys.maxsize, 0) and applying the per-call update proved for
    update_resource_stats (max' = max(max, v), min' = min(min, v), sum' = sum + v) to samples 0 <= v <= sys.maxsize,
    after n >= 1 samples the cell holds the true maximum, minimum and sum (mean = sum / count)."""
    M = z3.RealVal(9223372036854775807)
    v = z3.Function("v", z3.IntSort(), z3.RealSort())
    mx, mn, sm = (z3.Function(n_, z3.IntSort(), z3.RealSort()) for n_ in ("mx", "mn", "sm"))
    tmax, tmin, tsum = (z3.Function(n_, z3.IntSort(), z3.RealSort()) for n_ in ("tmax", "tmin", "tsum"))
    i, n = z3.Ints("i n")
    rmax = lambda a, b: z3.If(a >= b, a, b)
    rmin = lambda a, b: z3.If(a <= b, a, b)
    dom = z3.ForAll([i], z3.Implies(i >= 0, z3.And(0 <= v(i), v(i) <= M)))
    code = z3.And(mx(0) == 0, mn(0) == M, sm(0) == 0,
                  z3.ForAll([i], z3.Implies(i >= 0, z3.And(mx(i + 1) == rmax(mx(i), v(i)), mn(i + 1) == rmin(mn(i), v(i)), sm(i + 1) == sm(i) + v(i)))))
    truth = z3.And(tmax(1) == v(0), tmin(1) == v(0), tsum(1) == v(0),
                   z3.ForAll([i], z3.Implies(i >= 1, z3.And(tmax(i + 1) == rmax(tmax(i), v(i)), tmin(i + 1) == rmin(tmin(i), v(i)), tsum(i + 1) == tsum(i) + v(i)))))
    claim = lambda k: z3.And(mx(k) == tmax(k), mn(k) == tmin(k), sm(k) == tsum(k))
    return [_ob("L-C20/base", "after the first sample the cell holds that sample as max, min and sum", [dom, code, truth], claim(z3.IntVal(1))),
            _ob("L-C20/step", "one more sample keeps max/min/sum true", [dom, code, truth, n >= 1, claim(n)], claim(n + 1))]


# ---------------------------------------------------------------------------------------------------
def lemma_c15_pipeline_order():
    """L-C15: with the per-call contract of PipelineManager._submit_next_stage (accept k iff k == stage_num + 1, else reject without
    change) every stage is submitted exactly once, in order, and the pipeline is complete iff stage_num == n + 1."""
    cur, cur2, n = z3.Ints("cur cur_n n")
    started, started2, done, done2 = z3.Bools("started started_n done done_n")
    sub, sub2 = z3.Function("sub", z3.IntSort(), z3.IntSort()), z3.Function("sub_n", z3.IntSort(), z3.IntSort())
    s, k = z3.Ints("s k")

    def inv(cur, started, done, sub):
        return z3.And(n >= 1, 1 <= cur, cur <= n + 1, done == (cur == n + 1),
                      z3.Implies(z3.Not(started), z3.And(cur == 1, z3.ForAll([s], sub(s) == 0))),
                      z3.Implies(started, z3.ForAll([s], sub(s) == z3.If(z3.And(1 <= s, s <= cur, s <= n), 1, 0))))
    I, I2 = inv(cur, started, done, sub), inv(cur2, started2, done2, sub2)
    submit1 = z3.And(z3.Not(started), cur == 1, cur2 == 1, started2, done2 == done, z3.ForAll([s], sub2(s) == sub(s) + z3.If(s == 1, 1, 0)))
    nxt_ok = z3.And(started, z3.Not(done), k == cur + 1, cur2 == k, started2, done2 == (k == n + 1),
                    z3.ForAll([s], sub2(s) == sub(s) + z3.If(z3.And(s == k, k <= n), 1, 0)))
    nxt_rej = z3.And(k != cur + 1, cur2 == cur, started2 == started, done2 == done, z3.ForAll([s], sub2(s) == sub(s)))
    return [_ob("L-C15/step/submit", "stage 1 submitted once by `pipeline submit`", [I, submit1], I2),
            _ob("L-C15/step/next", "an in-order trigger submits exactly the next stage (or completes the pipeline)", [I, nxt_ok], I2),
            _ob("L-C15/step/rejected", "a duplicate / out-of-order trigger changes nothing", [I, nxt_rej], I2),
            _ob("L-C15/goal/once", "no stage is ever submitted twice; stage s+1 only after stage s", [I],
                z3.ForAll([s], z3.And(sub(s) <= 1, z3.Implies(z3.And(sub(s + 1) == 1, s >= 1), sub(s) == 1))))]


# ---------------------------------------------------------------------------------------------------
def lemma_c03_unique_classification():
    """L-C03: on an acyclic dependency relation, two labellings that are both locally consistent with the same exit codes and
    cancel flags are equal (induction on a rank function).  The local-consistency predicate mentions no batching parameter,
    node limit, group or schedule - so the final classification cannot depend on them."""
    Job = z3.DeclareSort("JobC")
    OK, FAILED, CANCELED = 0, 1, 2
    L1, L2 = z3.Function("L1", Job, z3.IntSort()), z3.Function("L2", Job, z3.IntSort())
    rc = z3.Function("rc", Job, z3.IntSort())
    flag = z3.Function("flag", Job, z3.BoolSort())
    D = z3.Function("D", Job, Job, z3.BoolSort())      # D(j, b): b is in blocked_by(j)
    rank = z3.Function("rank", Job, z3.IntSort())
    j, b = z3.Consts("j b", Job)
    r = z3.Int("r")
    acyclic = z3.ForAll([j, b], z3.Implies(D(j, b), z3.And(rank(b) < rank(j), rank(b) >= 0)))

    def consistent(L):
        canceled = z3.And(flag(j), z3.Exists([b], z3.And(D(j, b), L(b) != OK)))
        return z3.ForAll([j], z3.And(z3.Or(L(j) == OK, L(j) == FAILED, L(j) == CANCELED),
                                     (L(j) == CANCELED) == canceled,
                                     z3.Implies(z3.Not(canceled), (L(j) == OK) == (rc(j) == 0))))
    hyp = z3.ForAll([b], z3.Implies(rank(b) < r, L1(b) == L2(b)))
    return [_ob("L-C03/step", "two locally consistent labellings agree on every job of rank r if they agree below r",
                [acyclic, consistent(L1), consistent(L2), hyp], z3.ForAll([j], z3.Implies(rank(j) == r, L1(j) == L2(j))))]


# ---------------------------------------------------------------------------------------------------
def lemma_c08_exactly_once():
    """L-C08: every row appended by a runner is, at every lock-free instant, in exactly one place (one node file or the
    consolidated file), and is reported by exactly one collection round - for any number of node files, runners and rounds and any
    interleaving at lock-operation granularity.

    The atomic actions are the locked actions whose effect is proved on the real code (contracts/aggregator.py):
      Append(f, x)  RAgg._append_result under f's lock: exactly one row x is added at the end of f, every other file unchanged
                    (the header is re-created when f was absent or empty);
      Move(f)       RAgg._move_results under f's lock, with the consolidated file's lock held by the round (RAgg.process_results):
                    f is deleted, every row it held is returned once and appended once to the consolidated file, nothing else changes.
    T-lock makes each of them atomic with respect to every other action on the same file; actions on different files commute.
    State per row text x (multiset counts): N(x) occurrences in all node files together, P(x) in the consolidated file, A(x) appends
    so far, R(x) times x was returned by a round.  c(x) = occurrences of x in the file being moved (0 <= c(x) <= N(x))."""
    Row = z3.DeclareSort("Row")
    N, P, A, R = (z3.Function(n_, Row, z3.IntSort()) for n_ in ("N", "P", "A", "R"))
    N2, P2, A2, R2 = (z3.Function(n_ + "_n", Row, z3.IntSort()) for n_ in ("N", "P", "A", "R"))
    c = z3.Function("c", Row, z3.IntSort())
    x, y = z3.Consts("x y", Row)
    inv = lambda N, P, A, R: z3.ForAll([x], z3.And(N(x) >= 0, P(x) >= 0, N(x) + P(x) == A(x), R(x) == P(x)))
    init = z3.ForAll([x], z3.And(N(x) == 0, P(x) == 0, A(x) == 0, R(x) == 0))
    append = z3.ForAll([x], z3.And(N2(x) == N(x) + z3.If(x == y, 1, 0), A2(x) == A(x) + z3.If(x == y, 1, 0), P2(x) == P(x), R2(x) == R(x)))
    move = z3.And(z3.ForAll([x], z3.And(0 <= c(x), c(x) <= N(x))),
                  z3.ForAll([x], z3.And(N2(x) == N(x) - c(x), P2(x) == P(x) + c(x), R2(x) == R(x) + c(x), A2(x) == A(x))))
    drained = z3.ForAll([x], N(x) == 0)
    return [
        _ob("L-C08/init", "empty output directory: nothing appended, nothing collected", [init], inv(N, P, A, R)),
        _ob("L-C08/append", "an append keeps 'every appended row is in exactly one place' and reports nothing", [inv(N, P, A, R), append], inv(N2, P2, A2, R2)),
        _ob("L-C08/move", "moving a node file keeps it: rows leave the node files, enter the consolidated file once and are reported once",
            [inv(N, P, A, R), move], inv(N2, P2, A2, R2)),
        _ob("L-C08/exactly-once", "once no node file holds rows, every appended row is exactly once in the consolidated file and was reported exactly once",
            [inv(N, P, A, R), drained], z3.ForAll([x], z3.And(P(x) == A(x), R(x) == A(x)))),
        _ob("L-C08/never-lost", "at every instant a row that was appended is in a node file or in the consolidated file, never in neither and never more often than appended",
            [inv(N, P, A, R)], z3.ForAll([x], z3.And(z3.Implies(A(x) >= 1, z3.Or(N(x) >= 1, P(x) >= 1)), N(x) + P(x) <= A(x), R(x) <= A(x)))),
    ]
