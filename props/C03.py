PROP = {'id': 'C03',
 'level': 'proof',
 'functions': ['Result.is_successful',
               'Result.is_failed',
               'Result.is_canceled',
               'JobSubmitter._handle_completion',
               'JobSubmitter._build_results',
               'HpcSubmitter._update_completed_jobs',
               'HpcSubmitter._cancel_job',
               'JobQueue._check_completions',
               'HpcSubmitter._make_batch',
               'ResultsSummary.get_results_by_type',
               'ResultsSummary.get_successful_result'],
 'native': ['HpcSubmitter.run', 'JobSubmitter._handle_completion', 'JobQueue._check_completions', 'JobQueue.process_queue'],
 'lemmas': ['lemma_c03_unique_classification'],
 'records': ['Result', 'JobSubmitter', 'ResultsSummary'],
 'min_obligations': 600,
 'assumptions': ['the completeness premise (every batch runs to its end => every job gets a result) is C05/C12 territory and only checked by the bounded '
                 'simulator here',
                 'E-res; one row per job name (C01/C08); result rows well-formed (wf_result)'],
 'not_decided': ['equality of exec_time_s etc. (not claimed)', 'cyclic configurations (C12)'],
 'explanation': 'Deterministic core: the three classifiers are mutually exclusive and exhaustive on well-formed rows; _handle_completion reports exactly '
                'configured-minus-collected as missing; cancellation at both levels only for flagged jobs with a failed/canceled blocker; lemma L-C03: local '
                'consistency determines the classification uniquely on an acyclic graph, and the predicate mentions no batching/schedule parameter.'}
