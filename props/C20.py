PROP = {'id': 'C20',
 'level': 'other',
 'functions': ['Result.is_successful',
               'Result.is_failed',
               'Result.is_canceled',
               'JobSubmitter._build_results',
               'ResourceMonitorAggregator.update_resource_stats',
               'JobRunner._aggregate_events_v'],
 'native': ['JobRunner._aggregate_events_v', 'ResourceMonitorAggregator.update_resource_stats', 'ResourceMonitorAggregator.finalize', 'ResourceMonitorAggregator.finalize/process', 'EventsSummary._consolidate_events'],
 'lemmas': ['lemma_c20_running_stats', 'lemma_fold_schemas'],
 'records': ['Result', 'ResourceMonitorAggregator', 'JobSubmitter', 'JobRunner'],
 'min_obligations': 150,
 'assumptions': ['floats are reals (rounding of sum and of sum/count ignored)',
                 'samples are non-negative and below sys.maxsize; the monitor reports a stable set of cells (assumed contract of _get_stats)',
                 'result rows are well-formed (status finished, or canceled with a non-zero code): established by the three row producers'],
 'not_decided': ['JobRunner._aggregate_events: proved - every line the node log had is kept in place, each existing job log is removed only after the copy loop, '
                 'logs of other jobs untouched; the clause "each job log occurs as one contiguous block" is forall-exists-forall and undecided by z3/cvc5, so the '
                 'exact content (old log + job logs in configuration order) is BOUNDED only (real files, 0-5 jobs); file semantics T-fs assumed (open modes, line iteration, write, remove)',
                 'ResourceMonitorAggregator.finalize (mean = sum / count and report layout): not under contract (heterogeneous nested dicts, pop, json) - '
                 'BOUNDED only: the written report is compared with the true max / min / mean of 1-7 generated samples per cell; the per-process '
                 'branch of update_resource_stats and of finalize: not under contract, BOUNDED only (1-3 processes each sampled in a random subset of 1-6 rounds: '
                 'samples, max, min and mean over the process\'s own samples)',
                 'ResultsSummary.show_results tallies (same classifier calls, PrettyTable output): not under contract',
                 'parquet encoding of resource-stat events; clock skew between nodes',
                 'event consolidation (EventsSummary._consolidate_events / _save_events_summary, StructuredLogEvent round trip): json / pandas / defaultdict, '
                 'outside the verified subset - BOUNDED only: generated multisets of events over 1-5 per-process files, each event exactly once with all '
                 'fields, ordered by time within its name, idempotent'],
 'explanation': 'Per call update_resource_stats moves every reported cell to max(old,v) / min(old,v) / old+v and changes nothing else (nested-dict frame); '
                'lemma L-C20 lifts this by induction to the true max/min/sum of all samples. _build_results counts each result in exactly one class and each '
                "tally equals the number of results of that class. JobRunner._aggregate_events (node folds the per-job event logs into its own log): "
                "every line the node log already had is kept in place (a truncating open fails the loop-entry invariant), a job log is removed only after "
                "its copy loop, logs of other jobs are untouched. The level is 'other' because the first half of the property (events lossless, ordered, "
                'idempotent) is decided by bounded checking only; statistics (running max/min/sum, lemma over all sample sequences) and tallies (each result '
                'in exactly one class) are proved.'}
