"""Native harness: ResourceMonitorAggregator statistics with a scripted sampler (C20)."""
import sys
import types

import jade.resource_monitor as RM
from jade.models.submitter_params import ResourceMonitorStats

from .nspec import check_call


def mk(case):
    seq = [dict((rt, dict(d)) for rt, d in s.items()) for s in case["samples"]]
    state = {"i": 0}

    def fake_get_stats(self):
        k = state["i"]
        state["i"] += 1
        src = seq[min(k, len(seq) - 1)] if k > 0 else seq[0]
        return {rt: dict(d) for rt, d in src.items()}
    agg = RM.ResourceMonitorAggregator.__new__(RM.ResourceMonitorAggregator)
    orig = RM.ResourceMonitorAggregator._get_stats
    RM.ResourceMonitorAggregator._get_stats = fake_get_stats
    try:
        # __init__ samples once for the structure (index 0), then each update consumes one sample
        RM.ResourceMonitor.__init__ = lambda self, name: setattr(self, "_name", name) or None
        RM.ResourceMonitorAggregator.__init__(agg, "b", ResourceMonitorStats(cpu=True, memory=True, process=False))
    finally:
        pass
    return agg, orig, state


def run_stats(S, case):
    agg, orig, state = mk(case)
    try:
        out = {"pre_ok": True, "ok": True, "failed": []}
        n = len(case["samples"]) - 1
        for k in range(n):
            r = check_call(S, "ResourceMonitorAggregator.update_resource_stats", RM.ResourceMonitorAggregator.update_resource_stats, [agg])
            if not r.get("pre_ok", True):
                return {"pre_ok": True, "ok": False, "failed": ["harness violates the precondition: " + str(r.get("failed_pre"))]}
            if not r["ok"]:
                r["failed"] = [f"update {k}: " + x for x in r["failed"]]
                return r
            out = r
        # property-level check: true min / max / mean of the samples
        for rt in case["samples"][0]:
            for sn in case["samples"][0][rt]:
                vals = [s[rt][sn] for s in case["samples"][1:]]
                if not vals:
                    continue
                got = (agg._summaries["maximum"][rt][sn], agg._summaries["minimum"][rt][sn], agg._summaries["sum"][rt][sn])
                want = (max(vals), min(vals), sum(vals))
                if got[0] != want[0] or got[1] != want[1] or abs(got[2] - want[2]) > 1e-9:
                    out["ok"] = False
                    out["failed"].append(f"cell {rt}.{sn}: (max,min,sum)={got}, true {want} for samples {vals}")
        return out
    finally:
        RM.ResourceMonitorAggregator._get_stats = orig


def cases_stats(tier, rng):
    shapes = [[1, 2, 3], [3, 2, 1], [2, 2, 2], [0, 0], [5], [0, 7, 0], [4, 1, 9, 1]]
    for sh in shapes:
        yield {"samples": [{"cpu": {"pct": 0.0}, "mem": {"used": 0.0, "free": 0.0}}] +
               [{"cpu": {"pct": float(v)}, "mem": {"used": float(v * 2), "free": float(10 - v)}} for v in sh]}
    for _ in range(40 if tier == "quick" else 400):
        n = rng.randint(1, 6)
        yield {"samples": [{"cpu": {"pct": 0.0}, "mem": {"used": 0.0}}] +
               [{"cpu": {"pct": float(rng.randint(0, 100))}, "mem": {"used": float(rng.randint(0, 10**6))}} for _ in range(n)]}


def run_finalize(S, case):
    """BOUNDED stand-in for ResourceMonitorAggregator.finalize (not under contract): the report written at the end of a batch carries,
    for every monitored cell, the true maximum, minimum and mean (= sum / number of samples) of the samples, and nothing is written
    when no sample was taken."""
    import json, os, tempfile, shutil
    cpu, mem = RM.CpuStatsViewer.metric(), RM.MemoryStatsViewer.metric()
    ren = {"cpu": cpu, "mem": mem}
    case = {"samples": [{ren[rt]: d for rt, d in s.items()} for s in case["samples"]]}
    agg, orig, state = mk(case)
    tmp = tempfile.mkdtemp(prefix="verif_stats_")
    os.makedirs(os.path.join(tmp, RM.STATS_DIR))          # part of the output-directory layout created at submission time
    out = {"pre_ok": True, "ok": True, "failed": []}
    try:
        n = len(case["samples"]) - 1
        for _ in range(n):
            agg.update_resource_stats()
        agg.finalize(tmp)
        path = os.path.join(tmp, RM.STATS_DIR, "b_resource_stats.json")
        if n == 0:
            if os.path.exists(path):
                out["ok"] = False
                out["failed"].append("a report was written although no sample was taken")
            return out
        if not os.path.exists(path):
            return {"pre_ok": True, "ok": False, "failed": [f"no report at {path} after {n} samples"]}
        rows = json.load(open(path))
        for rt in case["samples"][0]:
            ent = [r for r in rows if r.get("type") == rt]
            if len(ent) != 1:
                out["ok"] = False
                out["failed"].append(f"{len(ent)} report entries of type {rt}, expected exactly one")
                continue
            for sn in case["samples"][0][rt]:
                vals = [s[rt][sn] for s in case["samples"][1:]]
                want = {"maximum": max(vals), "minimum": min(vals), "average": sum(vals) / len(vals)}
                for k, w in want.items():
                    got = ent[0].get(k, {}).get(sn)
                    if got is None or abs(got - w) > 1e-9 * max(1.0, abs(w)):
                        out["ok"] = False
                        out["failed"].append(f"report cell {rt}.{sn}.{k} = {got}, true value {w} for samples {vals}")
        return out
    finally:
        RM.ResourceMonitorAggregator._get_stats = orig
        shutil.rmtree(tmp, ignore_errors=True)


def cases_finalize(tier, rng):
    yield {"samples": [{"cpu": {"pct": 0.0}, "mem": {"used": 0.0}}]}          # no sample: no report
    yield from cases_stats(tier, rng)


def run_finalize_proc(S, case):
    """BOUNDED: per-process statistics (resource_monitor_stats.process = true).  A process is sampled only in the rounds in which it is
    alive, so its mean is its own sum over its OWN number of samples; the report carries that count, and max / min / mean per cell."""
    import json, os, tempfile, shutil
    cpu = RM.CpuStatsViewer.metric()
    rounds = case["rounds"]                       # list of {process name: {stat: value}}
    st = {"i": 0}
    orig, orig_p = RM.ResourceMonitorAggregator._get_stats, RM.ResourceMonitorAggregator._get_process_stats
    RM.ResourceMonitorAggregator._get_stats = lambda self: {cpu: {"pct": 1.0}}

    def fake_proc(self, ids):
        k = st["i"]
        st["i"] += 1
        return {p: dict(d) for p, d in rounds[k].items()}
    RM.ResourceMonitorAggregator._get_process_stats = fake_proc
    tmp = tempfile.mkdtemp(prefix="verif_stats_")
    os.makedirs(os.path.join(tmp, RM.STATS_DIR))
    failed = []
    try:
        agg = RM.ResourceMonitorAggregator.__new__(RM.ResourceMonitorAggregator)
        RM.ResourceMonitor.__init__ = lambda self, name: setattr(self, "_name", name) or None
        RM.ResourceMonitorAggregator.__init__(agg, "b", ResourceMonitorStats(cpu=True, memory=False, disk=False, network=False, process=True))
        for _ in rounds:
            agg.update_resource_stats(ids={})
        agg.finalize(tmp)
        rows = json.load(open(os.path.join(tmp, RM.STATS_DIR, "b_resource_stats.json")))
        procs = sorted({p for r in rounds for p in r})
        for p in procs:
            ent = [r for r in rows if r.get("type") == RM.ProcessStatsViewer.metric() and r.get("name") == p]
            if len(ent) != 1:
                failed.append(f"{len(ent)} report entries for process {p}, expected exactly one")
                continue
            own = [r[p] for r in rounds if p in r]
            if ent[0].get("samples") != len(own):
                failed.append(f"process {p}: samples = {ent[0].get('samples')}, it was sampled {len(own)} times")
            for sn in own[0]:
                vals = [d[sn] for d in own]
                want = {"maximum": max(vals), "minimum": min(vals), "average": sum(vals) / len(vals)}
                for k, w in want.items():
                    got = ent[0].get(k, {}).get(sn)
                    if got is None or abs(got - w) > 1e-9 * max(1.0, abs(w)):
                        failed.append(f"process {p} cell {sn}.{k} = {got}, true value {w} for its samples {vals} ({len(rounds)} rounds in total)")
        return {"pre_ok": True, "ok": not failed, "failed": failed}
    finally:
        RM.ResourceMonitorAggregator._get_stats, RM.ResourceMonitorAggregator._get_process_stats = orig, orig_p
        shutil.rmtree(tmp, ignore_errors=True)


def cases_finalize_proc(tier, rng):
    for _ in range(40 if tier == "quick" else 400):
        n = rng.randint(1, 6)
        procs = ["p%d" % i for i in range(rng.randint(1, 3))]
        rounds = [{p: {"cpu_percent": float(rng.randint(0, 100)), "rss": float(rng.randint(1, 10**6))} for p in procs if rng.random() < 0.6} for _ in range(n)]
        if not any(rounds):
            rounds[0] = {procs[0]: {"cpu_percent": 5.0, "rss": 7.0}}
        yield {"rounds": rounds}


HARNESSES = {"ResourceMonitorAggregator.update_resource_stats": (cases_stats, run_stats),
             "ResourceMonitorAggregator.finalize": (cases_finalize, run_finalize),
             "ResourceMonitorAggregator.finalize/process": (cases_finalize_proc, run_finalize_proc)}
