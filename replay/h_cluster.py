"""Native harnesses: Cluster operations on a real Cluster in a temporary directory."""
import os
import random
import shutil
import tempfile

from jade.jobs.cluster import Cluster, ConfigVersionMismatch, JobStatusVersionMismatch
from jade.models import JobState, SubmitterParams, HpcConfig
from jade.models.hpc import SlurmConfig
from jade.enums import Status, JobCompletionStatus
from jade.hpc.common import HpcJobStatus, HpcType
from jade.extensions.generic_command import GenericCommandConfiguration, GenericCommandParameters

from .nspec import check_call

GLOBALS = {"JobState": JobState, "Status": Status, "JobCompletionStatus": JobCompletionStatus, "HpcJobStatus": HpcJobStatus, "HpcType": HpcType}
NS, S_, D = JobState.NOT_SUBMITTED, JobState.SUBMITTED, JobState.DONE


def make_cluster(rng, n):
    ns = [chr(97 + i) for i in range(n)]
    cfg = GenericCommandConfiguration()
    for x in ns:
        prev = [y for y in ns if y < x]
        cfg.add_job(GenericCommandParameters(command="true", name=x, blocked_by=set(rng.sample(prev, rng.randint(0, min(2, len(prev))))),
                                             cancel_on_blocking_job_failure=rng.random() < 0.4))
    cfg.assign_default_submission_group(SubmitterParams(hpc_config=HpcConfig(hpc_type="slurm", hpc=SlurmConfig(account="x"))))
    d = tempfile.mkdtemp(prefix="verif-cl-")
    c = Cluster.create(d, cfg)
    return d, c


def gen_round(rng, c):
    jobs = list(c.iter_jobs())
    comp = {j.name for j in jobs if j.state == S_ and rng.random() < 0.5}
    for j in jobs:
        if j.state == NS:
            j.blocked_by.difference_update(comp)
    canc = [j for j in jobs if j.state == NS and j.blocked_by and rng.random() < 0.3]
    for j in canc:
        j.state = D
        j.blocked_by.clear()
    comp |= {j.name for j in canc}
    for j in jobs:
        if j.state == NS:
            j.blocked_by.difference_update(comp)
    sub = [j for j in jobs if j.state == NS and not j.blocked_by and rng.random() < 0.6]
    blk = [j for j in jobs if j.state == NS and j.blocked_by and rng.random() < 0.7]
    if rng.random() < 0.3:
        # pass copies instead of the stored objects (as tests/unit/test_cluster.py does)
        sub = [j.copy(deep=True) for j in sub]
        blk = [j.copy(deep=True) for j in blk]
    ids = [str(100 + i) for i in range(rng.randint(0, 3))]
    return sub, blk, canc, comp, ids


def run_update_job_status(S, case):
    rng = random.Random(case["seed"])
    d, c = make_cluster(rng, case["n"])
    try:
        out = {"pre_ok": True, "ok": True, "failed": []}
        for rnd in range(case["rounds"]):
            sub, blk, canc, comp, ids = gen_round(rng, c)
            r = check_call(S, "Cluster._update_job_status", Cluster._update_job_status, [c, sub, blk, canc, comp, ids, rnd + 2], globals_=GLOBALS)
            if not r.get("pre_ok", True):
                return {"pre_ok": True, "ok": False, "failed": ["harness built a state violating the precondition: " + str(r.get("failed_pre"))]}
            if not r["ok"]:
                r["failed"] = [f"round {rnd}: " + x for x in r["failed"]]
                return r
            out = r
        return out
    finally:
        shutil.rmtree(d, ignore_errors=True)


def cases_update_job_status(tier, rng):
    for i in range(60 if tier == "quick" else 600):
        yield {"seed": rng.randint(0, 10**9), "n": rng.randint(1, 6), "rounds": rng.randint(1, 5)}


def run_stale(S, case):
    """C10: a handle loaded before another handle changed the state cannot write."""
    rng = random.Random(case["seed"])
    d, c = make_cluster(rng, case["n"])
    try:
        c.demote_from_submitter()
        stale, _ = Cluster.deserialize(d, deserialize_jobs=True)
        fresh, promoted = Cluster.deserialize(d, try_promote_to_submitter=True, deserialize_jobs=True)
        assert promoted
        if case["op"] == "update":
            sub, blk, canc, comp, ids = gen_round(rng, fresh)
            fresh.update_job_status(sub, blk, canc, comp, ids, 2)
        fresh.demote_from_submitter()
        before = {f: open(os.path.join(d, f)).read() for f in sorted(os.listdir(d)) if os.path.isfile(os.path.join(d, f)) and not f.endswith(".lock")}
        r = {"pre_ok": True, "ok": True, "failed": []}
        try:
            if case["stale_op"] == "promote":
                ok = stale._promote_to_submitter()
                r["ok"] = False
                r["failed"].append(f"stale handle promoted itself (returned {ok}) without a version-mismatch error")
            elif case["stale_op"] == "mark_complete":
                stale._mark_complete()
                r["ok"] = False
                r["failed"].append("stale handle wrote is_complete")
            else:
                if case["op"] != "update":
                    return r        # the job status did not change: this handle is not stale on it
                stale._serialize_jobs("stale")
                r["ok"] = False
                r["failed"].append("stale handle wrote job status")
        except (ConfigVersionMismatch, JobStatusVersionMismatch):
            pass
        after = {f: open(os.path.join(d, f)).read() for f in sorted(os.listdir(d)) if os.path.isfile(os.path.join(d, f)) and not f.endswith(".lock")}
        if r["ok"] and before != after:
            r["ok"] = False
            r["failed"].append("files on disk changed although the write was rejected: " + ",".join(k for k in before if before[k] != after.get(k)))
        return r
    finally:
        shutil.rmtree(d, ignore_errors=True)


def cases_stale(tier, rng):
    for op in ("update", "none"):
        for stale_op in ("promote", "mark_complete", "serialize_jobs"):
            for i in range(3 if tier == "quick" else 20):
                yield {"seed": rng.randint(0, 10**9), "n": rng.randint(1, 4), "op": op, "stale_op": stale_op}


HARNESSES = {
    "Cluster._update_job_status": (cases_update_job_status, run_update_job_status),
    "Cluster._serialize": (cases_stale, run_stale),
}
