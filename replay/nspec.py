"""Native (run-time) evaluation of the SAME contract clauses the prover uses, over the real
objects of /repo.  Runs under /venv/bin/python with PYTHONPATH=/repo.  Used for replay of
counterexamples, for the bounded small-scope fallback and for the contract-truth check.
"""
import ast
import copy
import datetime
import enum
import os
import sys
import types

HERE = os.path.dirname(os.path.abspath(__file__))
ROOT = os.path.dirname(HERE)


class _FakeZ3(types.ModuleType):
    """pyvc.spec / pyvc.ty call z3 at import time only to declare sorts; the native side never
    builds terms, so any attribute is a do-nothing callable."""

    class _Any:
        def __call__(self, *a, **k):
            return _FakeZ3._Any()

        def __getattr__(self, n):
            return _FakeZ3._Any()

        def __iter__(self):
            return iter(())

    def __getattr__(self, n):
        return _FakeZ3._Any()


def load_contracts():
    if "z3" not in sys.modules:
        try:
            import z3  # noqa: F401
        except ImportError:
            sys.modules["z3"] = _FakeZ3("z3")
    if ROOT not in sys.path:
        sys.path.insert(0, ROOT)
    import importlib
    from pyvc import spec as S
    cdir = os.path.join(ROOT, "contracts")
    import contracts as _c
    names = [f[:-3] for f in sorted(os.listdir(cdir)) if f.endswith(".py") and not f.startswith("_")]
    for name in [n for n in _c.ORDER if n in names] + [n for n in names if n not in _c.ORDER]:
        importlib.import_module("contracts." + name)
    return S


class SpecRuntimeError(Exception):
    pass


class SkipClause(Exception):
    """The clause speaks about ghost state / uninterpreted views that do not exist at run time."""


# adapters: how a modelled field is read from the real object when the real attribute has
# another representation (timedelta -> int seconds) or is a ghost view.
def _seconds(x):
    if isinstance(x, datetime.timedelta):
        return int(x.total_seconds())
    return x


GHOST_FIELDS = {
    ("SubmitterParams", "wall_time_s"): lambda p: int(p.get_wall_time().total_seconds()),
    ("GenericCommandParameters", "blocked_by"): lambda j: j.get_blocking_jobs(),
    # ghost list view of a configuration's jobs (insertion order of JobContainerByName._jobs)
    ("GenericCommandConfiguration", "g_joblist"): lambda c: list(c.iter_jobs()),
    ("JobConfiguration", "g_joblist"): lambda c: list(c.iter_jobs()),
}


ATOMIC = (str, int, float, bool, type(None), enum.Enum, type, types.ModuleType, types.FunctionType, types.BuiltinFunctionType,
          types.MethodType, bytes, datetime.timedelta, datetime.datetime)


def snap_copy(o, memo, depth=0):
    """Structure-preserving deep copy that shares what cannot (or need not) be copied."""
    if isinstance(o, ATOMIC):
        return o
    if id(o) in memo:
        return memo[id(o)]
    if depth > 60:
        return o
    if isinstance(o, list):
        c = []
        memo[id(o)] = c
        c.extend(snap_copy(x, memo, depth + 1) for x in o)
        return c
    if isinstance(o, tuple):
        c = tuple(snap_copy(x, memo, depth + 1) for x in o)
        if hasattr(o, "_fields"):
            try:
                c = type(o)(*c)
            except Exception:
                pass
        memo[id(o)] = c
        return c
    if isinstance(o, (set, frozenset)):
        c = type(o)(snap_copy(x, memo, depth + 1) for x in o)
        memo[id(o)] = c
        return c
    if isinstance(o, dict):
        try:
            c = type(o)() if type(o) in (dict,) else copy.copy(o)
            if type(o) not in (dict,):
                c.clear()
        except Exception:
            c = {}
        memo[id(o)] = c
        for k, v in o.items():
            c[snap_copy(k, memo, depth + 1)] = snap_copy(v, memo, depth + 1)
        return c
    d = getattr(o, "__dict__", None)
    mod = type(o).__module__ or ""
    if not isinstance(d, dict) or not (mod.startswith("jade") or mod.startswith("replay") or mod == "__main__" or mod.startswith("types")):
        return o       # library / OS objects (file handles, loggers, locks, registries ...) are shared
    try:
        c = copy.copy(o)
    except Exception:
        return o
    memo[id(o)] = c
    try:
        nd = {k: snap_copy(v, memo, depth + 1) for k, v in d.items()}
        object.__setattr__(c, "__dict__", nd)
    except Exception:
        pass
    return c


class Snapshot:
    """Deep copy of the reachable pre-state with an identity map (copy <-> original), so that
    `old(x.f)` reads old field values while `a == old(b)` on objects compares identities."""

    def __init__(self, roots):
        self.memo = {}
        self.copy = snap_copy(roots, self.memo)
        self.orig_of = {}
        for oid, c in list(self.memo.items()):
            if c is not None and not isinstance(c, ATOMIC):
                self.orig_of[id(c)] = oid
        self.by_id = {}

    def register_originals(self, objs):
        for o in objs:
            self.by_id[id(o)] = o


def reachable(roots, limit=20000):
    seen, out, todo = set(), [], list(roots)
    while todo and len(out) < limit:
        o = todo.pop()
        if id(o) in seen or isinstance(o, (str, int, float, bool, type(None), enum.Enum, type, types.ModuleType, types.FunctionType)):
            continue
        seen.add(id(o))
        out.append(o)
        if isinstance(o, dict):
            todo.extend(o.keys())
            todo.extend(o.values())
        elif isinstance(o, (list, tuple, set, frozenset)):
            todo.extend(o)
        else:
            d = getattr(o, "__dict__", None)
            if isinstance(d, dict):
                todo.extend(d.values())
    return out


class NEval:
    def __init__(self, S, contract, env, old_env=None, snapshot=None, globals_=None):
        self.S = S
        self.c = contract
        self.env = dict(env)
        self.old_env = old_env if old_env is not None else self.env
        self.snap = snapshot
        self.globals = globals_ or {}
        self.in_old = False

    # identity-aware equality -------------------------------------------------------------
    def canon(self, x):
        if self.snap is not None and id(x) in self.snap.orig_of:
            return self.snap.orig_of[id(x)]
        return id(x)

    def eq(self, a, b):
        a, b = _seconds(a), _seconds(b)
        if isinstance(a, enum.Enum) and isinstance(b, str):
            return a.value == b
        if isinstance(b, enum.Enum) and isinstance(a, str):
            return b.value == a
        prim = (str, int, float, bool, type(None), enum.Enum)
        if isinstance(a, prim) or isinstance(b, prim):
            return a == b
        if isinstance(a, (list, tuple)) and isinstance(b, (list, tuple)):
            return len(a) == len(b) and all(self.eq(x, y) for x, y in zip(a, b))
        if isinstance(a, (set, frozenset)) and isinstance(b, (set, frozenset)):
            return a == b
        if isinstance(a, dict) and isinstance(b, dict):
            return a.keys() == b.keys() and all(self.eq(a[k], b[k]) for k in a)
        if isinstance(a, (set, frozenset, dict, list, tuple)) or isinstance(b, (set, frozenset, dict, list, tuple)):
            if not a and not b:
                return True
            return False
        return self.canon(a) == self.canon(b)

    # ----------------------------------------------------------------------------------------
    def clause(self, text):
        return bool(self.ev(self.S.parse_clause(text)))

    def ev(self, node):
        m = getattr(self, "ev_" + type(node).__name__, None)
        if m is None:
            raise SpecRuntimeError(f"unsupported spec syntax {type(node).__name__}")
        return m(node)

    def ev_Constant(self, node):
        return node.value

    def to_old(self, x):
        """Inside old(): an object bound in the current state denotes its pre-state snapshot."""
        if self.in_old and self.snap is not None and not isinstance(x, ATOMIC) and id(x) in self.snap.memo:
            return self.snap.memo[id(x)]
        return x

    def ev_Name(self, node):
        n = node.id
        env = self.old_env if self.in_old else self.env
        if n in self.env and n not in self.old_env:
            return self.to_old(self.env[n])
        if n in env:
            return self.to_old(env[n])
        if n in self.env:
            return self.to_old(self.env[n])
        if n in self.globals:
            return self.globals[n]
        raise SpecRuntimeError(f"unknown name {n}")

    def getattr_(self, base, attr):
        if base is None:
            raise SpecRuntimeError(f"attribute {attr} of None")
        if not self.in_old and self.snap is not None and id(base) in self.snap.orig_of:
            # a reference obtained from the old state, read in the current state: same object, current fields
            base = self.snap.by_id.get(self.snap.orig_of[id(base)], base)
        elif self.in_old:
            base = self.to_old(base)
        key = (type(base).__name__, attr)
        if key in GHOST_FIELDS:
            return GHOST_FIELDS[key](base)
        return _seconds(getattr(base, attr))

    def ev_Attribute(self, node):
        if isinstance(node.value, ast.Name) and node.value.id == "ghost":
            env = self.old_env if self.in_old else self.env
            if node.attr not in env.get("__ghost__", {}):
                raise SkipClause(f"ghost.{node.attr}")
            return env["__ghost__"][node.attr]
        if node.attr.startswith("g_") or node.attr == "blocking":
            base_ = self.ev(node.value)
            if base_ is not None and not hasattr(base_, node.attr) and (type(base_).__name__, node.attr) not in GHOST_FIELDS:
                raise SkipClause(node.attr)      # a ghost field the real class does not carry
            if base_ is None:
                return None
        base = self.ev(node.value)
        if isinstance(base, type) and issubclass(base, enum.Enum):
            return base[node.attr]
        return self.getattr_(base, node.attr)

    def ev_Subscript(self, node):
        base = self.ev(node.value)
        if isinstance(node.slice, ast.Slice):
            lo = self.ev(node.slice.lower) if node.slice.lower is not None else 0
            return list(base)[lo:]
        idx = self.ev(node.slice)
        if base is None:
            return None         # specs are total: reading through an absent entry is unspecified
        if isinstance(base, dict):
            return _seconds(base[idx]) if idx in base else None
        if isinstance(base, (list, tuple)):
            if not (0 <= idx < len(base)):
                return None     # specs are total: an out-of-range read is unspecified
            return base[idx]
        return base[idx]

    def ev_UnaryOp(self, node):
        v = self.ev(node.operand)
        if isinstance(node.op, ast.Not):
            return not self.truth(v)
        if isinstance(node.op, ast.USub):
            return -v
        raise SpecRuntimeError("unary")

    def truth(self, v):
        return bool(v)

    def ev_BoolOp(self, node):
        if isinstance(node.op, ast.And):
            return all(self.truth(self.ev(v)) for v in node.values)
        return any(self.truth(self.ev(v)) for v in node.values)

    def ev_BinOp(self, node):
        a, b = self.ev(node.left), self.ev(node.right)
        op = node.op
        if isinstance(op, ast.Add):
            if isinstance(a, (list, tuple)) or isinstance(b, (list, tuple)):
                return list(a) + list(b)
            return a + b
        if isinstance(op, ast.Sub):
            return a - b
        if isinstance(op, ast.Mult):
            return a * b
        if isinstance(op, ast.FloorDiv):
            return a // b
        if isinstance(op, ast.Mod):
            return a % b
        if isinstance(op, ast.Div):
            return a / b
        if isinstance(op, ast.BitAnd):
            return a & b
        if isinstance(op, ast.BitOr):
            return a | b
        raise SpecRuntimeError("binop")

    def ev_Compare(self, node):
        left = self.ev(node.left)
        for op, rn in zip(node.ops, node.comparators):
            right = self.ev(rn)
            if isinstance(op, ast.Eq):
                r = self.eq(left, right)
            elif isinstance(op, ast.NotEq):
                r = not self.eq(left, right)
            elif isinstance(op, ast.In):
                r = self.contains(right, left)
            elif isinstance(op, ast.NotIn):
                r = not self.contains(right, left)
            elif isinstance(op, ast.Is):
                r = left is right
            elif isinstance(op, ast.IsNot):
                r = left is not right
            elif isinstance(op, ast.Lt):
                r = left < right
            elif isinstance(op, ast.LtE):
                r = left <= right
            elif isinstance(op, ast.Gt):
                r = left > right
            elif isinstance(op, ast.GtE):
                r = left >= right
            else:
                raise SpecRuntimeError("compare")
            if not r:
                return False
            left = right
        return True

    def contains(self, container, x):
        if container is None:
            return False
        if isinstance(container, (set, frozenset, dict, str)):
            try:
                return x in container
            except TypeError:
                return any(self.eq(x, y) for y in container)
        return any(self.eq(x, y) for y in container)

    def ev_IfExp(self, node):
        return self.ev(node.body) if self.truth(self.ev(node.test)) else self.ev(node.orelse)

    def ev_Tuple(self, node):
        return tuple(self.ev(e) for e in node.elts)

    def ev_List(self, node):
        return [self.ev(e) for e in node.elts]

    def ev_Set(self, node):
        return {self.ev(e) for e in node.elts}

    def ev_Call(self, node):
        f = node.func
        if isinstance(f, ast.Name):
            h = getattr(self, "fn_" + f.id, None)
            if h is not None:
                return h(node)
            defs = dict(self.S.DEFS)
            defs.update(self.c.defs)
            if f.id in defs:
                params, body = defs[f.id]
                saved = (self.env, self.old_env)
                add = {p: self.ev(a) for p, a in zip(params, node.args)}
                self.env = dict(self.env, **add)
                self.old_env = dict(self.old_env, **add)
                try:
                    return self.ev(self.S.parse_clause(body))
                finally:
                    self.env, self.old_env = saved
            raise SpecRuntimeError(f"unknown spec function {f.id}")
        if isinstance(f, ast.Attribute):
            recv = self.ev(f.value)
            args = [self.ev(a) for a in node.args]
            if f.attr in ("intersection", "difference", "union", "issubset", "isdisjoint", "get", "keys", "copy", "startswith", "endswith"):
                return getattr(recv, f.attr)(*args)
        raise SpecRuntimeError("unsupported call in spec")

    # ---- spec functions ------------------------------------------------------------------
    def fn_old(self, node):
        saved = self.in_old
        self.in_old = True
        try:
            return self.ev(node.args[0])
        finally:
            self.in_old = saved

    def fn_implies(self, node):
        return (not self.truth(self.ev(node.args[0]))) or self.truth(self.ev(node.args[1]))

    def fn_iff(self, node):
        return self.truth(self.ev(node.args[0])) == self.truth(self.ev(node.args[1]))

    def fn_ite(self, node):
        return self.ev(node.args[1]) if self.truth(self.ev(node.args[0])) else self.ev(node.args[2])

    def fn_len(self, node):
        v = self.ev(node.args[0])
        return len(v)

    fn_card = fn_len

    def fn_isnone(self, node):
        return self.ev(node.args[0]) is None

    def fn_truth(self, node):
        return self.truth(self.ev(node.args[0]))

    def fn_val(self, node):
        return self.ev(node.args[0])

    def fn_subset(self, node):
        a, b = self.ev(node.args[0]), self.ev(node.args[1])
        return set(a) <= set(b)

    def fn_disjoint(self, node):
        a, b = self.ev(node.args[0]), self.ev(node.args[1])
        return not (set(a) & set(b))

    def fn_empty(self, node):
        return not self.ev(node.args[0])

    def fn_keys(self, node):
        return set(self.ev(node.args[0]).keys())

    def fn_min(self, node):
        return min(self.ev(node.args[0]), self.ev(node.args[1]))

    def fn_max(self, node):
        return max(self.ev(node.args[0]), self.ev(node.args[1]))

    def fn_str(self, node):
        return str(self.ev(node.args[0]))

    def fn_int(self, node):
        return int(self.ev(node.args[0]))

    def fn_typed(self, node):
        return self.ev(node.args[0])

    def fn_sel(self, node):
        return self.contains(self.ev(node.args[0]), self.ev(node.args[1]))

    def fn_distinct(self, node):
        lst = list(self.ev(node.args[0]))
        if len(node.args) > 1:
            vals = [self.getattr_(x, node.args[1].id) for x in lst]
            return len(set(vals)) == len(vals)
        return len({self.canon(x) for x in lst}) == len(lst)

    def fn_fold(self, node):
        name = node.args[0].value
        lst = self.ev(node.args[1])
        elem, term, rty = self.S.FOLDS[name]
        tree = self.S.parse_clause(term)
        total = 0
        saved = (self.env, self.old_env)
        for x in lst:
            self.env = dict(saved[0], x=x)
            self.old_env = dict(saved[1], x=x)
            total += self.ev(tree)
        self.env, self.old_env = saved
        return total

    def universe(self, dom_name):
        objs = self.env.get("__universe__", [])
        if dom_name == "Name":
            names = set()
            for o in objs:
                if isinstance(o, (set, frozenset, list, tuple)):
                    names |= {x for x in o if isinstance(x, str)}
                elif isinstance(o, dict):
                    names |= {x for x in o.keys() if isinstance(x, str)}
                else:
                    for v in getattr(o, "__dict__", {}).values():
                        if isinstance(v, str):
                            names.add(v)
            names |= set(self.env.get("__names__", ()))
            return sorted(names) + ["\x00fresh-name"]
        if dom_name == "int":
            return list(range(-2, 12))
        rec = self.S.RECORDS.get(dom_name)
        cls = rec.cls if rec else dom_name
        return [o for o in objs if type(o).__name__ == cls]

    def _quant(self, node, universal):
        var = node.args[0].id
        dom = node.args[1]
        if isinstance(dom, ast.Name) and (dom.id in ("int", "Name", "Ref") or (dom.id in self.S.RECORDS and dom.id not in self.env)):
            values = self.universe(dom.id)
        elif isinstance(dom, ast.Call) and isinstance(dom.func, ast.Name) and dom.func.id == "range":
            args = [self.ev(a) for a in dom.args]
            values = range(*args)
        else:
            d = self.ev(dom)
            values = list(d.keys()) if isinstance(d, dict) else list(d)
        saved = (self.env, self.old_env)
        try:
            for v in values:
                self.env = dict(saved[0], **{var: v})
                self.old_env = dict(saved[1], **{var: v})
                r = self.truth(self.ev(node.args[2]))
                if universal and not r:
                    return False
                if not universal and r:
                    return True
            return universal
        finally:
            self.env, self.old_env = saved

    def fn_forall(self, node):
        return self._quant(node, True)

    def fn_exists(self, node):
        return self._quant(node, False)

    def fn_unchanged(self, node):
        target = node.args[0]
        recname, field = target.value.id, target.attr
        rec = self.S.RECORDS.get(recname)
        cls = rec.cls if rec else recname
        excepts = [self.ev(a) for a in node.args[1:]]
        ex_ids = set()
        for e in excepts:
            if isinstance(e, (list, set, tuple)):
                ex_ids |= {self.canon(x) for x in e}
            elif e is not None:
                ex_ids.add(self.canon(e))
        if self.snap is None:
            return True
        for oid, cp in self.snap.memo.items():
            if type(cp).__name__ != cls:
                continue
            orig = self.snap.by_id.get(oid)
            if orig is None or oid in ex_ids:
                continue
            try:
                a = self.getattr_(orig, field)
                b = self.getattr_(cp, field)
            except AttributeError:
                continue
            if not self.eq(a, b) and not (a == b):
                return False
        return True

    def fn_same(self, node):
        new = self.ev(node.args[0])
        saved = self.in_old
        self.in_old = True
        try:
            old = self.ev(node.args[0])
        finally:
            self.in_old = saved
        return self.eq(new, old)

    def fn_uf(self, node):
        raise SkipClause("uninterpreted function")

    def fn_nameset(self, node):
        return {self.getattr_(x, "name") for x in self.ev(node.args[0])}

    def fn_fold_hint(self, node):
        return True

    def fn_card_subset_hint(self, node):
        return True

    def fn_prefix(self, node):
        return list(self.ev(node.args[0]))[:self.ev(node.args[1])]

    def fn_fresh(self, node):
        raise SkipClause("fresh")

    def fn_is_exactly(self, node):
        return self.ev(node.args[0]) == self.ev(node.args[1])

    def fn_upd(self, node):
        d = dict(self.ev(node.args[0])); d[self.ev(node.args[1])] = self.ev(node.args[2]); return d

    def fn_rem(self, node):
        d = dict(self.ev(node.args[0])); d.pop(self.ev(node.args[1]), None); return d

    def fn_snoc(self, node):
        return list(self.ev(node.args[0])) + [self.ev(node.args[1])]

    def fn_nil(self, node):
        return []

    def fn_receiver(self, node):
        return self.ev(node.args[0]).__self__

    def fn_allocated(self, node):
        raise SkipClause("allocated")

    def fn_count_in(self, node):
        s_ = set(self.ev(node.args[1]))
        return sum(1 for x in self.ev(node.args[0]) if self.getattr_(x, "name") in s_)

    def fn_card_in(self, node):
        return len(set(self.ev(node.args[0])) & set(self.ev(node.args[1])))

    def fn_loop_old(self, node):
        raise SkipClause("loop_old")


def check_call(S, key, func, args, kwargs=None, ghost=None, globals_=None, extra_roots=(), skip_requires=False):
    """Run the real `func(*args, **kwargs)` under the contract `key`.
    -> dict(ok, pre_ok, failed_clauses, exception, result_repr)"""
    c = S.CONTRACTS[key]
    kwargs = kwargs or {}
    names = [p[0] for p in c.params]
    env = {}
    for n, a in zip(names, args):
        env[n] = a
    for k, v in kwargs.items():
        env[k] = v
    for (n, ty, default) in c.params:
        if n not in env and default is not None:
            env[n] = ast.literal_eval(default) if default not in ("None", "True", "False") else {"None": None, "True": True, "False": False}[default]
    roots = list(env.values()) + list(extra_roots)
    objs = reachable(roots)
    env["__universe__"] = objs
    env["__ghost__"] = ghost if ghost is not None else {}
    snap = Snapshot((env, ))
    snap.register_originals(objs)
    old_env = snap.copy[0]
    old_env["__universe__"] = reachable(list(old_env.values()))
    out = {"key": key, "pre_ok": True, "ok": True, "failed": [], "exception": None}
    pre = NEval(S, c, env, env, None, globals_)
    out["skipped"] = []
    if not skip_requires:
        for text in c.requires:
            try:
                if not pre.clause(text):
                    out["pre_ok"] = False
                    out["failed_pre"] = text
                    return out
            except SkipClause:
                continue
            except SpecRuntimeError as exc:
                out["pre_ok"] = False
                out["failed_pre"] = f"{text}: {exc}"
                return out
    try:
        result = func(*args, **kwargs)
        exc = None
    except BaseException as e:   # noqa: B902 - SystemExit is a modelled outcome
        result, exc = None, e
    env2 = dict(env)
    rv = result if not c.qualname.endswith("__init__") else env.get("self")
    env2["retval"] = rv
    if "result" not in names:
        env2["result"] = rv
    env2["__universe__"] = reachable(list(env2.values()) + list(extra_roots))
    post = NEval(S, c, env2, old_env, snap, globals_)
    if exc is None:
        clauses = list(c.ensures)      # exit_ensures speak about the callee's locals: not observable from outside
        for ename, spec in c.raises.items():
            if spec.get("iff") and spec.get("when"):
                # normal return => the raise condition was false (evaluated in the old state)
                oe = NEval(S, c, old_env, old_env, None, globals_)
                try:
                    if all(oe.clause(t) for t in spec["when"]):
                        out["ok"] = False
                        out["failed"].append(f"returned normally although `{' and '.join(spec['when'])}` (must raise {ename})")
                except SkipClause:
                    pass
                except SpecRuntimeError as e2:
                    out["failed"].append(f"spec error: {e2}")
    else:
        ename = type(exc).__name__
        spec = None
        for k, v in c.raises.items():
            if k == ename or any(b.__name__ == k for b in type(exc).__mro__):
                spec = v
                break
        out["exception"] = f"{ename}: {str(exc)[:200]}"
        if spec is None:
            out["ok"] = False
            out["failed"].append(f"undeclared exception {ename}: {str(exc)[:120]}")
            return out
        clauses = list(spec.get("ensures", []))
        oe = NEval(S, c, old_env, old_env, None, globals_)
        for t in spec.get("when", []):
            try:
                if not oe.clause(t):
                    out["ok"] = False
                    out["failed"].append(f"{ename} raised although not `{t}`")
            except SkipClause:
                pass
            except SpecRuntimeError as e2:
                out["failed"].append(f"spec error: {e2}")
    for text in clauses:
        try:
            if not post.clause(text):
                out["ok"] = False
                out["failed"].append(text)
        except SkipClause as sk:
            out["skipped"].append(text[:60])
        except SpecRuntimeError as e2:
            out["ok"] = False
            out["failed"].append(f"spec error in `{text[:60]}`: {e2}")
        except Exception as e3:    # an evaluation error means the post-state is malformed
            out["ok"] = False
            out["failed"].append(f"{type(e3).__name__} evaluating `{text[:80]}`: {e3}")
    out["result"] = repr(result)[:200]
    return out
