"""Native harnesses: _BatchJobs and HpcSubmitter._make_batch on real objects."""
import itertools
import random

from jade.hpc.hpc_submitter import HpcSubmitter, _BatchJobs
from jade.extensions.generic_command import GenericCommandConfiguration, GenericCommandParameters
from jade.models import Job, JobState, SubmitterParams, HpcConfig, SubmissionGroup
from jade.models.hpc import SlurmConfig

from .nspec import check_call


def mk_params(case):
    hpc = HpcConfig(hpc_type="slurm", hpc=SlurmConfig(account="a", walltime=case.get("walltime", "0:10:00")))
    kw = dict(time_based_batching=case["time_based"], try_add_blocked_jobs=case["try_add"],
              per_node_batch_size=case["size"], num_processes=case.get("procs", 1))
    return SubmitterParams(hpc_config=hpc, **kw)


def mk_make_batch(case):
    """case: jobs=[(name, [blockers], est)], time_based, try_add, size, procs"""
    cfg = GenericCommandConfiguration()
    for name, blk, est in case["jobs"]:
        cfg.add_job(GenericCommandParameters(command="true", name=name, blocked_by=set(blk), estimated_run_minutes=est))
    grp = SubmissionGroup(name="default", submitter_params=mk_params(case))
    s = HpcSubmitter.__new__(HpcSubmitter)
    s._config = cfg
    avail = [Job(name=n, blocked_by=set(b), state=JobState.NOT_SUBMITTED) for n, b, e in case["jobs"]]
    sub = [Job(name="pre%d" % i, blocked_by=set(), state=JobState.NOT_SUBMITTED) for i in range(case.get("pre_sub", 0))]
    blk = [Job(name="preb%d" % i, blocked_by={"zz"}, state=JobState.NOT_SUBMITTED) for i in range(case.get("pre_blk", 0))]
    return s, avail, grp, sub, blk


def run_make_batch(S, case):
    s, avail, grp, sub, blk = mk_make_batch(case)
    return check_call(S, "HpcSubmitter._make_batch", HpcSubmitter._make_batch, [s, avail, grp, sub, blk])


def cases_make_batch(tier, rng):
    names = "abcd"
    maxn = 3 if tier == "quick" else 4
    for n in range(1, maxn + 1):
        ns_ = names[:n]
        blk_opts = [list(itertools.chain.from_iterable(itertools.combinations([x for x in ns_ if x != me], r) for r in range(0, 2))) for me in ns_]
        for blks in itertools.product(*blk_opts):
            for ests in itertools.product([3, 4, 6] if n < 4 else [3, 6], repeat=n):
                for time_based in (False, True):
                    for try_add in (False, True):
                        for size in ((1, 2) if not time_based else (500,)):
                            jobs = [(ns_[k], list(blks[k]), ests[k]) for k in range(n)]
                            if time_based:
                                order = sorted(range(n), key=lambda k: ests[k])
                                jobs = [jobs[k] for k in order]
                            yield {"jobs": jobs, "time_based": time_based, "try_add": try_add, "size": size, "procs": 1,
                                   "pre_sub": n % 2, "pre_blk": (n + 1) % 2}
    # random larger cases
    for _ in range(200 if tier == "quick" else 3000):
        n = rng.randint(3, 7)
        ns_ = [chr(97 + i) for i in range(n)]
        jobs = []
        for me in ns_:
            others = [x for x in ns_ if x != me]
            blk = rng.sample(others, rng.choice([0, 0, 1, 1, 2]))
            jobs.append((me, blk, rng.choice([1, 2, 3, 5, 8])))
        tb = rng.random() < 0.5
        if tb and rng.random() < 0.8:
            jobs.sort(key=lambda j: j[2])
        yield {"jobs": jobs, "time_based": tb, "try_add": rng.random() < 0.6, "size": rng.choice([1, 2, 3, 500]),
               "procs": rng.choice([1, 2]), "pre_sub": rng.randint(0, 2), "pre_blk": rng.randint(0, 1)}


def mk_batch(case):
    p = mk_params(case)
    b = _BatchJobs(p)
    for name, est in case["in_batch"]:
        ok = b.try_append(GenericCommandParameters(command="true", name=name, estimated_run_minutes=est, job_id=1))
        if not ok:
            return None
    return b


def run_try_append(S, case):
    b = mk_batch(case)
    if b is None:
        return {"pre_ok": False, "ok": True, "failed": []}
    job = GenericCommandParameters(command="true", name=case["job"][0], estimated_run_minutes=case["job"][1], job_id=2)
    return check_call(S, "_BatchJobs.try_append", _BatchJobs.try_append, [b, job])


def cases_try_append(tier, rng):
    for tb in (False, True):
        for size in (1, 2, 3):
            for k in range(0, 3):
                for est in (0, 1, 4, 5, 6, 10, 11):
                    for inest in (1, 3, 5):
                        yield {"time_based": tb, "try_add": True, "size": size, "procs": 1,
                               "in_batch": [("j%d" % i, inest) for i in range(k)], "job": ("new", est)}


def run_is_job_blocked(S, case):
    b = mk_batch(case)
    if b is None:
        return {"pre_ok": False, "ok": True, "failed": []}
    job = Job(name="q", blocked_by=set(case["blocked_by"]), state=JobState.NOT_SUBMITTED)
    return check_call(S, "_BatchJobs.is_job_blocked", _BatchJobs.is_job_blocked, [b, job])


def cases_is_job_blocked(tier, rng):
    for try_add in (False, True):
        for k in range(0, 3):
            inb = [("j%d" % i, 1) for i in range(k)]
            pool = ["j0", "j1", "x"]
            for r in range(0, 4):
                for blk in itertools.combinations(pool, r):
                    yield {"time_based": False, "try_add": try_add, "size": 5, "procs": 1, "in_batch": inb, "blocked_by": list(blk)}


def run_batch_init(S, case):
    p = mk_params(case)
    b = _BatchJobs.__new__(_BatchJobs)
    return check_call(S, "_BatchJobs.__init__", _BatchJobs.__init__, [b, p])


def cases_batch_init(tier, rng):
    for tb in (False, True):
        for size in (1, 2, 500):
            for procs in (1, 2, 36):
                for wt in ("0:10:00", "4:00:00", "1:02:03"):
                    yield {"time_based": tb, "try_add": True, "size": size, "procs": procs, "walltime": wt}


HARNESSES = {
    "HpcSubmitter._make_batch": (cases_make_batch, run_make_batch),
    "_BatchJobs.try_append": (cases_try_append, run_try_append),
    "_BatchJobs.is_job_blocked": (cases_is_job_blocked, run_is_job_blocked),
    "_BatchJobs.__init__": (cases_batch_init, run_batch_init),
}
