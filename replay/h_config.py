"""Native harness for C17: generated configurations over the public job / group models.
(a) JSON round trip: dump + create_config_from_file yields the same serialize();
(b) every single injected invalidity is rejected by JobSubmitter.create with InvalidConfiguration before anything else happens,
    every valid configuration is accepted;
(c) the validator contracts (contracts/config_checks.py) evaluated at run time on the real functions.
BOUNDED stand-in / replay, never counted as proved."""
import json
import os
import random
import shutil
import tempfile

from jade.common import CONFIG_FILE
from jade.exceptions import InvalidConfiguration
from jade.extensions.generic_command import GenericCommandConfiguration, GenericCommandParameters
from jade.jobs.job_configuration import JobConfiguration
from jade.jobs.job_configuration_factory import create_config_from_file
from jade.jobs.job_container_by_name import JobContainerByName
from jade.jobs.job_submitter import JobSubmitter
from jade.models import SubmitterParams, HpcConfig, SubmissionGroup
from jade.models.hpc import SlurmConfig

from .nspec import check_call

GLOBALS = {}
WALLTIMES = ["00:30:00", "01:00:00", "24:00:00", "1-00:00:00", "2-12:00:00"]      # HH:MM:SS and the SLURM form with days
WORDS = ["echo hi", "python run.py --x 1", "bash -c 'a b'", "true", "sleep 1; echo \"q\"", "cmd --opt=é"]


def make_params(rng, walltime="01:00:00", **over):
    kw = dict(hpc_config=HpcConfig(hpc_type="slurm", hpc=SlurmConfig(account="acct", walltime=walltime)),
              per_node_batch_size=rng.choice([0, 1, 4]), max_nodes=over.pop("max_nodes", 4), poll_interval=over.pop("poll_interval", 30))
    if rng.random() < 0.3:
        kw["num_parallel_processes_per_node"] = rng.randint(1, 8)
    if rng.random() < 0.3:
        kw["try_add_blocked_jobs"] = rng.random() < 0.5
    # every field of the public group model takes a non-default value now and then - including None where None is a documented setting
    if rng.random() < 0.4:
        kw["resource_monitor_interval"] = rng.choice([None, 1, 30])
    if rng.random() < 0.3:
        kw["resource_monitor_type"] = rng.choice(["aggregation", "periodic", "none"])
    if rng.random() < 0.3:
        kw["generate_reports"] = rng.random() < 0.5
    if rng.random() < 0.2:
        kw["dry_run"] = True
    if rng.random() < 0.2:
        kw["verbose"] = True
    if rng.random() < 0.2:
        kw["time_based_batching"] = True
        kw.setdefault("num_parallel_processes_per_node", 4)
    if rng.random() < 0.2:
        kw["distributed_submitter"] = rng.random() < 0.5
    if rng.random() < 0.2:
        kw["node_setup_script"] = "setup.sh"
    if rng.random() < 0.2:
        kw["node_shutdown_script"] = "shutdown.sh"
    kw.update(over)
    return SubmitterParams(**kw)


def make_valid(rng, n, ngroups):
    cfg = GenericCommandConfiguration()
    groups = [SubmissionGroup(name=f"g{i}", submitter_params=make_params(rng, walltime=rng.choice(WALLTIMES))) for i in range(ngroups)]
    names = []
    for i in range(n):
        name = rng.choice(["job", "j", "task_", "a.b-"]) + str(i)
        prev = list(names)
        blockers = set(rng.sample(prev, rng.randint(0, min(2, len(prev)))))
        kw = dict(command=rng.choice(WORDS), name=name, blocked_by=blockers, submission_group=rng.choice(groups).name)
        if rng.random() < 0.5:
            kw["cancel_on_blocking_job_failure"] = rng.random() < 0.5
        if rng.random() < 0.3:
            kw["append_job_name"] = True
        if rng.random() < 0.3:
            kw["append_output_dir"] = True
        kw["estimated_run_minutes"] = rng.randint(1, 25)        # needed whenever the job's group batches by time
        cfg.add_job(GenericCommandParameters(**kw))
        names.append(name)
    for g in groups:
        cfg.append_submission_group(g)
    if rng.random() < 0.4:
        cfg.setup_command = "echo setup"
    if rng.random() < 0.4:
        cfg.teardown_command = "echo teardown"
    if rng.random() < 0.2:
        cfg.node_setup_command = "echo node-setup"
    if rng.random() < 0.2:
        cfg.node_teardown_command = "echo node-teardown"
    return cfg


INVALIDITIES = ["none", "missing_blocker", "duplicate_name", "no_group", "unknown_group", "duplicate_group", "max_nodes_differ", "poll_interval_differ",
                "runtime_over_walltime", "missing_estimate"]


def inject(rng, cfg, kind):
    """-> (applied?, expected exception or None).  Mutates cfg through its public API."""
    jobs = list(cfg.iter_jobs())
    groups = cfg.submission_groups
    if kind == "none":
        return True, None
    if kind == "missing_blocker":
        rng.choice(jobs).set_blocking_jobs({"no-such-job"})
        return True, InvalidConfiguration
    if kind == "duplicate_name":
        try:
            cfg.add_job(GenericCommandParameters(command="true", name=jobs[0].name, submission_group=groups[0].name))
        except InvalidConfiguration:
            return True, "rejected-at-add"
        return True, InvalidConfiguration      # was stored twice?!
    if kind == "no_group":
        # the model's default group name is "default": a job that never got a group carries a name that is not defined
        cfg.add_job(GenericCommandParameters(command="true", name="no-group-job", estimated_run_minutes=1))
        return True, InvalidConfiguration
    if kind == "unknown_group":
        rng.choice(jobs).submission_group = "nope"
        return True, InvalidConfiguration
    if kind == "duplicate_group":
        cfg.append_submission_group(SubmissionGroup(name=groups[0].name, submitter_params=groups[0].submitter_params))
        return True, InvalidConfiguration
    if kind in ("max_nodes_differ", "poll_interval_differ"):
        if len(groups) < 2:
            return False, None
        if kind == "max_nodes_differ":
            groups[1].submitter_params.max_nodes = groups[0].submitter_params.max_nodes + 1
        else:
            groups[1].submitter_params.poll_interval = groups[0].submitter_params.poll_interval + 1
        return True, InvalidConfiguration
    if kind == "runtime_over_walltime":
        j = rng.choice(jobs)
        j.estimated_run_minutes = 60 * 24 * 3
        return True, InvalidConfiguration
    if kind == "missing_estimate":
        cand = [j for j in jobs if any(g.name == j.submission_group and g.submitter_params.per_node_batch_size == 0 for g in groups)]
        if not cand:
            return False, None
        rng.choice(cand).estimated_run_minutes = None
        return True, InvalidConfiguration
    raise AssertionError(kind)


def run_config(S, case):
    rng = random.Random(case["seed"])
    cfg = make_valid(rng, case["n"], case["ngroups"])
    d = tempfile.mkdtemp(prefix="verif-cfg-")
    failed = []
    try:
        # (a) round trip of the valid configuration
        path = os.path.join(d, "cfg.json")
        cfg.dump(path)
        back = create_config_from_file(path)
        a, b = cfg.serialize(), back.serialize()
        if a != b:
            diff = [k for k in a if a.get(k) != b.get(k)]
            failed.append(f"round trip changed the configuration in {diff}")
        if [j.name for j in cfg.iter_jobs()] != [j.name for j in back.iter_jobs()]:
            failed.append("round trip changed the order of the jobs")
        for j1, j2 in zip(cfg.iter_jobs(), back.iter_jobs()):
            if (j1.name, j1.command, set(j1.get_blocking_jobs()), j1.cancel_on_blocking_job_failure, j1.submission_group, j1.estimated_run_minutes,
                    j1.append_job_name, j1.append_output_dir) != \
               (j2.name, j2.command, set(j2.get_blocking_jobs()), j2.cancel_on_blocking_job_failure, j2.submission_group, j2.estimated_run_minutes,
                    j2.append_job_name, j2.append_output_dir):
                failed.append(f"round trip changed job {j1.name}")
        for g1, g2 in zip(cfg.submission_groups, back.submission_groups):
            if g1.name != g2.name or g1.submitter_params != g2.submitter_params:
                d1, d2 = g1.submitter_params.__dict__, g2.submitter_params.__dict__
                failed.append(f"round trip changed group {g1.name}: " + ", ".join(f"{k}: {d1[k]!r} -> {d2.get(k)!r}" for k in d1 if d1[k] != d2.get(k)))
        if len(cfg.submission_groups) != len(back.submission_groups):
            failed.append("round trip changed the number of submission groups")
        if (cfg.setup_command, cfg.teardown_command, cfg.node_setup_command, cfg.node_teardown_command) != \
                (back.setup_command, back.teardown_command, back.node_setup_command, back.node_teardown_command):
            failed.append("round trip changed a lifecycle command")
        # (a2) dump - edit through the public job API - dump again: the second file carries the edited configuration (a write must reflect
        # the object as it is NOW, whatever was serialized before)
        jobs = list(cfg.iter_jobs())
        names = [j.name for j in jobs]
        for j in jobs:
            r = rng.random()
            bl = sorted(j.get_blocking_jobs())
            earlier = names[:names.index(j.name)]
            if r < 0.25 and bl:
                j.remove_blocking_job(rng.choice(bl))
            elif r < 0.45 and earlier:
                j.get_blocking_jobs().add(rng.choice(earlier))             # in-place edit of the live set
            elif r < 0.6 and earlier:
                j.set_blocking_jobs(set(rng.sample(earlier, rng.randint(0, min(2, len(earlier))))))
            elif r < 0.7:
                j.cancel_on_blocking_job_failure = not j.cancel_on_blocking_job_failure
        path2 = os.path.join(d, "cfg2.json")
        cfg.dump(path2)
        back2 = create_config_from_file(path2)
        for j1, j2 in zip(cfg.iter_jobs(), back2.iter_jobs()):
            t1 = (j1.name, j1.command, set(j1.get_blocking_jobs()), j1.cancel_on_blocking_job_failure, j1.submission_group, j1.estimated_run_minutes)
            t2 = (j2.name, j2.command, set(j2.get_blocking_jobs()), j2.cancel_on_blocking_job_failure, j2.submission_group, j2.estimated_run_minutes)
            if t1 != t2:
                failed.append(f"dump after an edit wrote stale data for job {j1.name}: object {t1}, file {t2}")
        if len(list(back2.iter_jobs())) != len(jobs):
            failed.append("dump after an edit changed the number of jobs")
        # (b) injected invalidity on the reloaded configuration
        applied, expect = inject(rng, back, case["kind"])
        if not applied:
            return {"pre_ok": False}
        out = os.path.join(d, "out")
        if expect != "rejected-at-add":
            # (c) the validator contracts at run time, in the order run_checks uses (each on the state the previous ones accepted)
            try:
                back.check_submission_groups()
                groups_ok = True
            except InvalidConfiguration:
                groups_ok = False
            if groups_ok:
                for key, fn, args in [("JobConfiguration.check_job_dependencies", JobConfiguration.check_job_dependencies, [back]),
                                      ("JobConfiguration.check_job_runtimes", JobConfiguration.check_job_runtimes, [back])] + \
                                     [("JobConfiguration.check_job_estimated_run_minutes", JobConfiguration.check_job_estimated_run_minutes, [back, g.name])
                                      for g in back.submission_groups]:
                    r = check_call(S, key, fn, args, globals_=GLOBALS)
                    if r.get("pre_ok", True) and not r["ok"]:
                        failed += [f"{key}: {x}" for x in r["failed"]]
            try:
                JobSubmitter.create(back, output=out)
                raised = None
            except InvalidConfiguration as exc:
                raised = InvalidConfiguration
            except Exception as exc:  # noqa: BLE001
                raised = type(exc)
                failed.append(f"{case['kind']}: raised {type(exc).__name__} instead of InvalidConfiguration: {exc}")
            if expect is None and raised is not None:
                failed.append(f"a valid configuration was rejected with {raised.__name__}")
            if expect is InvalidConfiguration and raised is None:
                failed.append(f"{case['kind']}: the invalid configuration was accepted")
            if raised is not None and os.path.exists(os.path.join(out, CONFIG_FILE)):
                failed.append(f"{case['kind']}: rejected, yet config.json was written to the output directory")
        return {"pre_ok": True, "ok": not failed, "failed": failed}
    finally:
        shutil.rmtree(d, ignore_errors=True)


def cases_config(tier, rng):
    n = 12 if tier == "quick" else 150
    for i in range(n):
        for kind in INVALIDITIES:
            yield {"seed": rng.randint(0, 10**9), "n": rng.randint(1, 6), "ngroups": rng.randint(1, 3), "kind": kind}


def run_add_job(S, case):
    rng = random.Random(case["seed"])
    c = JobContainerByName()
    names = [rng.choice("abc") for _ in range(case["n"])]
    for nm in names:
        job = GenericCommandParameters(command="true", name=nm)
        r = check_call(S, "JobContainerByName.add_job", JobContainerByName.add_job, [c, job], globals_=GLOBALS)
        if not r["ok"]:
            return r
    return {"pre_ok": True, "ok": True, "failed": []}


def cases_add_job(tier, rng):
    for i in range(20 if tier == "quick" else 300):
        yield {"seed": rng.randint(0, 10**9), "n": rng.randint(1, 5)}



def run_walltime(S, case):
    """SubmitterParams.get_wall_time on SLURM walltime strings (HH:MM:SS and D-HH:MM:SS): the parsed duration is the duration written."""
    from jade.models.submitter_params import _to_timedelta
    d, h, m, sec = case["d"], case["h"], case["m"], case["s"]
    text = (f"{d}-" if case["with_days"] else "") + f"{h:02d}:{m:02d}:{sec:02d}"
    want = ((d if case["with_days"] else 0) * 24 + h) * 3600 + m * 60 + sec
    got = _to_timedelta(text).total_seconds()
    ok = got == want
    return {"pre_ok": True, "ok": ok, "failed": [] if ok else [f"walltime {text!r} parsed as {got} s, it is {want} s"]}


def cases_walltime(tier, rng):
    for i in range(60 if tier == "quick" else 600):
        yield {"d": rng.randint(0, 9), "h": rng.randint(0, 47), "m": rng.randint(0, 59), "s": rng.randint(0, 59), "with_days": bool(i & 1)}

HARNESSES = {
    "_to_timedelta": (cases_walltime, run_walltime),
    "JobSubmitter.run_checks": (cases_config, run_config),
    "JobContainerByName.add_job": (cases_add_job, run_add_job),
}
