"""Native harnesses for resubmission (C13, C09): the real `_update_with_blocking_jobs` on real config files and the real
`Cluster.prepare_for_resubmission` on a real Cluster in a temporary directory.  BOUNDED stand-in / replay, never counted as proved."""
import os
import random
import shutil
import tempfile

from jade.cli.resubmit_jobs import _update_with_blocking_jobs
from jade.common import CONFIG_FILE
from jade.jobs.cluster import Cluster
from jade.models import JobState, SubmitterParams, HpcConfig
from jade.models.hpc import SlurmConfig
from jade.enums import Status, JobCompletionStatus
from jade.hpc.common import HpcJobStatus, HpcType
from jade.extensions.generic_command import GenericCommandConfiguration, GenericCommandParameters

from .nspec import check_call

GLOBALS = {"JobState": JobState, "Status": Status, "JobCompletionStatus": JobCompletionStatus, "HpcJobStatus": HpcJobStatus, "HpcType": HpcType}
NS, S_, D = JobState.NOT_SUBMITTED, JobState.SUBMITTED, JobState.DONE


def make_config(rng, n, order):
    """n jobs; blockers chosen among alphabetically earlier names, but the jobs are *listed* in `order`
    (forward, reversed or shuffled) so that a dependent can precede its blocker in the file."""
    ns = [chr(97 + i) for i in range(n)]
    deps = {x: set(rng.sample([y for y in ns if y < x], rng.randint(0, min(3, sum(1 for y in ns if y < x))))) for x in ns}
    listing = list(ns)
    if order == "reversed":
        listing.reverse()
    elif order == "shuffled":
        rng.shuffle(listing)
    cfg = GenericCommandConfiguration()
    for x in listing:
        cfg.add_job(GenericCommandParameters(command="true", name=x, blocked_by=set(deps[x]), cancel_on_blocking_job_failure=rng.random() < 0.3))
    cfg.assign_default_submission_group(SubmitterParams(hpc_config=HpcConfig(hpc_type="slurm", hpc=SlurmConfig(account="x"))))
    return cfg, deps, listing


def closure(deps, selected):
    out = set(selected)
    changed = True
    while changed:
        changed = False
        for x, bs in deps.items():
            if x not in out and bs & out:
                out.add(x)
                changed = True
    return out


def run_closure(S, case):
    """ensures of _update_with_blocking_jobs, evaluated on the real function (the clauses mention the local `config`, so they are
    re-stated here over the file the function loads)."""
    rng = random.Random(case["seed"])
    cfg, deps, listing = make_config(rng, case["n"], case["order"])
    d = tempfile.mkdtemp(prefix="verif-rs-")
    try:
        cfg.dump(os.path.join(d, CONFIG_FILE))
        selected = {x for x in deps if rng.random() < case["p"]}
        j = set(selected)
        failed = []
        try:
            u = _update_with_blocking_jobs(j, d)
        except AssertionError as exc:
            return {"pre_ok": True, "ok": False, "failed": [f"in-code assertion failed: {exc}"], "exception": repr(exc)}
        if not selected <= j:
            failed.append("subset(old(jobs_to_resubmit), jobs_to_resubmit)")
        for x in deps:
            if deps[x] & j and x not in j:
                failed.append(f"closed: job {x} has blocker(s) {sorted(deps[x] & j)} in the set but is not in it")
        for x in j:
            if x not in selected and not (x in deps and deps[x] & j):
                failed.append(f"sound: {x} was added but none of its blockers is rerun")
        if j != closure(deps, selected):
            failed.append(f"set {sorted(j)} is not selected+transitive dependents {sorted(closure(deps, selected))}")
        for x in deps:
            if deps[x] & j and (x not in u or set(u[x]) != deps[x] & j):
                failed.append(f"map: entry of {x} is {sorted(u.get(x, []))}, expected its blockers restricted to rerun jobs {sorted(deps[x] & j)}")
        for x in u:
            if x not in j or set(u[x]) != deps[x] & j:
                failed.append(f"map: stale entry {x} -> {sorted(u[x])}")
        return {"pre_ok": True, "ok": not failed, "failed": failed}
    finally:
        shutil.rmtree(d, ignore_errors=True)


def cases_closure(tier, rng):
    for i in range(600 if tier == "quick" else 6000):
        yield {"seed": rng.randint(0, 10**9), "n": rng.randint(1, 7), "order": ("forward", "reversed", "shuffled", "reversed")[i % 4], "p": rng.choice([0.0, 0.15, 0.3, 0.5])}


def run_prepare(S, case):
    rng = random.Random(case["seed"])
    cfg, deps, listing = make_config(rng, case["n"], case["order"])
    d = tempfile.mkdtemp(prefix="verif-rs-")
    try:
        c = Cluster.create(d, cfg)
        jobs = list(c.iter_jobs())
        # a complete submission: every job done - except, for `lost`, jobs that never ran (forced completion after a lost batch)
        lost = set()
        for jb in jobs:
            if case["lost"] and rng.random() < 0.3:
                lost.add(jb.name)
                continue
            jb.state = D
            jb.blocked_by = set()
        c._config.submitted_jobs = sum(1 for jb in jobs if jb.state != NS)
        c._config.completed_jobs = sum(1 for jb in jobs if jb.state == D)
        c._config.is_complete = True
        c._do_action_under_lock(c._serialize, "harness")
        c._do_action_under_lock(c._serialize_jobs, "harness")
        selected = {x for x in deps if rng.random() < case["p"]}
        if case["lost"] == "selected":
            selected |= lost                    # --missing: the jobs that never ran are selected
        r = closure(deps, selected)
        u = {x: deps[x] & r for x in deps if deps[x] & r}
        res = check_call(S, "Cluster.prepare_for_resubmission", Cluster.prepare_for_resubmission, [c, set(r), u], globals_=GLOBALS)
        if not res.get("pre_ok", True):
            return {"pre_ok": False, "ok": True, "failed": [], "failed_pre": res.get("failed_pre")}
        if res["ok"]:
            # the files on disk agree with memory
            c2, _ = Cluster.deserialize(d, deserialize_jobs=True)
            for a, b in zip(c.iter_jobs(), c2.iter_jobs()):
                if (a.name, a.state, set(a.blocked_by)) != (b.name, b.state, set(b.blocked_by)):
                    res["ok"] = False
                    res["failed"].append(f"disk copy of job {a.name} differs from memory")
            if (c2._config.submitted_jobs, c2._config.completed_jobs, c2._config.is_complete) != (c._config.submitted_jobs, c._config.completed_jobs, False):
                res["ok"] = False
                res["failed"].append("disk copy of the counters / is_complete differs from memory")
        return res
    finally:
        shutil.rmtree(d, ignore_errors=True)


def cases_prepare(tier, rng):
    k = 0
    for i in range(60 if tier == "quick" else 900):
        for lost in (None, "selected", "unselected"):
            k += 1
            yield {"seed": rng.randint(0, 10**9), "n": rng.randint(1, 6), "order": ("forward", "reversed", "shuffled")[k % 3], "p": rng.choice([0.0, 0.3, 0.6]),
                   "lost": lost}


def run_select(S, case):
    """Post-condition of `_get_jobs_to_resubmit` (names selected by the flags), evaluated on the real function over a real Cluster
    and a real results.json: independent oracle straight from the rows written to the file."""
    import json
    from jade.cli.resubmit_jobs import _get_jobs_to_resubmit
    from jade.common import RESULTS_FILE
    from jade.result import Result, ResultsSummary, serialize_results
    rng = random.Random(case["seed"])
    cfg, deps, listing = make_config(rng, case["n"], case["order"])
    d = tempfile.mkdtemp(prefix="verif-rs-")
    try:
        c = Cluster.create(d, cfg)
        rows, kinds = [], {}
        fin, can = JobCompletionStatus.FINISHED.value, JobCompletionStatus.CANCELED.value
        for x in listing:
            k = rng.choice(["successful", "failed", "canceled", "missing", "failed-signal"])
            kinds[x] = k
            if k == "successful":
                rows.append(Result(x, 0, fin, 1.0, hpc_job_id=rng.choice([None, "7"])))
            elif k == "failed":
                rows.append(Result(x, rng.choice([1, 2, 127]), fin, 1.0))
            elif k == "failed-signal":
                rows.append(Result(x, -9, fin, 1.0))
            elif k == "canceled":
                rows.append(Result(x, 1, can, 0.0))
        rng.shuffle(rows)
        with open(os.path.join(d, RESULTS_FILE), "w") as f:
            json.dump({"jade_version": "x", "timestamp": "t", "base_directory": d, "results": serialize_results(rows),
                       "missing_jobs": [x for x in listing if kinds[x] == "missing"]}, f)
        failed_clauses = []
        n = 0
        for failed in (False, True):
            for missing in (False, True):
                for successful in (False, True):
                    got = _get_jobs_to_resubmit(c, d, failed, missing, successful)
                    want = {x for x in listing if (failed and kinds[x] in ("failed", "failed-signal", "canceled"))
                            or (successful and kinds[x] == "successful") or (missing and kinds[x] == "missing")}
                    n += 1
                    if got != want:
                        failed_clauses.append(f"flags failed={failed} missing={missing} successful={successful}: selected {sorted(got)}, "
                                              f"expected {sorted(want)} (rows: {kinds})")
        # building blocks: classification by type and missing jobs
        rs = ResultsSummary(d)
        by = rs.get_results_by_type()
        for key, ks in (("successful", ("successful",)), ("failed", ("failed", "failed-signal")), ("canceled", ("canceled",))):
            if sorted(r.name for r in by[key]) != sorted(x for x in listing if kinds[x] in ks):
                failed_clauses.append(f"get_results_by_type()[{key!r}] = {sorted(r.name for r in by[key])} (rows: {kinds})")
        if [j.name for j in rs.get_missing_jobs(c.iter_jobs())] != [j.name for j in c.iter_jobs() if kinds[j.name] == "missing"]:
            failed_clauses.append("get_missing_jobs: not the configured jobs without a row, in configuration order")
        return {"pre_ok": True, "ok": not failed_clauses, "failed": failed_clauses}
    finally:
        shutil.rmtree(d, ignore_errors=True)


def cases_select(tier, rng):
    for i in range(40 if tier == "quick" else 600):
        yield {"seed": rng.randint(0, 10**9), "n": rng.randint(1, 7), "order": ("forward", "reversed", "shuffled")[i % 3]}


HARNESSES = {
    "_get_jobs_to_resubmit": (cases_select, run_select),
    "_update_with_blocking_jobs": (cases_closure, run_closure),
    "Cluster.prepare_for_resubmission": (cases_prepare, run_prepare),
}
