"""Native harness for C08: the real ResultsAggregator on real files.
(a) sequential schedules: random sequences of Append(batch, row) / Collect over several batches - header re-creation after a collection
    deleted the node file, empty rounds, repeated rounds;
(b) real concurrency: appending threads (several batches, several rows each) racing with a collecting thread through the real SoftFileLock.
Oracle: the multiset of appended rows == the multiset in the consolidated file == the multiset returned by all rounds together; every
returned / listed row equals the appended one field by field; the consolidated file parses after every round.
BOUNDED stand-in / replay, never counted as proved."""
import collections
import random
import shutil
import tempfile
import threading
import time
from pathlib import Path

from jade.common import RESULTS_DIR
from jade.enums import JobCompletionStatus
from jade.jobs.results_aggregator import ResultsAggregator
from jade.result import Result

NAMES = ["job", "a.b", "x-1", "with space", "q,comma", 'dq"uote', "j_7"]


def key(r):
    return (r.name, r.return_code, r.status, str(r.hpc_job_id))


def mk(rng, i):
    return Result(f"{rng.choice(NAMES)}{i}", rng.choice([0, 0, 1, 2, 137]), rng.choice([JobCompletionStatus.FINISHED, JobCompletionStatus.CANCELED]),
                  round(rng.random() * 100, 3), hpc_job_id=str(rng.randint(1, 99999)))


def finish(out, appended, reported, failed):
    try:
        listed = ResultsAggregator.list_results(out)
    except Exception as exc:  # noqa: BLE001
        failed.append(f"the consolidated file does not parse: {type(exc).__name__}: {exc}")
        return
    a, r, l = (collections.Counter(key(x) for x in xs) for xs in (appended, reported, listed))
    if l != a:
        failed.append(f"consolidated rows != appended rows: missing {list((a - l).items())[:3]} extra {list((l - a).items())[:3]}")
    if r != a:
        failed.append(f"rows reported by the rounds != appended rows: missing {list((a - r).items())[:3]} extra {list((r - a).items())[:3]}")
    left = list((Path(out) / RESULTS_DIR).glob("results_batch_*.csv"))
    if left:
        failed.append(f"node files left after the final round: {[p.name for p in left]}")


def run_sequential(S, case):
    rng = random.Random(case["seed"])
    out = Path(tempfile.mkdtemp(prefix="verif-agg-"))
    failed = []
    try:
        (out / RESULTS_DIR).mkdir()
        agg = ResultsAggregator.create(out)
        appended, reported = [], []
        for i in range(case["steps"]):
            if rng.random() < case["p_collect"]:
                try:
                    reported += ResultsAggregator.load(out).process_results()
                    ResultsAggregator.list_results(out)
                except Exception as exc:  # noqa: BLE001
                    failed.append(f"round after step {i} raised {type(exc).__name__}: {exc}")
                    break
            else:
                r = mk(rng, i)
                ResultsAggregator.append(out, r, batch_id=rng.randint(0, case["batches"]))       # 0 is a batch id too (JobRunner's default)
                appended.append(r)
        if not failed:
            reported += ResultsAggregator.load(out).process_results()
            finish(out, appended, reported, failed)
        return {"pre_ok": True, "ok": not failed, "failed": failed}
    finally:
        shutil.rmtree(out, ignore_errors=True)


def run_interleaved(S, case):
    """Interleavings at lock-operation granularity, deterministically: whenever a locked action of the collecting round has released its lock, another
    process may append (the lock is free, so this is a legal schedule).  No threads: the appends are injected right after the lock release."""
    rng = random.Random(case["seed"])
    out = Path(tempfile.mkdtemp(prefix="verif-agg-"))
    failed = []
    orig = ResultsAggregator._do_action_under_lock
    state = {"depth": 0, "collecting": False, "pending": [], "appended": [], "reported_early": [], "armed": False}

    def wrapper(self, func, *args, **kwargs):
        # symmetric case: a runner is about to take its file's lock - the collecting round on another node may get there first
        if (not state["collecting"] and not state.get("injecting") and getattr(func, "__name__", "") == "_append_result"
                and state.get("armed") and rng.random() < case["p_inject"]):
            state["injecting"] = True
            try:
                state["reported_early"] += ResultsAggregator.load(out).process_results()
            finally:
                state["injecting"] = False
        state["depth"] += 1
        try:
            return orig(self, func, *args, **kwargs)
        finally:
            state["depth"] -= 1
            # the lock was just released: a runner on another node gets its turn
            if state["collecting"] and not state.get("injecting") and state["pending"] and rng.random() < case["p_inject"]:
                state["injecting"] = True
                try:
                    b, r = state["pending"].pop()
                    ResultsAggregator.append(out, r, batch_id=b)
                    state["appended"].append(r)
                finally:
                    state["injecting"] = False
    ResultsAggregator._do_action_under_lock = wrapper
    try:
        (out / RESULTS_DIR).mkdir()
        ResultsAggregator.create(out)
        reported = state["reported_early"]
        state["armed"] = True
        k = 0
        for rnd in range(case["rounds"]):
            for _ in range(rng.randint(0, 3)):           # rows written before the round starts
                r = mk(rng, k); k += 1
                ResultsAggregator.append(out, r, batch_id=rng.randint(1, case["batches"]))
                state["appended"].append(r)
            state["pending"] = [(rng.randint(1, case["batches"]), mk(rng, 1000 + 10 * rnd + i)) for i in range(rng.randint(0, 3))]
            state["collecting"] = True
            try:
                reported += ResultsAggregator.load(out).process_results()
            except Exception as exc:  # noqa: BLE001
                failed.append(f"round {rnd} raised {type(exc).__name__}: {exc}")
                break
            finally:
                state["collecting"] = False
            for b, r in state["pending"]:                # whatever did not get its turn during the round is written after it
                ResultsAggregator.append(out, r, batch_id=b)
                state["appended"].append(r)
            state["pending"] = []
        if not failed:
            try:
                reported += ResultsAggregator.load(out).process_results()
                finish(out, state["appended"], reported, failed)
            except Exception as exc:  # noqa: BLE001
                failed.append(f"final round raised {type(exc).__name__}: {exc}")
        return {"pre_ok": True, "ok": not failed, "failed": failed}
    finally:
        ResultsAggregator._do_action_under_lock = orig
        shutil.rmtree(out, ignore_errors=True)


def cases_interleaved(tier, rng):
    for i in range(150 if tier == "quick" else 3000):
        yield {"seed": rng.randint(0, 10**9), "rounds": rng.randint(1, 3), "batches": rng.randint(1, 2), "p_inject": rng.choice([0.3, 0.6, 1.0])}


def cases_sequential(tier, rng):
    for i in range(120 if tier == "quick" else 3000):
        yield {"seed": rng.randint(0, 10**9), "steps": rng.randint(1, 14), "batches": rng.randint(1, 3), "p_collect": rng.choice([0.1, 0.3, 0.5])}


def run_concurrent(S, case):
    rng = random.Random(case["seed"])
    out = Path(tempfile.mkdtemp(prefix="verif-agg-"))
    failed = []
    try:
        (out / RESULTS_DIR).mkdir()
        ResultsAggregator.create(out)
        rows = {b: [mk(rng, 100 * b + i) for i in range(case["rows"])] for b in range(1, case["batches"] + 1)}
        reported, errors = [], []
        done = threading.Event()

        def runner(b, part):
            try:
                for r in part:
                    ResultsAggregator.append(out, r, batch_id=b)
            except Exception as exc:  # noqa: BLE001
                errors.append(f"append raised {type(exc).__name__}: {exc}")

        def collector():
            try:
                while not done.is_set():
                    reported.extend(ResultsAggregator.load(out).process_results())
                    ResultsAggregator.list_results(out)
                    time.sleep(0.001)
            except Exception as exc:  # noqa: BLE001
                errors.append(f"collection raised {type(exc).__name__}: {exc}")

        threads = []
        for b, rs in rows.items():
            half = len(rs) // 2
            threads.append(threading.Thread(target=runner, args=(b, rs[:half])))      # two runners (nodes) per batch file
            threads.append(threading.Thread(target=runner, args=(b, rs[half:])))
        ct = threading.Thread(target=collector)
        ct.start()
        for t in threads:
            t.start()
        for t in threads:
            t.join()
        done.set()
        ct.join()
        failed += errors
        if not failed:
            reported.extend(ResultsAggregator.load(out).process_results())
            finish(out, [r for rs in rows.values() for r in rs], reported, failed)
        return {"pre_ok": True, "ok": not failed, "failed": failed}
    finally:
        shutil.rmtree(out, ignore_errors=True)


def cases_concurrent(tier, rng):
    for i in range(12 if tier == "quick" else 150):
        yield {"seed": rng.randint(0, 10**9), "batches": rng.randint(1, 3), "rows": rng.randint(2, 16)}


HARNESSES = {
    "RAgg._process_results": (cases_sequential, run_sequential),
    "RAgg._move_results": (cases_concurrent, run_concurrent),
    "RAgg.move_results": (cases_interleaved, run_interleaved),
}
