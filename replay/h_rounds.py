"""Boundary simulator: the real JobSubmitter / HpcSubmitter / Cluster / ResultsAggregator / CLI callbacks run unmodified;
only jade.hpc.slurm_manager.run_command is replaced by a scripted scheduler and a scripted node writes result rows through
the real ResultsAggregator.append.  History-level monitors check the properties the round contracts imply (C01, C03, C05, C06,
C09, C11, C12, C14).  BOUNDED: seeded random schedules and fault points; refutes with a real history, never proves.
"""
import contextlib
import io
import json
import os
import random
import re
import shutil
import tempfile

import jade.hpc.slurm_manager as SM
import jade.jobs.job_submitter as JS
from jade.cli.try_submit_jobs import try_submit_jobs
from jade.exceptions import ExecutionError
from jade.extensions.generic_command import GenericCommandConfiguration, GenericCommandParameters
from jade.jobs.cluster import Cluster
from jade.jobs.job_submitter import JobSubmitter
from jade.jobs.results_aggregator import ResultsAggregator
from jade.models import SubmitterParams, HpcConfig, JobState
from jade.models.hpc import SlurmConfig
from jade.result import Result
from jade.utils.utils import load_data


class Sim:
    def __init__(self):
        self.next = 100
        self.active = {}
        self.sbatch = []          # (hpc id, batch id, [job names])
        self.scancel = []
        self.stuck = []
        self.cfg_drift = []
        self.calls = 0
        self.fail_sbatch_call = None     # raise OSError at the k-th sbatch call (after accepting earlier ones)
        self.fail_squeue = 0             # number of squeue calls that fail (all retries)
        self.sbatch_error_calls = set()  # sbatch calls that return a non-zero status
        self.deps = None                 # original blockers per job name (set by the harness): monitor for C02
        self.finished = set()            # names with a result row
        self.early = []                  # (job, blocker) handed to the scheduler before the blocker had an outcome
        self.out = None

    def run_command(self, cmd, output=None, **kw):
        if output is not None:
            output["stdout"] = ""
            output["stderr"] = ""
        if cmd.startswith("sbatch "):
            self.calls += 1
            if self.fail_sbatch_call is not None and self.calls == self.fail_sbatch_call:
                raise OSError("injected: sbatch could not be executed")
            if self.calls in self.sbatch_error_calls:
                output["stderr"] = "sbatch: error: Batch job submission failed"
                return 1
            script = open(cmd.split()[1]).read()
            run = re.search(r"srun (\S+)", script).group(1)
            cfgf = re.search(r"run-jobs (\S+)", open(run).read()).group(1)
            bcfg = load_data(cfgf)
            jobs = [(j["name"], j.get("blocked_by", []), j.get("cancel_on_blocking_job_failure", False)) for j in bcfg["jobs"]]
            # C16/C17: the configuration a node receives is the submission's configuration with only the job list replaced
            # (node setup / teardown commands, submission groups, ... must reach the node)
            base_file = os.path.join(os.path.dirname(cfgf), "config.json")
            if os.path.exists(base_file):
                base = load_data(base_file)
                for k in base:
                    if k != "jobs" and (k not in bcfg or bcfg[k] != base[k]):
                        self.cfg_drift.append((os.path.basename(cfgf), k, base[k], bcfg.get(k, "<absent>")))
            bid = int(re.search(r"batch_(\d+)\.json", cfgf).group(1))
            i = self.next
            self.next += 1
            self.sbatch.append((i, bid, [j[0] for j in jobs]))
            if self.deps is not None:
                inbatch = {j[0] for j in jobs}
                have = self.names_with_rows()
                for j in jobs:
                    for b in self.deps.get(j[0], ()):
                        if b not in inbatch and b not in have:
                            self.early.append((j[0], b))
            self.active[str(i)] = (bid, jobs)
            output["stdout"] = f"Submitted batch job {i}\n"
            return 0
        if cmd.startswith("squeue"):
            if self.fail_squeue > 0:
                self.fail_squeue -= 1
                output["stderr"] = "slurm_load_jobs error: Socket timed out"
                return 1
            output["stdout"] = "".join(f"{i} RUNNING\n" for i in self.active)
            return 0
        if cmd.startswith("scancel"):
            i = cmd.split()[1]
            self.scancel.append(i)
            self.active.pop(i, None)
            return 0
        return 0

    def names_with_rows(self):
        """names that have a result row anywhere (consolidated file or a node file, whoever wrote it)"""
        import csv
        import glob
        names = set(self.finished)
        if self.out:
            for f in [os.path.join(self.out, "processed_results.csv")] + glob.glob(os.path.join(self.out, "results", "results_batch_*.csv")):
                try:
                    with open(f) as fh:
                        names |= {r["name"] for r in csv.DictReader(fh)}
                except OSError:
                    pass
        return names

    def finish(self, out, i, rcs, lose=False):
        """The node of batch i runs its jobs (dependency order, cancel-on-failure) and writes result rows - or is lost."""
        bid, jobs = self.active.pop(str(i))
        if lose:
            return
        res = {}
        pending = list(jobs)
        names = {q[0] for q in jobs}
        guard = 0
        while pending and guard < 100:
            guard += 1
            for j in list(pending):
                n, b, f = j
                outside = [x for x in b if x not in names]
                if outside:
                    # the node's queue waits for names that never complete on this node: the job is never started (as the real JobQueue does)
                    self.stuck.append((n, outside, bid))
                    pending.remove(j)
                    continue
                if all(x in res for x in b):
                    if f and any(res[x] != 0 for x in b):
                        res[n] = 1
                        ResultsAggregator.append(out, Result(n, 1, "canceled", 0.0, hpc_job_id=str(i)), batch_id=bid)
                    else:
                        res[n] = rcs.get(n, 0)
                        ResultsAggregator.append(out, Result(n, res[n], "finished", 1.0, hpc_job_id=str(i)), batch_id=bid)
                    self.finished.add(n)
                    pending.remove(j)


def make_config(jobs, est_minutes=None, **kw):
    cfg = GenericCommandConfiguration()
    for n, b, f in jobs:
        extra = {"estimated_run_minutes": est_minutes} if est_minutes is not None else {}
        cfg.add_job(GenericCommandParameters(command="true", name=n, blocked_by=set(b), cancel_on_blocking_job_failure=f, **extra))
    cfg.assign_default_submission_group(SubmitterParams(generate_reports=False, resource_monitor_type="none",
                                                        hpc_config=HpcConfig(hpc_type="slurm", hpc=SlurmConfig(account="x", walltime="01:00:00")), **kw))
    return cfg


def status(out):
    c, _ = Cluster.deserialize(out, deserialize_jobs=True)
    return c


def check_J(out, fails, where):
    """persisted-status invariant J (C09), read like show-status would"""
    c = status(out)
    cfg, jobs = c.config, c.job_status.jobs
    nd = sum(j.state == JobState.DONE for j in jobs)
    nsd = sum(j.state != JobState.NOT_SUBMITTED for j in jobs)
    if not (0 <= cfg.completed_jobs <= cfg.submitted_jobs <= cfg.num_jobs == len(jobs)):
        fails.append(f"{where}: counters out of order completed={cfg.completed_jobs} submitted={cfg.submitted_jobs} total={cfg.num_jobs}")
    if cfg.completed_jobs != nd or cfg.submitted_jobs != nsd:
        fails.append(f"{where}: counters ({cfg.completed_jobs},{cfg.submitted_jobs}) != counts (done={nd}, submitted-or-done={nsd})")
    if any(j.blocked_by for j in jobs if j.state != JobState.NOT_SUBMITTED):
        fails.append(f"{where}: a submitted/done job still has blockers")
    return c


def round_(out):
    try:
        try_submit_jobs.callback(out, False)
        return 0
    except SystemExit as e:
        return e.code


def run_history(S, case):
    rng = random.Random(case["seed"])
    sim = Sim()
    saved = (SM.run_command, JS.JobSubmitter._save_repository_info)
    SM.run_command = sim.run_command
    JS.JobSubmitter._save_repository_info = lambda self, reg: None
    out = tempfile.mkdtemp(prefix="verif-rounds-")
    fails = []
    restore = []
    try:
        n = case["n"]
        ns = [f"j{i}" for i in range(n)]
        order = ns[:]
        rng.shuffle(order)
        jobs = []
        for x in order:
            prev = [y for y in ns if y < x]
            jobs.append((x, rng.sample(prev, rng.randint(0, min(2, len(prev)))), rng.random() < 0.5))
        rcs = {x: rng.choice([0, 0, 1]) for x in ns}
        if case.get("chain"):
            # directed shape (C04): a line j0 <- j1 <- ... of flagged jobs whose head fails; "listing" gives the order in the configuration
            jobs = [(x, [ns[i - 1]] if i else [], case["chain"] == "flagged" or i % 2 == 1) for i, x in enumerate(ns)]
            if case.get("listing") == "reversed":
                jobs.reverse()
            rcs = {x: (1 if x == ns[0] else 0) for x in ns}
        kw = dict(per_node_batch_size=case["size"], max_nodes=case["max_nodes"], try_add_blocked_jobs=case["try_add"])
        cfg = make_config(jobs, **kw)
        sim.deps = {x: set(b) for x, b, _ in jobs}
        sim.out = out
        # C16: the setup / teardown commands of the submission (half of the histories configure them); only the command runners imported into
        # jade.jobs.job_submitter are replaced by recorders
        lifecycle = []
        if case["seed"] % 2:
            cfg.setup_command = "echo submission-setup"
            cfg.teardown_command = "echo submission-teardown"
        orig_crc, orig_rc = JS.check_run_command, JS.run_command

        def rec_lifecycle(cmd, env=None, **k_):
            lifecycle.append((cmd, len(sim.sbatch), (env or {}).get("JADE_RUNTIME_OUTPUT"), status(out).config.is_complete if os.path.exists(os.path.join(out, "cluster_config.json")) else None))
            return 0
        JS.check_run_command, JS.run_command = rec_lifecycle, rec_lifecycle
        restore.append(lambda: (setattr(JS, "check_run_command", orig_crc), setattr(JS, "run_command", orig_rc)))
        fault = case.get("fault")          # None | ("sbatch_raise", k) | ("squeue", round) | ("sbatch_error", k) | ("lose", k)
        if fault and fault[0] == "sbatch_raise":
            sim.fail_sbatch_call = fault[1]
        if fault and fault[0] == "sbatch_error":
            sim.sbatch_error_calls = {fault[1]}
        crashed = False
        lost = 0
        if fault and fault[0] == "status_timeout":
            # the cluster lock cannot be acquired for the k-th status update (another process holds it too long): filelock.Timeout out of update_job_status
            from filelock import Timeout as _LockTimeout
            orig_ujs = Cluster.update_job_status
            calls = {"n": 0}

            def flaky_update(self, *a, **k):
                calls["n"] += 1
                if calls["n"] == fault[1]:
                    raise _LockTimeout(self._lock_file)
                return orig_ujs(self, *a, **k)
            Cluster.update_job_status = flaky_update
            restore.append(lambda: setattr(Cluster, "update_job_status", orig_ujs))
        with contextlib.redirect_stdout(io.StringIO()), contextlib.redirect_stderr(io.StringIO()):
            try:
                JobSubmitter.run_submit_jobs(cfg, out)
            except OSError:
                crashed = True
            except Exception:  # noqa: BLE001
                if fault and fault[0] == "status_timeout":
                    crashed = True
                else:
                    raise
            steps = 0
            rounds = 0
            while steps < 60:
                steps += 1
                c = check_J(out, fails, f"step {steps}")
                if c.config.is_complete:
                    break
                mx = case["max_nodes"]
                if mx is not None and len(sim.active) > mx:
                    fails.append(f"C06: {len(sim.active)} active batches > max_nodes {mx}")
                if sim.active and rng.random() < 0.7:
                    i = rng.choice(list(sim.active))
                    lose = bool(fault and fault[0] == "lose" and lost < fault[1] and rng.random() < 0.5)
                    lost += 1 if lose else 0
                    sim.finish(out, int(i), rcs, lose=lose)
                    if rng.random() < 0.6:
                        continue
                rounds += 1
                if fault and fault[0] == "squeue" and rounds == fault[1]:
                    sim.fail_squeue = 7
                    before = {f: open(os.path.join(out, f)).read() for f in ("cluster_config.json", "job_status.json")}
                    nb = len(sim.sbatch)
                    res_before = sorted(os.listdir(os.path.join(out, "results"))) if os.path.isdir(os.path.join(out, "results")) else []
                    try:
                        round_(out)
                    except ExecutionError:
                        pass
                    sim.fail_squeue = 0
                    c2 = status(out)
                    if len(sim.sbatch) != nb:
                        fails.append("C11: a batch was submitted in a round whose status query failed")
                    res_after = sorted(os.listdir(os.path.join(out, "results"))) if os.path.isdir(os.path.join(out, "results")) else []
                    if c2.job_status.hpc_job_ids and res_before != res_after:
                        fails.append("C11: node result files were consumed by a round that died on the status query (completions lost)")
                    if os.path.exists(os.path.join(out, "submitter.lock")):
                        fails.append("C11: marker left behind by a failed status query (next round would refuse)")
                    continue
                nb = len(sim.sbatch)
                noact = not sim.active
                try:
                    round_(out)
                except OSError:
                    crashed = True
                except Exception as e:      # the marker makes later rounds refuse: expected after a crash
                    if fault and fault[0] == "status_timeout" and type(e).__name__ == "Timeout":
                        crashed = True
                    elif not crashed:
                        fails.append(f"round raised {type(e).__name__}: {e}")
                if crashed and len(sim.sbatch) > nb and not os.path.exists(os.path.join(out, "submitter.lock")) and False:
                    pass
                if noact and not crashed and len(sim.sbatch) == nb and not status(out).config.is_complete and not (fault and fault[0] == "sbatch_error"):
                    fails.append("C05: all batches ended, submission not complete, and a try-submit-jobs round neither submitted nor completed")
        if sim.early and not (fault and fault[0] in ("lose", "sbatch_error")):
            fails.append(f"C02: handed to the scheduler before a blocker in another batch had an outcome: {sim.early[:3]}")
        setups = [e for e in lifecycle if e[0] == "echo submission-setup"]
        tears = [e for e in lifecycle if e[0] == "echo submission-teardown"]
        if case["seed"] % 2:
            if len(setups) != 1:
                fails.append(f"C16: the setup command ran {len(setups)} times over the whole submission")
            elif setups[0][1] != 0:
                fails.append(f"C16: the setup command ran after {setups[0][1]} batch(es) had been handed to the scheduler")
            elif setups[0][2] != str(out):
                fails.append(f"C16: the setup command saw JADE_RUNTIME_OUTPUT={setups[0][2]!r}")
            if status(out).config.is_complete and not crashed:
                if len(tears) != 1:
                    fails.append(f"C16: the teardown command ran {len(tears)} times for a completed submission")
                elif tears[0][3]:
                    fails.append("C16: the teardown command ran after the completion flag was set")
            elif len(tears) > 1:
                fails.append(f"C16: the teardown command ran {len(tears)} times")
        elif setups or tears:
            fails.append("C16: lifecycle commands ran although none is configured")
        if sim.cfg_drift:
            fails.append(f"C16/C17: a batch configuration differs from the submission's configuration outside the job list "
                         f"(file, key, submission value, batch value): {sim.cfg_drift[:3]}")
        if sim.stuck:
            fails.append(f"C02/C03: a batch configuration lists blockers that are not in the batch, so the node never starts the job: "
                         f"{[(n, o, 'batch %d' % b) for n, o, b in sim.stuck[:3]]}")
        empty = [(i, b) for i, b, js in sim.sbatch if not js]
        if empty:
            fails.append(f"C07: a batch without jobs was handed to the scheduler: {empty}")
        placed = [x for _, _, js in sim.sbatch for x in js]
        if len(placed) != len(set(placed)):
            dup = sorted({x for x in placed if placed.count(x) > 1})
            fails.append(f"C01/C11: jobs handed to the scheduler twice: {dup} in {sim.sbatch}")
        if len({b for _, b, _ in sim.sbatch}) != len(sim.sbatch):
            fails.append(f"C01: batch identifier reused: {sim.sbatch}")
        c = status(out)
        if not crashed and not fault and not c.config.is_complete:
            fails.append("fault-free run did not complete")
        if c.config.is_complete and not fault:
            res = json.load(open(os.path.join(out, "results.json")))
            got = {r["name"]: ("canceled" if r["status"] == "canceled" else ("ok" if r["return_code"] == 0 else "failed")) for r in res["results"]}
            ref = {}
            for x in ns:
                b = [q for q in jobs if q[0] == x][0]
                ref[x] = "canceled" if (b[2] and any(ref[y] != "ok" for y in b[1])) else ("ok" if rcs[x] == 0 else "failed")
            if got != ref or res["missing_jobs"]:
                fails.append(f"C03: classification {got} != topological evaluation {ref}; missing={res['missing_jobs']}")
        if c.config.is_complete and fault and fault[0] in ("lose", "sbatch_error"):
            res = json.load(open(os.path.join(out, "results.json")))
            names = [r["name"] for r in res["results"]]
            if sorted(names + res["missing_jobs"]) != sorted(ns):
                fails.append(f"C12: results {names} + missing {res['missing_jobs']} is not the configured job set")
        return {"pre_ok": True, "ok": not fails, "failed": fails[:4]}
    finally:
        for r in restore:
            r()
        SM.run_command, JS.JobSubmitter._save_repository_info = saved
        shutil.rmtree(out, ignore_errors=True)


def cases_history(tier, rng):
    nfree, nfault = (25, 35) if tier == "quick" else (300, 500)
    for _ in range(nfree):
        yield {"seed": rng.randint(0, 10**9), "n": rng.randint(1, 7), "size": rng.choice([1, 2, 3]), "max_nodes": rng.choice([1, 2, None]),
               "try_add": rng.random() < 0.5, "fault": None}
    for n in (3, 4):
        for size in (1, 2):
            for listing in ("natural", "reversed"):
                yield {"seed": rng.randint(0, 10**9), "n": n, "size": size, "max_nodes": rng.choice([1, None]), "try_add": size == 2 and n == 4,
                       "fault": None, "chain": rng.choice(["flagged", "alternating"]) if n == 4 else "flagged", "listing": listing}
    for _ in range(nfault):
        kind = rng.choice(["sbatch_raise", "squeue", "sbatch_error", "lose", "status_timeout"])
        yield {"seed": rng.randint(0, 10**9), "n": rng.randint(2, 6), "size": rng.choice([1, 2]), "max_nodes": rng.choice([1, 2, 3]),
               "try_add": rng.random() < 0.5, "fault": [kind, rng.randint(1, 3)]}


def run_cancel(S, case):
    """C14: cancel-jobs then its own completion step: no sbatch after the cancel, every active batch is scancel'ed."""
    import jade.cli.cancel_jobs as CJ
    rng = random.Random(case["seed"])
    sim = Sim()
    saved = (SM.run_command, JS.JobSubmitter._save_repository_info, CJ.time.sleep, CJ.run_command)
    SM.run_command = sim.run_command
    JS.JobSubmitter._save_repository_info = lambda self, reg: None
    out = tempfile.mkdtemp(prefix="verif-cancel-")
    fails = []
    try:
        n = case["n"]
        jobs = [(f"j{i}", [f"j{i-1}"] if (i and rng.random() < 0.4) else [], False) for i in range(n)]
        if case.get("time_based"):
            # batching by estimated time (per_node_batch_size 0): a different code path collects the available jobs
            cfg = make_config(jobs, per_node_batch_size=0, time_based_batching=True, num_parallel_processes_per_node=1, max_nodes=case["max_nodes"],
                              est_minutes=case.get("est", 30))
        else:
            cfg = make_config(jobs, per_node_batch_size=case["size"], max_nodes=case["max_nodes"])
        CJ.time.sleep = lambda s: None
        CJ.run_command = lambda cmd: round_(out) or 0
        with contextlib.redirect_stdout(io.StringIO()), contextlib.redirect_stderr(io.StringIO()):
            JobSubmitter.run_submit_jobs(cfg, out)
            for _ in range(case["finish_first"]):
                if sim.active:
                    sim.finish(out, int(next(iter(sim.active))), {})
                    round_(out)
            active_before = set(sim.active)
            nb = len(sim.sbatch)
            try:
                CJ.cancel_jobs.callback(out, True, False)
            except SystemExit:
                pass
            for _ in range(2):
                round_(out)
        if len(sim.sbatch) != nb:
            fails.append(f"C14: batch handed to the scheduler after cancel: {sim.sbatch[nb:]}")
        if not active_before <= set(sim.scancel):
            fails.append(f"C14: active batches {sorted(active_before)} but scancel only for {sim.scancel}")
        return {"pre_ok": True, "ok": not fails, "failed": fails}
    finally:
        SM.run_command, JS.JobSubmitter._save_repository_info, CJ.time.sleep, CJ.run_command = saved
        shutil.rmtree(out, ignore_errors=True)


def cases_cancel(tier, rng):
    for i in range(16 if tier == "quick" else 200):
        yield {"seed": rng.randint(0, 10**9), "n": rng.randint(2, 6), "size": rng.choice([1, 2]), "max_nodes": rng.choice([1, 2]),
               "finish_first": rng.randint(0, 2), "time_based": (i % 4) == 3, "est": rng.choice([20, 30, 45])}


def run_to_completion(sim, out, rcs, rng, max_steps=80):
    for _ in range(max_steps):
        if status(out).config.is_complete:
            return True
        if sim.active:
            sim.finish(out, int(rng.choice(list(sim.active))), rcs)
        round_(out)
    return status(out).config.is_complete


def read_rows(out):
    import csv
    with open(os.path.join(out, "processed_results.csv")) as f:
        return list(csv.DictReader(f))


def run_resubmit(S, case):
    """C13: a fault-free submission runs to completion with some failing jobs; resubmit-jobs (real callback) with generated flags; the scripted
    scheduler records what is handed over afterwards.  Oracle: exactly the flag-selected jobs plus their transitive dependents are handed over, each
    once; the rows of every other job are untouched; afterwards one row per job.  Also the refusal on an incomplete submission."""
    from jade.cli.resubmit_jobs import resubmit_jobs
    rng = random.Random(case["seed"])
    sim = Sim()
    saved = (SM.run_command, JS.JobSubmitter._save_repository_info)
    SM.run_command = sim.run_command
    JS.JobSubmitter._save_repository_info = lambda self, reg: None
    out = tempfile.mkdtemp(prefix="verif-resub-")
    fails = []
    try:
        n = case["n"]
        ns = [f"j{i}" for i in range(n)]
        order = ns[:]
        if case["order"] == "reversed":
            order.reverse()
        elif case["order"] == "shuffled":
            rng.shuffle(order)
        jobs = []
        for x in order:
            prev = [y for y in ns if y < x]
            jobs.append((x, rng.sample(prev, rng.randint(0, min(2, len(prev)))), rng.random() < 0.4))
        deps = {x: set(b) for x, b, _ in jobs}
        rcs = {x: rng.choice([0, 0, 1]) for x in ns}
        cfg = make_config(jobs, per_node_batch_size=case["size"], max_nodes=case["max_nodes"], try_add_blocked_jobs=case["try_add"])
        with contextlib.redirect_stdout(io.StringIO()), contextlib.redirect_stderr(io.StringIO()):
            JobSubmitter.run_submit_jobs(cfg, out)
            if case["refuse"]:
                # resubmit-jobs while the submission is still running: must refuse and change nothing
                if status(out).config.is_complete:
                    return {"pre_ok": False}
                before = {f: open(os.path.join(out, f)).read() for f in ("cluster_config.json", "job_status.json", "processed_results.csv")}
                nb = len(sim.sbatch)
                try:
                    resubmit_jobs.callback(out, True, True, False, None, False)
                    code = 0
                except SystemExit as e:
                    code = e.code
                except Exception as e:  # noqa: BLE001
                    code = f"{type(e).__name__}: {e}"
                after = {f: open(os.path.join(out, f)).read() for f in before}
                if code != 1:
                    fails.append(f"resubmit-jobs on an incomplete submission ended with {code!r}, expected exit status 1")
                c = status(out)
                if c.config.submitter is not None:
                    fails.append("resubmit-jobs on an incomplete submission left the submitter role taken")
                if len(sim.sbatch) != nb:
                    fails.append("resubmit-jobs on an incomplete submission handed a batch to the scheduler")
                for f in ("job_status.json", "processed_results.csv"):
                    if before[f] != after[f]:
                        fails.append(f"resubmit-jobs on an incomplete submission changed {f}")
                return {"pre_ok": True, "ok": not fails, "failed": fails}
            if not run_to_completion(sim, out, rcs, rng):
                return {"pre_ok": False}
            rows0 = {r["name"]: r for r in read_rows(out)}
            status0 = {r["name"]: ("ok" if (r["return_code"] == "0" and r["status"] == "finished") else "bad") for r in rows0.values()}
            failed_f, succ_f = case["failed"], case["successful"]
            selected = {x for x in ns if (failed_f and status0.get(x) == "bad") or (succ_f and status0.get(x) == "ok") or (case["missing"] and x not in rows0)}
            want = set(selected)
            changed = True
            while changed:
                changed = False
                for x in ns:
                    if x not in want and deps[x] & want:
                        want.add(x)
                        changed = True
            nb = len(sim.sbatch)
            try:
                resubmit_jobs.callback(out, failed_f, case["missing"], succ_f, None, False)
                code = 0
            except SystemExit as e:
                code = e.code
            if not want:
                return {"pre_ok": True, "ok": True, "failed": []}        # nothing selected: whatever the command does with an empty set is outside the claim
            if code != 0:
                fails.append(f"resubmit-jobs ended with exit status {code}")
            run_to_completion(sim, out, {x: 0 for x in ns}, rng)
            launched = [x for _, _, js in sim.sbatch[nb:] for x in js]
            if sorted(launched) != sorted(want):
                fails.append(f"jobs handed to the scheduler after resubmit-jobs {sorted(launched)} != selected {sorted(selected)} + transitive dependents = {sorted(want)}")
            rows1 = read_rows(out)
            per_name = {}
            for r in rows1:
                per_name.setdefault(r["name"], []).append(r)
            dup = sorted(x for x, v in per_name.items() if len(v) > 1)
            if dup:
                fails.append(f"after resubmission the results hold more than one entry for {dup}")
            if sorted(per_name) != sorted(ns):
                fails.append(f"after resubmission the results hold entries for {sorted(per_name)}, configured jobs {sorted(ns)}")
            # "preserved": same name, return code, status and times - as values (pruning rewrites the file through csv.DictWriter, which may
            # print 0 as 0.0 and an absent HPC job id as an empty field)
            val = lambda r: (r["name"], int(r["return_code"]), r["status"], float(r["exec_time_s"]), float(r["completion_time"]))
            for x in ns:
                if x not in want and x in rows0 and per_name.get(x) and val(per_name[x][0]) != val(rows0[x]):
                    fails.append(f"result of {x} (not rerun) changed: {rows0[x]} -> {per_name[x][0]}")
        return {"pre_ok": True, "ok": not fails, "failed": fails[:4]}
    finally:
        SM.run_command, JS.JobSubmitter._save_repository_info = saved
        shutil.rmtree(out, ignore_errors=True)


def cases_resubmit(tier, rng):
    for i in range(40 if tier == "quick" else 500):
        yield {"seed": rng.randint(0, 10**9), "n": rng.randint(2, 6), "size": rng.choice([1, 2, 3]), "max_nodes": rng.choice([1, 2, None]),
               "try_add": rng.random() < 0.5, "order": ("forward", "reversed", "shuffled")[i % 3], "refuse": (i % 8) == 7,
               "failed": (i % 4) != 3, "missing": True, "successful": (i % 5) == 4}


HARNESSES = {
    "HpcSubmitter.run": (cases_history, run_history),
    "JobSubmitter.cancel_jobs": (cases_cancel, run_cancel),
    "resubmit_jobs": (cases_resubmit, run_resubmit),
}
