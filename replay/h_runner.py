"""Native harness for JobRunner.run_jobs (C16, C06): the real runner on a real batch configuration with real (trivial) job processes.
Only the two command runners imported into jade.jobs.job_runner are replaced by recorders; AsyncCliCommand.run is wrapped to time-stamp launches.
Oracle: node setup command exactly once iff configured, before the first job starts; node teardown exactly once iff configured, after the last
job has completed; both see JADE_RUNTIME_OUTPUT and the batch's JADE_SUBMISSION_GROUP; a failing teardown does not lose results; never more than the
configured number of processes at once.  BOUNDED stand-in / replay."""
import os
import random
import shutil
import tempfile

import jade.jobs.job_runner as JR
from jade.extensions.generic_command import GenericCommandConfiguration, GenericCommandParameters
from jade.jobs.async_cli_command import AsyncCliCommand
from jade.jobs.job_runner import JobRunner
from jade.jobs.results_aggregator import ResultsAggregator
from jade.models import SubmitterParams, HpcConfig, SubmissionGroup
from jade.models.hpc import LocalHpcConfig


def run_runner(S, case):
    rng = random.Random(case["seed"])
    d = tempfile.mkdtemp(prefix="verif-jr-")
    saved = (JR.run_command, JR.check_run_command, AsyncCliCommand.run, AsyncCliCommand._complete)
    events = []
    try:
        out = os.path.join(d, "out")
        cfg = GenericCommandConfiguration()
        gname = rng.choice(["default", "long", "gpu grp"])
        n = case["n"]
        for i in range(n):
            cfg.add_job(GenericCommandParameters(command="true", name=f"j{i}", submission_group=gname))
        # a second group exists in the submission; this batch belongs to `gname`, which is listed second half of the time
        other = SubmissionGroup(name="other", submitter_params=SubmitterParams(hpc_config=HpcConfig(hpc_type="local", hpc=LocalHpcConfig()), resource_monitor_type="none"))
        mine = SubmissionGroup(name=gname, submitter_params=SubmitterParams(hpc_config=HpcConfig(hpc_type="local", hpc=LocalHpcConfig()), resource_monitor_type="none",
                                                                              poll_interval=1))
        if case["seed"] % 2:
            cfg.append_submission_group(other)
            cfg.append_submission_group(mine)
        else:
            cfg.append_submission_group(mine)
            cfg.append_submission_group(other)
        if case["setup"]:
            cfg.node_setup_command = "echo node-setup"
        if case["teardown"]:
            cfg.node_teardown_command = "echo node-teardown"
        os.makedirs(out)
        ResultsAggregator.create(out)
        running = {"now": 0, "max": 0}

        def rec(kind):
            def f(cmd, env=None, **kw):
                events.append((kind, cmd, dict(env or {})))
                if kind == "check" and case["setup_fails"] and cmd == "echo node-setup":
                    from jade.exceptions import ExecutionError
                    raise ExecutionError("node setup failed")
                return case["teardown_ret"] if cmd == "echo node-teardown" else 0
            return f
        JR.run_command = rec("run")
        JR.check_run_command = rec("check")
        orig_run, orig_complete = saved[2], saved[3]

        def run_wrapped(self):
            events.append(("launch", self.name, {}))
            running["now"] += 1
            running["max"] = max(running["max"], running["now"])
            return orig_run(self)

        def complete_wrapped(self):
            r = orig_complete(self)
            running["now"] -= 1
            events.append(("done", self.name, {}))
            return r
        AsyncCliCommand.run = run_wrapped
        AsyncCliCommand._complete = complete_wrapped
        runner = JobRunner(cfg, out, batch_id=3)
        failed = []
        ppn = case["ppn"]
        try:
            runner.run_jobs(distributed_submitter=False, verbose=False, num_parallel_processes_per_node=ppn)
            raised = None
        except Exception as exc:  # noqa: BLE001
            raised = exc
        kinds = [e[0] + ":" + e[1] for e in events]
        setups = [i for i, e in enumerate(events) if e[1] == "echo node-setup"]
        tears = [i for i, e in enumerate(events) if e[1] == "echo node-teardown"]
        launches = [i for i, e in enumerate(events) if e[0] == "launch"]
        dones = [i for i, e in enumerate(events) if e[0] == "done"]
        if len(setups) != (1 if case["setup"] else 0):
            failed.append(f"node setup command ran {len(setups)} times, configured: {case['setup']}")
        if case["setup"] and case["setup_fails"]:
            if launches:
                failed.append("jobs were started although the node setup command failed")
            return {"pre_ok": True, "ok": not failed, "failed": failed}
        if raised is not None:
            failed.append(f"run_jobs raised {type(raised).__name__}: {raised}")
        if len(tears) != (1 if case["teardown"] else 0):
            failed.append(f"node teardown command ran {len(tears)} times, configured: {case['teardown']}")
        if setups and launches and setups[0] > launches[0]:
            failed.append("node setup command ran after the first job was started")
        if tears and dones and tears[0] < dones[-1]:
            failed.append("node teardown command ran before the last job completed")
        if len(launches) != n or len(dones) != n:
            failed.append(f"{len(launches)} launches / {len(dones)} completions for {n} jobs: {kinds}")
        for i in setups + tears:
            env = events[i][2]
            if env.get("JADE_RUNTIME_OUTPUT") != str(out):
                failed.append(f"{events[i][1]!r} saw JADE_RUNTIME_OUTPUT={env.get('JADE_RUNTIME_OUTPUT')!r}")
            if env.get("JADE_SUBMISSION_GROUP") != gname:
                failed.append(f"{events[i][1]!r} saw JADE_SUBMISSION_GROUP={env.get('JADE_SUBMISSION_GROUP')!r}, the batch belongs to {gname!r}")
        if ppn is not None and running["max"] > ppn:
            failed.append(f"C06: {running['max']} job processes at once, configured processes per node {ppn}")
        rows = ResultsAggregator.load(out).process_results()
        if sorted(r.name for r in rows) != sorted(f"j{i}" for i in range(n)):
            failed.append(f"recorded results {sorted(r.name for r in rows)} != the batch's jobs (teardown exit status {case['teardown_ret']})")
        return {"pre_ok": True, "ok": not failed, "failed": failed[:4]}
    finally:
        JR.run_command, JR.check_run_command, AsyncCliCommand.run, AsyncCliCommand._complete = saved
        shutil.rmtree(d, ignore_errors=True)


def cases_runner(tier, rng):
    for i in range(10 if tier == "quick" else 120):
        yield {"seed": rng.randint(0, 10**9), "n": rng.randint(1, 4), "setup": bool(i & 1), "teardown": bool(i & 2), "teardown_ret": [0, 1][(i // 4) % 2],
               "setup_fails": (i % 10) == 9, "ppn": rng.choice([1, 2, None])}


HARNESSES = {
    "JobRunner.run_jobs_v": (cases_runner, run_runner),
}
