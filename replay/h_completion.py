"""Native harness for JobSubmitter._handle_completion (C03, C05, C12, C16): the real method on a real submission directory;
only `run_command` is replaced by a recorder that looks at the disk at the moment the command would run.
Oracle (the contract's log clauses, observed through files): results.json is written first, then the teardown command runs exactly once iff
configured - while the completion flag is still unset - then the flag is set, then (pipeline stage only) the next-stage trigger runs;
the missing list is exactly the configured jobs without a row.  BOUNDED stand-in / replay."""
import json
import os
import random
import shutil
import tempfile

import jade.jobs.job_submitter as js_mod
from jade.common import RESULTS_FILE
from jade.enums import JobCompletionStatus, Status
from jade.extensions.generic_command import GenericCommandConfiguration, GenericCommandParameters
from jade.jobs.cluster import Cluster
from jade.jobs.job_submitter import JobSubmitter
from jade.jobs.results_aggregator import ResultsAggregator
from jade.models import SubmitterParams, HpcConfig
from jade.models.hpc import SlurmConfig
from jade.result import Result


def run_completion(S, case):
    rng = random.Random(case["seed"])
    d = tempfile.mkdtemp(prefix="verif-hc-")
    saved = js_mod.run_command
    try:
        cfg = GenericCommandConfiguration()
        names = [f"j{i}" for i in range(case["n"])]
        for nm in names:
            cfg.add_job(GenericCommandParameters(command="true", name=nm))
        cfg.assign_default_submission_group(SubmitterParams(hpc_config=HpcConfig(hpc_type="slurm", hpc=SlurmConfig(account="x")), generate_reports=False))
        if case["teardown"]:
            cfg.teardown_command = "echo teardown-cmd"
        out = os.path.join(d, "out")
        mgr = JobSubmitter.create(cfg, output=out)
        cluster = Cluster.create(out, mgr.config, pipeline_stage_num=case["stage"])
        ResultsAggregator.create(out)
        have = [nm for nm in names if rng.random() < case["p_done"]]
        for nm in have:
            ResultsAggregator.append(out, Result(nm, rng.choice([0, 1]), JobCompletionStatus.FINISHED, 1.0))
        events = []

        def fake_run_command(cmd, env=None, **kw):
            on_disk, _ = Cluster.deserialize(out)
            events.append({"cmd": cmd, "summary_exists": os.path.exists(os.path.join(out, RESULTS_FILE)), "flag_on_disk": on_disk.is_complete(),
                           "env_out": (env or {}).get("JADE_RUNTIME_OUTPUT")})
            return case["teardown_ret"]
        js_mod.run_command = fake_run_command
        failed = []
        res = mgr._handle_completion(cluster)
        td = [e for e in events if e["cmd"] == "echo teardown-cmd"]
        trig = [e for e in events if "submit-next-stage" in e["cmd"]]
        if len(td) != (1 if case["teardown"] else 0):
            failed.append(f"teardown command ran {len(td)} times, configured: {case['teardown']}")
        for e in td:
            if not e["summary_exists"]:
                failed.append("teardown command ran before the results summary was written")
            if e["flag_on_disk"]:
                failed.append("teardown command ran after the completion flag was set (a reader already sees the submission as complete)")
            if e["env_out"] != str(out):
                failed.append(f"teardown command saw JADE_RUNTIME_OUTPUT={e['env_out']!r}")
        if len(trig) != (0 if case["stage"] is None else 1):
            failed.append(f"next-stage trigger ran {len(trig)} times for pipeline stage {case['stage']}")
        for e in trig:
            if not e["flag_on_disk"]:
                failed.append("next-stage trigger ran before the completion flag was set")
        on_disk, _ = Cluster.deserialize(out)
        if not on_disk.is_complete():
            failed.append("completion flag not set on disk after _handle_completion")
        summary = json.load(open(os.path.join(out, RESULTS_FILE)))
        missing = sorted(set(names) - set(have))
        if sorted(summary["missing_jobs"]) != missing:
            failed.append(f"missing list {summary['missing_jobs']} != configured jobs without a row {missing}")
        if sorted(r["name"] for r in summary["results"]) != sorted(have):
            failed.append("results in the summary are not exactly the collected rows")
        if (res == Status.GOOD) != (not missing):
            failed.append(f"returned {res} with missing jobs {missing}")
        return {"pre_ok": True, "ok": not failed, "failed": failed}
    finally:
        js_mod.run_command = saved
        shutil.rmtree(d, ignore_errors=True)


def cases_completion(tier, rng):
    for i in range(24 if tier == "quick" else 300):
        yield {"seed": rng.randint(0, 10**9), "n": rng.randint(1, 5), "teardown": bool(i & 1), "stage": [None, 1, 3][i % 3], "p_done": rng.choice([1.0, 1.0, 0.6]),
               "teardown_ret": [0, 1][(i // 2) % 2]}


HARNESSES = {
    "JobSubmitter._handle_completion": (cases_completion, run_completion),
}
