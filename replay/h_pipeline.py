"""Native harness: PipelineManager._submit_next_stage with stubbed stage submission (C15)."""
import contextlib
import io
import os
import random
import shutil
import tempfile

import jade.jobs.pipeline_manager as PM
from jade.jobs.pipeline_manager import PipelineManager
from jade.models import SubmitterParams, HpcConfig
from jade.models.hpc import SlurmConfig

from .nspec import check_call


class _FakeCfg:
    submission_groups = [1]


def run_pipeline(S, case):
    G = {"submitted_stages": [], "pipeline_saves": 0}
    saved = (PM.create_config_from_file, PM.JobSubmitter.run_submit_jobs, PipelineManager._serialize)
    PM.create_config_from_file = lambda f: _FakeCfg()
    late = []

    def fake_submit(config, output, pipeline_stage_num=None):
        # C15: when a stage is handed over, pipeline.json must already record it (the stage's completion trigger is compared with the file)
        import json
        try:
            on_disk = json.load(open(os.path.join(G["_outdir"], PipelineManager.CONFIG_FILENAME)))["stage_num"]
        except Exception as exc:      # noqa
            on_disk = f"unreadable ({type(exc).__name__})"
        if on_disk != pipeline_stage_num:
            late.append((pipeline_stage_num, on_disk))
        G["submitted_stages"].append(pipeline_stage_num)
        return 0
    PM.JobSubmitter.run_submit_jobs = staticmethod(fake_submit)
    orig_ser = saved[2]

    def ser(self):
        G["pipeline_saves"] += 1
        return orig_ser(self)
    PipelineManager._serialize = ser
    d = tempfile.mkdtemp(prefix="verif-pl-")
    sp = SubmitterParams(hpc_config=HpcConfig(hpc_type="slurm", hpc=SlurmConfig(account="x")))
    rng = random.Random(case["seed"])
    out = {"pre_ok": True, "ok": True, "failed": []}
    try:
        with contextlib.redirect_stdout(io.StringIO()):
            n = case["n"]
            cf = os.path.join(d, "p.json")
            PipelineManager.create_config_from_files([f"c{i}.json" for i in range(n)], cf, sp)
            outdir = os.path.join(d, "out")
            mgr = PipelineManager.create(cf, outdir)
            G["_outdir"] = outdir
            steps = [(1, None)]
            cur = 1
            for _ in range(case["steps"]):
                k = rng.choice([cur + 1, cur + 1, cur, cur + 2, 1])
                steps.append((k, rng.choice([0, 1])))
                if k == cur + 1:
                    cur = k
            for idx, (k, rc) in enumerate(steps):
                m = PipelineManager.load(outdir) if idx else mgr
                if m.config.is_complete:
                    break
                os.environ["JADE_PIPELINE_OUTPUT_DIR"] = outdir      # what submit_next_stage sets around the private call
                r = check_call(S, "PipelineManager._submit_next_stage", PipelineManager._submit_next_stage, [m, k], {"return_code": rc}, ghost=G)
                if not r.get("pre_ok", True):
                    continue
                if not r["ok"]:
                    r["failed"] = [f"step {idx} (stage_num={k}, rc={rc}): " + x for x in r["failed"]]
                    return r
                out = r
        if late:
            out["ok"] = False
            out["failed"].append(f"C15: stage handed over before pipeline.json records it (stage, stage_num on disk): {late[:3]}")
        subs = G["submitted_stages"]
        if subs != list(range(1, len(subs) + 1)):
            out["ok"] = False
            out["failed"].append(f"stages submitted out of order or twice: {subs}")
        return out
    finally:
        PM.create_config_from_file, PM.JobSubmitter.run_submit_jobs, PipelineManager._serialize = saved
        shutil.rmtree(d, ignore_errors=True)


def cases_pipeline(tier, rng):
    for _ in range(40 if tier == "quick" else 400):
        yield {"seed": rng.randint(0, 10**9), "n": rng.randint(1, 4), "steps": rng.randint(1, 8)}


HARNESSES = {"PipelineManager._submit_next_stage": (cases_pipeline, run_pipeline)}
