"""Native side of the checks (runs under /venv/bin/python, PYTHONPATH=/repo).

  native.py run   --keys K1,K2 --tier quick --seed N --out FILE   contract-truth / bounded search
  native.py replay --file FILE                                    re-run one stored case

The real functions are called on real objects; the same contract clauses the prover uses
are evaluated at run time (replay/nspec.py).  Everything here is a BOUNDED check: it can
refute (with a real input) but never proves.
"""
import argparse
import importlib
import json
import logging
import os
import random
import sys
import time
import traceback

HERE = os.path.dirname(os.path.abspath(__file__))
ROOT = os.path.dirname(HERE)
REPO = os.environ.get("VERIF_REPO", "/repo")
sys.path.insert(0, REPO)
sys.path.insert(0, ROOT)
logging.disable(logging.CRITICAL)


def load_harnesses():
    from replay import nspec
    S = nspec.load_contracts()
    H = {}
    for f in sorted(os.listdir(HERE)):
        if f.startswith("h_") and f.endswith(".py"):
            mod = importlib.import_module("replay." + f[:-3])
            H.update(getattr(mod, "HARNESSES", {}))
    return S, H


def run(args):
    S, H = load_harnesses()
    keys = [k for k in args.keys.split(",") if k]
    out = {"tier": args.tier, "seed": args.seed, "results": {}}
    budget = float(args.budget)
    for key in keys:
        if key not in H:
            out["results"][key] = {"status": "no-harness"}
            continue
        gen, runner = H[key]
        rng = random.Random(args.seed * 7919 + hash(key) % 1000)
        rng = random.Random(f"{args.seed}:{key}")
        n = n_pre = 0
        failures = []
        shapes = set()
        sigs = set()
        t0 = time.time()
        err = None
        try:
            for case in gen(args.tier, rng):
                if time.time() - t0 > budget:
                    break
                try:
                    r = runner(S, case)
                except Exception:
                    err = traceback.format_exc()[-1500:]
                    failures.append({"case": case, "failed": ["harness crashed"], "exception": err})
                    break
                if not r.get("pre_ok", True):
                    n_pre += 1
                    continue
                n += 1
                shapes.add(json.dumps(case, sort_keys=True, default=str)[:300])
                if not r.get("ok", True):
                    # one witness per distinct set of failed clauses (a recorded finding must not crowd out a different violation)
                    sig = "|".join(sorted(str(x)[:120] for x in r.get("failed", [])))
                    if sig not in sigs:
                        sigs.add(sig)
                        failures.append({"case": case, "failed": r.get("failed", []), "exception": r.get("exception")})
                    if len(failures) >= 8:
                        break
        except Exception:
            err = traceback.format_exc()[-1500:]
        out["results"][key] = {"status": "error" if err and not failures else "done", "cases": n, "precondition_rejected": n_pre,
                               "distinct": len(shapes), "failures": failures, "error": err, "wall_s": round(time.time() - t0, 2)}
    with open(args.out, "w") as f:
        json.dump(out, f, indent=1, default=str)
    return 0


def replay(args):
    S, H = load_harnesses()
    with open(args.file) as f:
        data = json.load(f)
    key = data.get("harness") or data.get("function")
    case = data.get("case")
    if key not in H or case is None:
        print(f"replay: no native input in {args.file} (obligation {data.get('obligation')}): nothing to execute")
        print(json.dumps({k: data.get(k) for k in ("obligation", "verdict", "description")}, indent=1))
        return 0
    gen, runner = H[key]
    r = runner(S, case)
    print(json.dumps({"function": key, "case": case, "result": r}, indent=1, default=str))
    return 1 if not r.get("ok", True) else 0


def main():
    ap = argparse.ArgumentParser()
    sub = ap.add_subparsers(dest="cmd")
    p = sub.add_parser("run")
    p.add_argument("--keys", required=True)
    p.add_argument("--tier", default="quick")
    p.add_argument("--seed", type=int, default=0)
    p.add_argument("--out", required=True)
    p.add_argument("--budget", default="60")
    p = sub.add_parser("replay")
    p.add_argument("--file", required=True)
    args = ap.parse_args()
    if args.cmd == "run":
        return run(args)
    if args.cmd == "replay":
        return replay(args)
    ap.print_help()
    return 2


if __name__ == "__main__":
    sys.exit(main())
