"""Native harness for the event half of C20 (BOUNDED only - event consolidation runs through json / pandas / defaultdict and is not under contract):
generated multisets of structured events spread over several per-process event files; the real EventsSummary consolidates them.
Oracle: every event appears exactly once with all fields intact, ordered by time within its name; consolidating again changes nothing."""
import json
import os
import random
import shutil
import tempfile

from jade.common import EVENTS_DIR
from jade.events import EventsSummary, StructuredLogEvent

NAMES = ["submit_completed", "bytes_consumed", "hpc_submit", "custom name", "unhandled_error"]


def key(e):
    d = e.to_dict() if hasattr(e, "to_dict") else e
    return json.dumps(d, sort_keys=True, default=str)


def run_events(S, case):
    rng = random.Random(case["seed"])
    out = tempfile.mkdtemp(prefix="verif-ev-")
    failed = []
    try:
        written = []
        nfiles = case["files"]
        ts = 0
        for f in range(nfiles):
            path = os.path.join(out, ["submit_jobs_events.log", f"run_jobs_batch_{f}_events.log", f"job{f}_events.log"][f % 3] if f < 3 else f"p{f}_events.log")
            with open(path, "a") as fh:
                for _ in range(rng.randint(0, case["per_file"])):
                    # a per-node file merges the logs of concurrently running jobs: times are NOT monotone within a file; equal stamps happen too
                    ts = rng.randint(0, 50) if rng.random() < 0.7 else ts
                    stamp = f"2026-01-01 00:{(ts // 60) % 60:02d}:{ts % 60:02d}.{rng.randint(0, 999999):06d}" if rng.random() < 0.9 else f"2026-01-01 00:00:{ts % 60:02d}.000000"
                    extra = {}
                    if rng.random() < 0.5:
                        extra["num_jobs"] = rng.randint(0, 9)
                    if rng.random() < 0.3:
                        extra["note"] = rng.choice(["a,b", 'q"uote', "line\\nbreak", "ü"])
                    e = StructuredLogEvent(source=rng.choice(["submitter", "node-1", "job x"]), category=rng.choice(["HPC", "ResourceUtilization"]),
                                           name=rng.choice(NAMES), message=rng.choice(["m", "msg with spaces", ""]), timestamp=stamp, **extra)
                    fh.write(json.dumps(e.to_dict()) + "\n")
                    written.append(e)
        if case["shuffle_files"]:
            pass      # file order is whatever glob yields; nothing to do
        summary = EventsSummary(out)
        got = []
        by_name = {}
        for name in {e.name for e in written}:
            evs = summary.list_events(name)
            by_name[name] = evs
            got += evs
        want_keys = sorted(key(e) for e in written)
        got_keys = sorted(key(e) for e in got)
        if want_keys != got_keys:
            missing = [k for k in want_keys if k not in got_keys][:2]
            extra = [k for k in got_keys if k not in want_keys][:2]
            failed.append(f"consolidated events != written events (written {len(want_keys)}, consolidated {len(got_keys)}; missing {missing}; extra {extra})")
        for name, evs in by_name.items():
            stamps = [e.timestamp for e in evs]
            if stamps != sorted(stamps):
                failed.append(f"events named {name!r} are not ordered by time: {stamps[:6]}")
        # idempotence: a second summary object on the same directory (loads the consolidated files) and a forced re-consolidation
        files_before = {f: open(os.path.join(out, EVENTS_DIR, f)).read() for f in sorted(os.listdir(os.path.join(out, EVENTS_DIR)))}
        again = EventsSummary(out)
        for name, evs in by_name.items():
            if [key(e) for e in again.list_events(name)] != [key(e) for e in evs]:
                failed.append(f"loading the consolidated summary again changed the events named {name!r}")
        files_after = {f: open(os.path.join(out, EVENTS_DIR, f)).read() for f in sorted(os.listdir(os.path.join(out, EVENTS_DIR)))}
        if files_before != files_after:
            failed.append("consolidating again changed the summary files")
        return {"pre_ok": True, "ok": not failed, "failed": failed[:4]}
    finally:
        shutil.rmtree(out, ignore_errors=True)


def cases_events(tier, rng):
    for i in range(40 if tier == "quick" else 600):
        yield {"seed": rng.randint(0, 10**9), "files": rng.randint(1, 5), "per_file": rng.randint(0, 6), "shuffle_files": bool(i & 1)}


def run_aggregate(S, case):
    """JobRunner._aggregate_events on real files: afterwards the node's event log is byte for byte what it was (the runner's own events)
    followed by the job event logs in configuration order, and the job logs that existed are gone.  BOUNDED."""
    import os
    import shutil
    from jade.common import JOBS_OUTPUT_DIR
    from jade.jobs.job_runner import JobRunner
    from jade.extensions.generic_command import GenericCommandConfiguration, GenericCommandParameters
    rng = random.Random(case["seed"])
    out = tempfile.mkdtemp(prefix="verif-ag-")
    try:
        names = [f"j{i}" for i in range(case["n"])]
        rng.shuffle(names)
        cfg = GenericCommandConfiguration()
        for x in names:
            cfg.add_job(GenericCommandParameters(command="true", name=x))
        node_log = os.path.join(out, "run_jobs_batch_1_node_events.log")
        own = [json.dumps({"name": "bytes_consumed", "k": i}) + "\n" for i in range(case["own"])]
        if case["own"] >= 0:
            with open(node_log, "w") as f:
                f.writelines(own)
        expected = list(own)
        had = []
        for x in names:
            if rng.random() < 0.7:
                os.makedirs(os.path.join(out, JOBS_OUTPUT_DIR, x), exist_ok=True)
                lines = [json.dumps({"name": "ev", "job": x, "i": i, "t": rng.random()}) + "\n" for i in range(rng.randint(0, 4))]
                with open(os.path.join(out, JOBS_OUTPUT_DIR, x, "events.log"), "w") as f:
                    f.writelines(lines)
                expected += lines
                had.append(x)
        r = JobRunner.__new__(JobRunner)
        r._config, r._output, r._event_filename = cfg, out, node_log
        r._aggregate_events()
        failed = []
        got = open(node_log).readlines() if os.path.exists(node_log) else None
        if got != expected:
            if got is None or got[:len(own)] != own:
                failed.append(f"the node's own events were lost: log had {len(own)} lines, now starts with {0 if got is None else sum(1 for a, b in zip(got, own) if a == b)} of them")
            failed.append(f"node event log has {None if got is None else len(got)} lines, expected {len(expected)} (own events + job logs in configuration order)")
        for x in had:
            if os.path.exists(os.path.join(out, JOBS_OUTPUT_DIR, x, "events.log")):
                failed.append(f"job log of {x} was not removed after being copied (it would be copied again)")
        return {"pre_ok": True, "ok": not failed, "failed": failed}
    finally:
        shutil.rmtree(out, ignore_errors=True)


def cases_aggregate(tier, rng):
    for i in range(40 if tier == "quick" else 500):
        yield {"seed": rng.randint(0, 10**9), "n": rng.randint(0, 5), "own": rng.choice([-1, 0, 1, 3])}


HARNESSES = {
    "JobRunner._aggregate_events_v": (cases_aggregate, run_aggregate),
    "EventsSummary._consolidate_events": (cases_events, run_events),
}
