"""Native harness: the real JobQueue driven with instrumented fake jobs (carrying the ghost fields of the AsyncJob record) - C02, C04, C06."""
import random

from jade.enums import Status
from jade.jobs.job_queue import JobQueue

from .nspec import check_call

G = {"runs": 0, "collected": set(), "collected_failed": set()}


class FJ:
    """AsyncJobInterface implementation with the ghost fields as real attributes."""

    def __init__(self, name, blocking=(), flag=False, done=False, rc=0, run_ok=True):
        self._n = name
        self.blocking = set(blocking)
        self.flag = flag
        self.g_done = False
        self._will_complete = done
        self.rc = rc
        self.g_canceled = False
        self.g_launched = 0
        self.g_is_batch = False
        self.job_id = None
        self.run_ok = run_ok

    name = property(lambda s: s._n)
    cancel_on_blocking_job_failure = property(lambda s: s.flag)

    @property
    def return_code(self):
        return self.rc if self.g_done else None

    def is_complete(self):
        if self._will_complete and not self.g_done:
            self.g_done = True
            G["collected"].add(self._n)
            if self.rc != 0:
                G["collected_failed"].add(self._n)
        return self.g_done

    def cancel(self):
        self.g_canceled = True
        self.g_done = True
        self.rc = 1
        G["collected"].add(self._n)
        G["collected_failed"].add(self._n)

    def get_blocking_jobs(self):
        return self.blocking

    def set_blocking_jobs(self, x):
        self.blocking = set(x)

    def remove_blocking_job(self, n):
        self.blocking.remove(n)

    def run(self):
        self.g_launched += 1
        G["runs"] += 1
        return Status.GOOD if self.run_ok else Status.ERROR

    def get_id(self):
        return 0


def build(case):
    rng = random.Random(case["seed"])
    n = case["n"]
    ns = [chr(97 + i) for i in range(n)]
    rng.shuffle(ns)
    k = rng.randint(0, n)
    out, qd = ns[:k], ns[k:]
    q = JobQueue(max(len(out), case["depth"]), monitor_interval=None)
    G.update(runs=0, collected=set(), collected_failed=set())
    for x in out:
        j = FJ(x, done=rng.random() < 0.6, rc=rng.choice([0, 0, 1, -9, 137]))      # -9: killed by a signal (Popen reports -signum)
        j.g_launched = 1
        q._outstanding_jobs[x] = j
        q._num_jobs += 1
    for x in qd:
        cand = [y for y in ns if y != x]
        b = rng.sample(cand, rng.randint(0, min(2, len(cand))))
        q._queued_jobs.append(FJ(x, b, rng.random() < 0.6, done=rng.random() < 0.5, rc=rng.choice([0, 1]), run_ok=rng.random() < 0.9))
    return q


def failure_closure(out0, queued0):
    """C04 oracle, independent of the code: names that end up failed = outstanding jobs complete with a non-zero code, plus - transitively - every
    flagged queued job with a blocker among them (a canceled job counts as failed)."""
    failed = {j.name for j in out0 if j.g_done_final and j.rc0 != 0}
    changed = True
    canceled = set()
    while changed:
        changed = False
        for j in queued0:
            if j.name not in canceled and j.flag0 and j.blocking0 & failed:
                canceled.add(j.name)
                failed.add(j.name)
                changed = True
    return canceled


def run_check_completions(S, case):
    q = build(case)
    out0, queued0 = list(q._outstanding_jobs.values()), list(q._queued_jobs)
    for j in out0 + queued0:
        j.rc0, j.flag0, j.blocking0 = j.rc, j.cancel_on_blocking_job_failure, set(j.get_blocking_jobs())
        j.g_done_final = j.g_done
    r = check_call(S, "JobQueue._check_completions", JobQueue._check_completions, [q], ghost=G)
    if r.get("pre_ok", True) and r["ok"]:
        for j in out0:
            j.g_done_final = j.g_done
        # only outstanding jobs that were not yet seen complete can complete in this call; which of them did is read off after the call
        want = failure_closure(out0, queued0)
        got = {j.name for j in queued0 if j.g_canceled}
        # C02 oracle: a job that stays queued loses a blocker only when that blocker has an outcome (complete outstanding job, or a queued job
        # canceled here); otherwise it would be started before the blocker has finished
        outcome = {j.name for j in out0 if j.g_done} | got
        for j in queued0:
            if not j.g_canceled:
                lost = j.blocking0 - set(j.get_blocking_jobs()) - outcome
                if lost:
                    r["ok"] = False
                    r["failed"].append(f"C02: queued job {j.name} no longer waits for {sorted(lost)}, which have no outcome yet "
                                       f"(blockers before {sorted(j.blocking0)}, after {sorted(j.get_blocking_jobs())}, with outcome {sorted(outcome)})")
        if got != want:
            r["ok"] = False
            r["failed"].append(f"C04: canceled queued jobs {sorted(got)} != flagged jobs with a failed blocker, transitively {sorted(want)} "
                               f"(failed outstanding: {sorted(j.name for j in out0 if j.g_done and j.rc0 != 0)})")
    return r


def run_process_queue(S, case):
    q = build(case)
    out = {"pre_ok": True, "ok": True, "failed": []}
    for step in range(case.get("steps", 3)):
        r = check_call(S, "JobQueue.process_queue", JobQueue.process_queue, [q], ghost=G)
        if not r.get("pre_ok", True):
            return r
        if not r["ok"]:
            r["failed"] = [f"call {step}: " + x for x in r["failed"]]
            return r
        if len(q._outstanding_jobs) > q._queue_depth:
            return {"pre_ok": True, "ok": False, "failed": [f"C06: {len(q._outstanding_jobs)} outstanding > depth {q._queue_depth}"]}
        for j in list(q._outstanding_jobs.values()):
            if j.g_launched > 1:
                return {"pre_ok": True, "ok": False, "failed": [f"C01: job {j.name} started {j.g_launched} times"]}
        out = r
    return out


def cases_queue(tier, rng):
    for _ in range(300 if tier == "quick" else 5000):
        yield {"seed": rng.randint(0, 10**9), "n": rng.randint(1, 7), "depth": rng.randint(1, 4), "steps": 3}


HARNESSES = {
    "JobQueue._check_completions": (cases_queue, run_check_completions),
    "JobQueue.process_queue": (cases_queue, run_process_queue),
}
