"""Native harness for C19: the real GenericCommandExecution.generate_command + AsyncCliCommand on a real probe process.
The expected argv is computed by /bin/sh itself (POSIX word splitting of the same command text), not by shlex.
BOUNDED stand-in / replay, never counted as proved."""
import json
import os
import random
import shutil
import subprocess
import tempfile
import time
from pathlib import Path

from jade.common import JOBS_OUTPUT_DIR, JOBS_STDIO_DIR, RESULTS_DIR
from jade.extensions.generic_command import GenericCommandParameters
from jade.extensions.generic_command.generic_command_execution import GenericCommandExecution
from jade.jobs.async_cli_command import AsyncCliCommand
from jade.jobs.results_aggregator import ResultsAggregator
from jade.enums import JobCompletionStatus

PROBE = r'''#!/bin/sh
# writes what the process really received
d="$PROBE_DIR"
: > "$d/argv.bin"
for a in "$@"; do printf '%s\0' "$a" >> "$d/argv.bin"; done
printf '%s' "$JADE_RUNTIME_OUTPUT" > "$d/env_out"
printf '%s' "$JADE_JOB_NAME" > "$d/env_name"
printf '%s' "$PROBE_KEEP" > "$d/env_keep"
echo "to-stdout"
echo "to-stderr" >&2
if [ -n "$PROBE_SIGNAL" ]; then kill -"$PROBE_SIGNAL" $$; fi
exit "$PROBE_CODE"
'''
ALPHABET = ["a", "b", "Z", "0", " ", "  ", "\t", "'", '"', "\\", "\\ ", "-", "=", "x y", "'q r'", '"s t"', "\\\\", "%", "@", ":", "+", ","]      # no expansion / comment characters ($ ` * ? ~ # ; | & < > ( )): splitting and quote removal only


def sh_split(text):
    """POSIX word splitting and quote removal of `text` as done by /bin/sh (no expansion characters are generated)."""
    p = subprocess.run(["/bin/sh", "-c", "for a in " + text + "; do printf '%s\\0' \"$a\"; done"], capture_output=True)
    if p.returncode != 0 or p.stderr:
        return None
    out = p.stdout.decode()
    return out.split("\0")[:-1] if out else []


def gen_args(rng):
    n = rng.randint(0, 4)
    words = []
    for _ in range(n):
        words.append("".join(rng.choice(ALPHABET) for _ in range(rng.randint(1, 4))))
    return " ".join(words)


def run_launch(S, case):
    rng = random.Random(case["seed"])
    d = Path(tempfile.mkdtemp(prefix="verif-cli-"))
    try:
        output = d / "out put" if case["space_in_output"] else d / "output"
        (output / JOBS_OUTPUT_DIR).mkdir(parents=True)
        (output / JOBS_STDIO_DIR).mkdir()
        (output / RESULTS_DIR).mkdir()
        ResultsAggregator.create(output)
        probe = d / "probe.sh"
        probe.write_text(PROBE)
        pdir = d / "seen"
        pdir.mkdir()
        args = case.get("args")
        if args is None:
            args = gen_args(rng)
        stripped = args.rstrip(" \t")
        if (len(stripped) - len(stripped.rstrip("\\"))) % 2 == 1:
            return {"pre_ok": False}            # a trailing unescaped backslash (line continuation) is not a complete command line
        command = f"/bin/sh {probe} {args}"
        expect_user = sh_split(command)
        if expect_user is None or any("\0" in a for a in expect_user):
            return {"pre_ok": False}            # unbalanced quoting: not a valid command line for a shell either
        name = case["name"]
        job = GenericCommandParameters(command=command, name=name, append_job_name=case["append_job_name"], append_output_dir=case["append_output_dir"])
        jobs_output = str(output / JOBS_OUTPUT_DIR)
        cmd = GenericCommandExecution.generate_command(job, jobs_output, "config.json", verbose=False)
        expected = list(expect_user)
        if case["append_job_name"]:
            expected.append(f"--jade-job-name={name}")
        if case["append_output_dir"]:
            if " " in str(output):
                return {"pre_ok": False}        # the documented argument is appended unquoted: an output path with blanks is outside the claim
            expected.append(f"--jade-runtime-output={output}")
        code = case["code"]
        os.environ["PROBE_DIR"] = str(pdir)
        os.environ["PROBE_CODE"] = str(code)
        os.environ["PROBE_KEEP"] = "kept-%d" % case["seed"]
        os.environ["PROBE_SIGNAL"] = str(case.get("signal") or "")
        if case.get("signal"):
            code = -int(case["signal"])          # subprocess reports a process killed by signal N as -N: that is the real exit status to record
        failed = []
        batch_id = case["batch_id"]
        acc = AsyncCliCommand(job, cmd, output, batch_id, case["manager"], case["hpc_job_id"])
        st = acc.run()
        if getattr(st, "name", None) != "GOOD":
            failed.append(f"run() returned {st}")
        t0 = time.time()
        while not acc.is_complete():
            if time.time() - t0 > 20:
                return {"pre_ok": True, "ok": False, "failed": ["probe did not finish within 20 s"]}
            time.sleep(0.002)
        seen = (pdir / "argv.bin").read_bytes().decode().split("\0")[:-1]
        if seen != expected[2:]:        # argv[0], argv[1] are /bin/sh and the probe path
            failed.append(f"argv seen by the process {seen!r} != configured command split by POSIX rules (+documented arguments) {expected[2:]!r}")
        if (pdir / "env_out").read_text() != str(output):
            failed.append(f"JADE_RUNTIME_OUTPUT={(pdir / 'env_out').read_text()!r}, expected {str(output)!r}")
        if (pdir / "env_name").read_text() != name:
            failed.append(f"JADE_JOB_NAME={(pdir / 'env_name').read_text()!r}, expected {name!r}")
        if (pdir / "env_keep").read_text() != os.environ["PROBE_KEEP"]:
            failed.append("the caller's environment was not passed on")
        so, se = output / JOBS_STDIO_DIR / f"{name}.o", output / JOBS_STDIO_DIR / f"{name}.e"
        if not so.exists() or so.read_text() != "to-stdout\n":
            failed.append(f"stdout file {so.name}: {so.read_text() if so.exists() else 'missing'!r}")
        if not se.exists() or se.read_text() != "to-stderr\n":
            failed.append(f"stderr file {se.name}: {se.read_text() if se.exists() else 'missing'!r}")
        if acc.return_code != code:
            failed.append(f"return_code {acc.return_code} != real exit status {code}")
        # the recorded row, read back through the aggregator
        node_file = output / RESULTS_DIR / f"results_batch_{batch_id}.csv"
        if not case["manager"]:
            if node_file.exists():
                failed.append("a non-manager node wrote a result row")
        else:
            try:
                rows = ResultsAggregator.load(output).process_results()
            except Exception as exc:  # noqa: BLE001
                rows = None
                failed.append(f"collecting the recorded row raised {type(exc).__name__}: {exc}")
            if rows is not None:
                if len(rows) != 1:
                    failed.append(f"{len(rows)} rows recorded for one job")
                else:
                    r = rows[0]
                    want = (name, code, JobCompletionStatus.FINISHED.value, str(case["hpc_job_id"]))
                    got = (r.name, r.return_code, r.status, str(r.hpc_job_id))
                    if got != want:
                        failed.append(f"recorded row (name, return_code, status, hpc_job_id) = {got!r}, expected {want!r}")
        return {"pre_ok": True, "ok": not failed, "failed": failed}
    finally:
        shutil.rmtree(d, ignore_errors=True)


NAMES = ["job1", "a.b", "job-2", "J_3", "x" * 40, "1", "job+plus", "job@host", "job=eq"]


def cases_launch(tier, rng):
    n = 200 if tier == "quick" else 3000
    codes = list(range(256))
    for i in range(n):
        yield {"seed": rng.randint(0, 10**9), "name": rng.choice(NAMES), "name_class": "plain",
               "append_job_name": bool(i & 1), "append_output_dir": bool(i & 2),
               "code": codes[(i * 37) % 256] if tier == "quick" else codes[i % 256], "manager": (i % 5) != 4, "batch_id": rng.randint(1, 9),
               "hpc_job_id": str(rng.randint(1, 10**6)), "space_in_output": (i % 7) == 6, "signal": (9 if (i % 11) == 10 else (15 if (i % 13) == 12 else None))}
    # finding F9: the unquoted row format cannot carry a job name that contains the delimiter
    yield {"seed": 1, "name": "a,b", "name_class": "comma", "append_job_name": False, "append_output_dir": False, "code": 0, "manager": True,
           "batch_id": 1, "hpc_job_id": "7", "space_in_output": False, "args": "x"}


HARNESSES = {
    "AsyncCliCommand.run": (cases_launch, run_launch),
}
