"""Native harness for HpcSubmitter._update_status (C05, C09, C12): the real method on a real Cluster; the contract evaluated at run time.
The interesting inputs are rounds in which nothing happened except that batches ended: the stored list of active batch ids must follow."""
import random
import shutil

from jade.hpc.hpc_submitter import HpcSubmitter
from jade.models import JobState
from jade.enums import Status, JobCompletionStatus
from jade.hpc.common import HpcJobStatus, HpcType

from .nspec import check_call
from .h_cluster import make_cluster, gen_round

GLOBALS = {"JobState": JobState, "Status": Status, "JobCompletionStatus": JobCompletionStatus, "HpcJobStatus": HpcJobStatus, "HpcType": HpcType}


def run_update_status(S, case):
    rng = random.Random(case["seed"])
    d, c = make_cluster(rng, case["n"])
    try:
        sub = HpcSubmitter.__new__(HpcSubmitter)
        sub._cluster = c
        sub._batch_index = 3
        stored = [str(100 + i) for i in range(case["stored"])]
        # bring the persisted status to "these batches are active" through the real API
        c.update_job_status([], [], [], set(), stored, 3)
        kind = case["kind"]
        if kind == "same":
            new = list(stored)
        elif kind == "ended":                     # some batches ended, nothing else happened
            new = [x for x in stored if rng.random() < 0.5]
        elif kind == "all_ended":
            new = []
        else:                                     # a new batch appeared (ids sorted as HpcSubmitter.run does)
            new = sorted(stored + ["999"])
        if kind == "work":
            subm, blk, canc, comp, _ = gen_round(rng, c)
        else:
            subm, blk, canc, comp = [], [], [], set()
        r = check_call(S, "HpcSubmitter._update_status", HpcSubmitter._update_status, [sub, subm, blk, canc, new, comp], globals_=GLOBALS)
        if not r.get("pre_ok", True):
            return {"pre_ok": False}
        if r["ok"]:
            from jade.jobs.cluster import Cluster
            on_disk, _ = Cluster.deserialize(d, deserialize_jobs=True)
            if list(on_disk.job_status.hpc_job_ids) != list(new):
                r["ok"] = False
                r["failed"].append(f"active batch ids on disk {on_disk.job_status.hpc_job_ids} != ids that are really active {new} (a later round can never see 'no batch active')")
        return r
    finally:
        shutil.rmtree(d, ignore_errors=True)


def cases_update_status(tier, rng):
    for i in range(60 if tier == "quick" else 800):
        yield {"seed": rng.randint(0, 10**9), "n": rng.randint(1, 5), "stored": rng.randint(0, 3), "kind": ("same", "ended", "all_ended", "new", "work")[i % 5]}


HARNESSES = {
    "HpcSubmitter._update_status": (cases_update_status, run_update_status),
}
