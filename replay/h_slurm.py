"""Native harnesses for the SLURM boundary (C18): script text, squeue parsing, retry loop."""
import itertools
import random

import jade.utils.run_command as RC
from jade.hpc.common import HpcJobStatus
from jade.hpc.slurm_manager import SlurmManager
from jade.models import HpcConfig
from jade.models.hpc import SlurmConfig

from .nspec import check_call

OPT = ("gres", "mem", "nodes", "ntasks", "ntasks_per_node", "partition", "qos", "tmp", "reservation")
VALS = {"gres": "gpu:2", "mem": "90G", "nodes": 2, "ntasks": 4, "ntasks_per_node": 3, "partition": "debug", "qos": "high", "tmp": "1T", "reservation": "r1"}


def run_script_text(S, case):
    kw = {k: VALS[k] for k in case["set"]}
    if not any(k in kw for k in ("nodes", "ntasks", "ntasks_per_node")):
        return {"pre_ok": False, "ok": True, "failed": []}     # the model's root validator would set nodes=1
    cfg = HpcConfig(hpc_type="slurm", hpc=SlurmConfig(account=case["account"], walltime=case["walltime"], **kw))
    mgr = SlurmManager(cfg)
    r = check_call(S, "SlurmManager._create_submission_script_text", SlurmManager._create_submission_script_text,
                   [mgr, case["name"], case["script"], case["path"]])
    if r.get("ok"):
        # independent oracle written from the property text
        lines = mgr._create_submission_script_text(case["name"], case["script"], case["path"])
        want = ["#!/bin/bash", f"#SBATCH --account={case['account']}", f"#SBATCH --job-name={case['name']}", f"#SBATCH --time={case['walltime']}",
                f"#SBATCH --output={case['path']}/job_output_%j.o", f"#SBATCH --error={case['path']}/job_output_%j.e"]
        want += [f"#SBATCH --{p}={VALS[p]}" for p in OPT if p in kw] + ["", f"srun {case['script']}"]
        if lines != want:
            r["ok"] = False
            r["failed"] = [f"script lines {lines} != expected {want}"]
    return r


def cases_script_text(tier, rng):
    subsets = list(itertools.chain.from_iterable(itertools.combinations(OPT, r) for r in range(0, 10)))
    rng.shuffle(subsets)
    for sset in subsets[: (80 if tier == "quick" else 512)]:
        yield {"set": list(sset), "account": "acct", "walltime": rng.choice(["4:00:00", "0:10:00"]), "name": "job_batch_%d" % rng.randint(1, 9),
               "script": "/o/run_batch_1.sh", "path": "/o"}


STATES = ["PENDING", "CONFIGURING", "RUNNING", "COMPLETED", "COMPLETING", "SUSPENDED", "FAILED", "CANCELLED", "TIMEOUT", "NODE_FAIL", "PREEMPTED",
          "BOOT_FAIL", "DEADLINE", "OUT_OF_MEMORY", "REQUEUED", "RESIZING", "REVOKED", "SIGNALING", "SPECIAL_EXIT", "STAGE_OUT", "STOPPED", "completed", "XYZ"]


def run_statuses(S, case):
    text = case["text"]
    try:
        got = SlurmManager._get_statuses_from_output(text)
    except AssertionError:
        return {"pre_ok": True, "ok": True, "failed": []}       # a malformed line is refused, never guessed
    fails = []
    for line in text.split("\n"):
        toks = line.split()
        if len(toks) == 2:
            jid, st = toks
            fin = st in ("COMPLETED", "COMPLETING")
            if (got.get(jid) == HpcJobStatus.COMPLETE) and not any(l.split() == [jid, s] for l in text.split("\n") for s in ("COMPLETED", "COMPLETING")):
                fails.append(f"id {jid} reported COMPLETE but squeue says {st}")
            if got.get(jid) == HpcJobStatus.NONE:
                fails.append(f"id {jid} mapped to NONE although it is listed")
    return {"pre_ok": True, "ok": not fails, "failed": fails[:3]}


def cases_statuses(tier, rng):
    for st in STATES:
        yield {"text": f"100 {st}\n"}
        yield {"text": f"   100      {st}   \n\n101\t{st}\n"}
    for _ in range(60 if tier == "quick" else 600):
        n = rng.randint(0, 5)
        yield {"text": "".join(f"{' ' * rng.randint(0, 3)}{100 + i}{' ' * rng.randint(1, 12)}{rng.choice(STATES)}{' ' * rng.randint(0, 4)}\n" for i in range(n))}


def run_retries(S, case):
    seq = list(case["rets"])
    errs = list(case["stderr"])
    calls = {"n": 0}
    orig = RC._run_command

    def fake(command, output, cwd, **kw):
        k = calls["n"]
        calls["n"] += 1
        if output is not None:
            output["stdout"] = "out%d" % k
            output["stderr"] = errs[min(k, len(errs) - 1)]
        return seq[min(k, len(seq) - 1)]
    RC._run_command = fake
    orig_sleep = RC.time.sleep
    RC.time.sleep = lambda s: None
    try:
        out = {} if case["capture"] else None
        ret = RC.run_command("cmd", out, num_retries=case["retries"], retry_delay_s=0, error_strings=case["perm"] if case["capture"] else None)
    finally:
        RC._run_command = orig
        RC.time.sleep = orig_sleep
    n = calls["n"]
    fails = []
    r = case["retries"]
    if not (1 <= n <= r + 1):
        fails.append(f"{n} executions for num_retries={r}")
    if ret != seq[min(n - 1, len(seq) - 1)]:
        fails.append(f"returned {ret}, last execution returned {seq[min(n - 1, len(seq) - 1)]}")
    for k in range(n - 1):
        if seq[min(k, len(seq) - 1)] == 0:
            fails.append(f"retried after a success at attempt {k + 1}")
        if case["capture"] and r > 0 and any(p in errs[min(k, len(errs) - 1)] for p in case["perm"]):
            fails.append(f"retried after the permanent error at attempt {k + 1}")
    last_perm = case["capture"] and r > 0 and any(p in errs[min(n - 1, len(errs) - 1)] for p in case["perm"])
    if ret != 0 and n < r + 1 and not last_perm:
        fails.append(f"gave up after {n} of {r + 1} attempts without success or permanent error")
    if case["capture"] and out.get("stdout") != "out%d" % (n - 1):
        fails.append("output does not carry the last execution's streams")
    return {"pre_ok": True, "ok": not fails, "failed": fails[:3]}


def cases_retries(tier, rng):
    for r in (0, 1, 2, 6):
        for rets in itertools.product([0, 1], repeat=min(r + 1, 3)):
            for capture in (False, True):
                for perm_at in (None, 0, 1):
                    errs = ["transient"] * 8
                    if perm_at is not None:
                        errs[perm_at] = "xx Invalid job id specified yy"
                    yield {"retries": r, "rets": list(rets), "capture": capture, "stderr": errs, "perm": ["Invalid job id specified"]}



def run_run_script(S, case):
    """HpcSubmitter._create_run_script through the real constructor: two groups with different per-group options; the script of a batch must carry ITS
    group's options (C06 processes-per-node, C07 run options)."""
    import os
    import random
    import shutil
    import tempfile
    from jade.extensions.generic_command import GenericCommandConfiguration, GenericCommandParameters
    from jade.hpc.hpc_submitter import HpcSubmitter
    from jade.jobs.cluster import Cluster
    from jade.models import SubmitterParams, HpcConfig, SubmissionGroup
    from jade.models.hpc import SlurmConfig
    rng = random.Random(case["seed"])
    d = tempfile.mkdtemp(prefix="verif-rs-")
    try:
        cfg = GenericCommandConfiguration()
        groups = []
        for g in range(case["groups"]):
            ppn = rng.choice([None, 1, 2, 4, 7])
            groups.append(SubmissionGroup(name=f"g{g}", submitter_params=SubmitterParams(
                hpc_config=HpcConfig(hpc_type="slurm", hpc=SlurmConfig(account="x")), num_parallel_processes_per_node=ppn,
                verbose=rng.random() < 0.5, distributed_submitter=rng.random() < 0.5, max_nodes=3, poll_interval=10)))
        for i in range(case["groups"]):
            cfg.add_job(GenericCommandParameters(command="true", name=f"j{i}", submission_group=f"g{i}"))
        for g in groups:
            cfg.append_submission_group(g)
        cluster = Cluster.create(d, cfg)
        sub = HpcSubmitter(cfg, os.path.join(d, "config.json"), cluster, d)
        failed = []
        for g in groups:
            fn = os.path.join(d, f"run_{g.name}.sh")
            sub._create_run_script(os.path.join(d, "config_batch_1.json"), fn, g)
            lines = open(fn).read().splitlines()
            cmd = lines[-1]
            p = g.submitter_params
            want = f"jade-internal run-jobs {os.path.join(d, 'config_batch_1.json')} --output={d} " + ("--distributed-submitter" if p.distributed_submitter else "--no-distributed-submitter")
            if p.num_parallel_processes_per_node is not None:
                want += f" --num-parallel-processes-per-node={p.num_parallel_processes_per_node}"
            if p.verbose:
                want += " --verbose"
            if cmd != want or lines[0] != "#!/bin/bash":
                failed.append(f"run script of group {g.name}: {cmd!r}, expected {want!r}")
        return {"pre_ok": True, "ok": not failed, "failed": failed}
    finally:
        shutil.rmtree(d, ignore_errors=True)


def cases_run_script(tier, rng):
    for i in range(30 if tier == "quick" else 400):
        yield {"seed": rng.randint(0, 10**9), "groups": rng.randint(1, 3)}

HARNESSES = {
    "HpcSubmitterT._create_run_script": (cases_run_script, run_run_script),
    "SlurmManager._create_submission_script_text": (cases_script_text, run_script_text),
    "SlurmManager._get_statuses_from_output": (cases_statuses, run_statuses),
    "run_command": (cases_retries, run_retries),
}
