from z3 import *
import time
A = ArraySort(IntSort(), IntSort())
cnt = Function('cnt', A, IntSort(), IntSort())   # number of k<n with a[k]==2 (DONE)
a = Const('a', A); n,k,v,m = Ints('n k v m')
P = lambda x: If(x==2,1,0)
ax = lambda arr, nn: And(cnt(arr,0)==0, Implies(nn>=0, cnt(arr,nn+1)==cnt(arr,nn)+P(arr[nn])))
b = Store(a,k,v)
# induction step: assume lemma at n, prove at n+1
lemma = lambda nn: And(Implies(And(0<=k,k<nn), cnt(b,nn)==cnt(a,nn)-P(a[k])+P(v)), Implies(k>=nn, cnt(b,nn)==cnt(a,nn)))
s=Solver(); s.add(n>=0, k>=0, ax(a,n), ax(b,n), lemma(n), Not(lemma(n+1)))
t=time.time(); print("step", s.check(), round(time.time()-t,3))
s=Solver(); s.add(k>=0, ax(a,0), ax(b,0), Not(lemma(0))); print("base", s.check())
