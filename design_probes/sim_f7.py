import logging; logging.disable(logging.CRITICAL)
import io, contextlib
from sim import *
from jade.cli.resubmit_jobs import resubmit_jobs
from jade.models import JobState
out=tempfile.mkdtemp()
cfg=make([("a",[],False),("b",[],False)], per_node_batch_size=2)
with contextlib.redirect_stdout(io.StringIO()):
    JobSubmitter.run_submit_jobs(cfg,out); sim.finish(out,100,{"b":1}); round_(out)
print("complete",status(out).config.is_complete)
os.makedirs(os.path.join(out,"events"),exist_ok=True)
orig=Cluster._serialize_jobs
def spy(self, reason):
    if reason=="prepare_for_resubmission":
        lock=os.path.exists(Cluster.get_lock_file(out))
        c=json.load(open(os.path.join(out,"cluster_config.json"))); js=json.load(open(os.path.join(out,"job_status.json")))
        nd=sum(j["state"]=="done" for j in js["jobs"]); nsd=sum(j["state"] in("done","submitted") for j in js["jobs"])
        print("READER between writes: lock held?",lock,"disk completed",c["completed_jobs"],"#done",nd,"disk submitted",c["submitted_jobs"],"#sub|done",nsd)
    return orig(self,reason)
Cluster._serialize_jobs=spy
with contextlib.redirect_stdout(io.StringIO()) as buf:
    try: resubmit_jobs.callback(out, True, True, False, None, False)
    except SystemExit: pass
print(buf.getvalue().strip().splitlines()[0])
shutil.rmtree(out)
