import sys, os, tempfile, shutil, json, logging, random, io, contextlib
logging.disable(logging.CRITICAL)
sys.path.insert(0,"/repo")
import jade.jobs.pipeline_manager as PM
from jade.jobs.pipeline_manager import PipelineManager
from jade.models import SubmitterParams, HpcConfig
from jade.models.hpc import SlurmConfig
from jade.exceptions import InvalidParameter, ExecutionError
calls=[]
class FakeCfg:
    submission_groups=[1]
PM.create_config_from_file=lambda f: FakeCfg()
PM.JobSubmitter.run_submit_jobs=staticmethod(lambda config, output, pipeline_stage_num=None: (calls.append((output,pipeline_stage_num)),0)[1])
random.seed(7); bad=0
sp=SubmitterParams(hpc_config=HpcConfig(hpc_type="slurm",hpc=SlurmConfig(account="x")))
for t in range(300):
    n=random.randint(1,4); d=tempfile.mkdtemp(); cf=os.path.join(d,"p.json")
    with contextlib.redirect_stdout(io.StringIO()):
        PipelineManager.create_config_from_files([f"c{i}.json" for i in range(n)], cf, sp)
        out=os.path.join(d,"out"); mgr=PipelineManager.create(cf,out)
        calls.clear(); mgr.submit_next_stage(1)
        ok = calls==[(os.path.join(out,"output-stage1"),1)]
        cur=1
        for step in range(8):
            k=random.choice([cur+1,cur+1,cur,cur+2,1]); rc=random.choice([0,1])
            m=PipelineManager.load(out); before=json.load(open(os.path.join(out,"pipeline.json"))); calls.clear()
            complete=before["is_complete"]
            try:
                if complete: break
                m.submit_next_stage(k, return_code=rc); raised=None
            except InvalidParameter: raised="inv"
            after=json.load(open(os.path.join(out,"pipeline.json")))
            if k!=cur+1:
                ok &= raised=="inv" and after==before and not calls
            else:
                cur=k
                ok &= raised is None and after["stage_num"]==k and after["stages"][k-2]["return_code"]==rc
                if k==n+1: ok &= after["is_complete"] and not calls
                else: ok &= (not after["is_complete"]) and calls==[(os.path.join(out,f"output-stage{k}"),k)]
    if not ok: bad+=1
    shutil.rmtree(d)
print("bad",bad)
