import logging; logging.disable(logging.CRITICAL)
import io, contextlib
from sim import *
from jade.cli.resubmit_jobs import resubmit_jobs
from jade.models import JobState
out=tempfile.mkdtemp()
cfg=make([("a",[],False),("b",["a"],False)], per_node_batch_size=1, try_add_blocked_jobs=False)
with contextlib.redirect_stdout(io.StringIO()):
    JobSubmitter.run_submit_jobs(cfg,out)
    sim.active.clear()            # node killed: batch vanishes without results
    round_(out)                   # documented recovery -> forced completion
c=status(out); print("complete",c.config.is_complete,"missing",json.load(open(os.path.join(out,'results.json')))["missing_jobs"])
os.makedirs(os.path.join(out,"events"),exist_ok=True)
with contextlib.redirect_stdout(io.StringIO()):
    try: resubmit_jobs.callback(out, True, False, False, None, False)   # --failed --no-missing
    except SystemExit as e: pass
c=status(out)
print("after resubmit --no-missing: submitted",c.config.submitted_jobs,"completed",c.config.completed_jobs,"states",[(j.name,j.state.value,sorted(j.blocked_by)) for j in c.job_status.jobs],"complete",c.config.is_complete)
shutil.rmtree(out)
