import sys, itertools, logging
logging.disable(logging.CRITICAL)
sys.path.insert(0, "/repo")
import jade.utils.run_command as R
R.time.sleep = lambda s: None
bad=0; cases=0
for r in range(0,4):
  for seq in itertools.product([(0,""),(1,"transient"),(1,"PERM err")], repeat=r+2):
    for use_out in (False, True):
      for errs in (None, ["PERM"]):
        if errs and not use_out: continue
        calls=[]
        def fake(command, output, cwd, **kw):
            ret, err = seq[len(calls)]; calls.append((ret,err))
            if output is not None: output["stdout"]="o%d"%len(calls); output["stderr"]=err
            return ret
        R._run_command = fake
        out = {} if use_out else None
        res = R.run_command("x y", out, num_retries=r, retry_delay_s=0, error_strings=errs)
        cases+=1
        execs=len(calls)
        perm=lambda m: bool(r>0 and use_out and errs and any(e in calls[m][1] for e in errs))
        ok = 1<=execs<=r+1 and res==calls[-1][0] and all(calls[m][0]!=0 and not perm(m) for m in range(execs-1))
        ok &= (res==0 or execs==r+1 or perm(execs-1))
        if use_out: ok &= out.get("stderr")==calls[-1][1] and out.get("stdout")=="o%d"%execs
        if not ok:
            bad+=1
            if bad<4: print("MISMATCH", r, seq, use_out, errs, calls, res, out)
print("cases",cases,"bad",bad)
