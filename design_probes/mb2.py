import sys, itertools, inspect, textwrap, logging
logging.disable(logging.CRITICAL)
sys.path.insert(0, "/repo")
import jade.hpc.hpc_submitter as H
from jade.hpc.hpc_submitter import HpcSubmitter
from jade.extensions.generic_command import GenericCommandConfiguration, GenericCommandParameters
from jade.models import Job, JobState, SubmitterParams, HpcConfig, SubmissionGroup
from jade.models.hpc import SlurmConfig

FIX = len(sys.argv) > 1 and sys.argv[1] == "fix"
if FIX:
    src = textwrap.dedent(inspect.getsource(HpcSubmitter._make_batch))
    assert "highest_index -= 1" in src
    src = src.replace("highest_index -= 1", "highest_index -= (1 if i == highest_index else 0)")
    ns = {}; exec(src, H.__dict__, ns); HpcSubmitter._make_batch = ns["_make_batch"]

def mk(jobs, **kw):
    cfg = GenericCommandConfiguration()
    for name, blk, est in jobs:
        cfg.add_job(GenericCommandParameters(command="true", name=name, blocked_by=set(blk), estimated_run_minutes=est))
    hpc = HpcConfig(hpc_type="slurm", hpc=SlurmConfig(account="a", walltime="0:10:00"))
    grp = SubmissionGroup(name="default", submitter_params=SubmitterParams(hpc_config=hpc, **kw))
    s = HpcSubmitter.__new__(HpcSubmitter); s._config = cfg
    avail = [Job(name=n, blocked_by=set(b), state=JobState.NOT_SUBMITTED) for n, b, e in jobs]
    return s, grp, avail

names = "abcd"
bad = {}
cnt = 0
for n in range(1, 5):
    ns_ = names[:n]
    blk_opts = [list(itertools.chain.from_iterable(itertools.combinations([x for x in ns_ if x != me], r) for r in range(0, 2))) for me in ns_]
    for blks in itertools.product(*blk_opts):
        for ests in itertools.product([3, 4, 6], repeat=n):
            for time_based in (False, True):
              for try_add in (False, True):
                for size in ((1, 2) if not time_based else (500,)):
                    jobs = [(ns_[k], list(blks[k]), ests[k]) for k in range(n)]
                    if time_based:
                        order = sorted(range(n), key=lambda k: ests[k]); jobs = [jobs[k] for k in order]
                    kw = dict(time_based_batching=time_based, try_add_blocked_jobs=try_add, per_node_batch_size=size, num_processes=1)
                    s, grp, avail = mk(jobs, **kw)
                    cnt += 1
                    sub, blk = [], []
                    batch, nc = s._make_batch(avail, grp, sub, blk)
                    B = [j.name for j in batch._jobs]; S = [j.name for j in sub]; NC = [j.name for j in nc]
                    A = [j.name for j in avail]
                    ok = {}
                    ok["a"] = (B == S and len(set(S)) == len(S) and set(S) <= set(A))
                    ok["b"] = (A[len(A)-len(NC):] == NC and not (set(S) & set(NC)))
                    byname = {j.name: j for j in avail}
                    ok["c"] = all((not byname[x].blocked_by) or (try_add and byname[x].blocked_by <= set(S)) for x in S)
                    est = dict((j[0], j[2]) for j in jobs)
                    ok["d"] = (sum(est[x] for x in S) <= 10) if time_based else (len(S) <= size)
                    K = [j.name for j in blk]
                    ok["e"] = (set(K) <= set(A) - set(S)) and all(byname[x].blocked_by for x in K)
                    ok["f"] = all(byname[x].blocked_by for x in A if x not in S and x not in NC)
                    for k, v in ok.items():
                        if not v: bad.setdefault(k, []).append((jobs, kw, B, NC, K))
print("cases", cnt, "FIX" if FIX else "ORIG")
for k, v in bad.items(): print("clause", k, "fails", len(v), "e.g.", v[0])
