import sys, random, logging
logging.disable(logging.CRITICAL)
sys.path.insert(0, "/repo")
from jade.jobs.job_queue import JobQueue
from jade.enums import Status
class FJ:
    def __init__(s, name, blocking=(), flag=False, done=False, rc=0):
        s._n=name; s.b=set(blocking); s.flag=flag; s.done=done; s.rc=rc; s.canceled=0; s.runs=0
    name=property(lambda s:s._n)
    cancel_on_blocking_job_failure=property(lambda s:s.flag)
    return_code=property(lambda s:s.rc)
    def is_complete(s): return s.done
    def cancel(s): s.canceled+=1; s.done=True; s.rc=1
    def get_blocking_jobs(s): return s.b
    def set_blocking_jobs(s,x): s.b=set(x)
    def remove_blocking_job(s,n): s.b.remove(n)
    def run(s): s.runs+=1; return Status.GOOD
    def get_id(s): return 0
random.seed(2); bad=0
for t in range(20000):
    n=random.randint(2,6); ns=[chr(97+i) for i in range(n)]; random.shuffle(ns)
    k=random.randint(1,n-1); out=ns[:k]; qd=ns[k:]
    q=JobQueue(10, monitor_interval=None)
    O={x:FJ(x,done=random.random()<0.6,rc=random.choice([0,0,1])) for x in out}
    for x in out: q._outstanding_jobs[x]=O[x]
    Q={}
    for x in qd:
        cand=[y for y in ns if y!=x]; b=random.sample(cand,random.randint(1,min(2,len(cand))))
        Q[x]=FJ(x,b,random.random()<0.6); q._queued_jobs.append(Q[x])
    entry={x:set(Q[x].b) for x in qd}
    F={x for x in out if O[x].done and O[x].rc!=0}; C={x for x in out if O[x].done}
    canc=set(); ch=True
    while ch:
        ch=False
        for x in qd:
            if x not in canc and Q[x].flag and entry[x]&(F|canc): canc.add(x); ch=True
    # NOTE: cancellation only examined when some job completed
    if not C: canc=set()
    Cmp=C|canc
    q._check_completions()
    ok = set(q._outstanding_jobs)==set(out)-Cmp
    ok &= {j.name for j in q._queued_jobs}==set(qd)-canc
    for x in qd:
        if x in canc: ok &= Q[x].canceled==1 and Q[x].runs==0 and not Q[x].b
        else: ok &= Q[x].canceled==0 and Q[x].b==entry[x]-Cmp
    if not ok:
        bad+=1
        if bad<3: print("MISMATCH",out,[(x,O[x].done,O[x].rc) for x in out],[(x,entry[x],Q[x].flag) for x in qd],canc,set(q._outstanding_jobs),[ (j.name,j.b) for j in q._queued_jobs])
print("bad",bad)
