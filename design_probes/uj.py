import sys, random, os, tempfile, shutil, logging, json
logging.disable(logging.CRITICAL)
sys.path.insert(0, "/repo")
from jade.jobs.cluster import Cluster
from jade.models import JobState
from jade.extensions.generic_command import GenericCommandConfiguration, GenericCommandParameters
from jade.models import SubmitterParams, HpcConfig
from jade.models.hpc import SlurmConfig
NS,S,D=JobState.NOT_SUBMITTED,JobState.SUBMITTED,JobState.DONE
def J(path):
    c,_=Cluster.deserialize(path,deserialize_jobs=True)
    cfg=c.config; jobs=c.job_status.jobs
    nd=sum(j.state==D for j in jobs); nsd=sum(j.state in(S,D) for j in jobs)
    ok = 0<=cfg.completed_jobs<=cfg.submitted_jobs<=cfg.num_jobs==len(jobs) and cfg.completed_jobs==nd and cfg.submitted_jobs==nsd
    ok &= all((not j.blocked_by) for j in jobs if j.state!=NS)
    ok &= int(open(os.path.join(path,"config_version.txt")).read())==cfg.version and int(open(os.path.join(path,"job_status_version.txt")).read())==c.job_status.version
    return ok,(cfg.completed_jobs,cfg.submitted_jobs,nd,nsd)
random.seed(5); bad=0
for t in range(300):
    n=random.randint(1,6); ns=[chr(97+i) for i in range(n)]
    cfg=GenericCommandConfiguration()
    for x in ns: cfg.add_job(GenericCommandParameters(command="true",name=x,blocked_by=set(random.sample([y for y in ns if y<x],random.randint(0,min(2,len([y for y in ns if y<x])))))))
    cfg.assign_default_submission_group(SubmitterParams(hpc_config=HpcConfig(hpc_type="slurm",hpc=SlurmConfig(account="x"))))
    d=tempfile.mkdtemp(); c=Cluster.create(d,cfg)
    vs=[]
    for rnd in range(random.randint(1,5)):
        jobs=list(c.iter_jobs())
        comp={j.name for j in jobs if j.state==S and random.random()<0.5}
        for j in jobs:
            if j.state==NS: j.blocked_by.difference_update(comp)
        canc=[j for j in jobs if j.state==NS and j.blocked_by and random.random()<0.3]
        for j in canc: j.state=D; j.blocked_by.clear()
        comp|={j.name for j in canc}
        for j in jobs:
            if j.state==NS: j.blocked_by.difference_update(comp)
        sub=[j for j in jobs if j.state==NS and not j.blocked_by and random.random()<0.6]
        blk=[j for j in jobs if j.state==NS and j.blocked_by and random.random()<0.7]
        c.update_job_status(sub,blk,canc,comp,[],rnd+2)
        ok,info=J(d); vs.append((c.config.version,c.job_status.version))
        if not ok: bad+=1; print("J broken",info); break
    if any(a>=b for a,b in zip(vs,vs[1:]) if False): pass
    os.remove if False else None
    shutil.rmtree(d)
print("bad",bad)
