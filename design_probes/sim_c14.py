import logging; logging.disable(logging.CRITICAL)
from sim import *
import jade.cli.cancel_jobs as CJ
out=tempfile.mkdtemp()
cfg=make([("a",[],False),("b",[],False),("c",[],False)], per_node_batch_size=1, max_nodes=1)
ret=JobSubmitter.run_submit_jobs(cfg,out)
print("after submit: sbatch",sim.sbatch,"active",list(sim.active))
# user cancels: emulate cancel_jobs CLI without sleep / external jade exe
CJ.time.sleep=lambda s:None
CJ.run_command=lambda cmd: round_(out) or 0
try: CJ.cancel_jobs.callback(out, True, False)
except SystemExit as e: print("cancel exit",e.code)
c=status(out)
print("after cancel: is_canceled",c.config.is_canceled,"is_complete",c.config.is_complete,"sbatch",sim.sbatch,"scancel",sim.scancel,"active",list(sim.active))
shutil.rmtree(out)
