# feasibility probe: inductive step of _make_batch inner loop, key invariant:
#   forall k. inS(name[k]) -> k <= hi ;  names distinct on [0,n)
from z3 import *
import time
Name = DeclareSort('Name')
name = Function('name', IntSort(), Name)
n, i, hi, hi0 = Ints('n i hi hi0')
S = Array('S', Name, BoolSort())
k, k2 = Ints('k k2')
distinct = ForAll([k,k2], Implies(And(0<=k,k<n,0<=k2,k2<n,k!=k2), name(k)!=name(k2)))
def inv(S, hi): return And(-1<=hi, hi<=n-1, ForAll([k], Implies(And(0<=k,k<n,S[name(k)]), k<=hi)))
for fixed in (False, True):
    s = Solver(); s.set("timeout", 20000)
    s.add(distinct, 0<=i, i<n, inv(S,hi0))
    hi1 = If(i>hi0, i, hi0)
    s.add(Not(S[name(i)]))            # not 'continue'
    appended = Bool('appended')
    S2 = If(appended, Store(S, name(i), True), S)
    if fixed: hi2 = If(appended, hi1, If(i==hi1, hi1-1, hi1))
    else:     hi2 = If(appended, hi1, hi1-1)
    s.add(Not(inv(S2, hi2)))
    t=time.time(); r=s.check(); print("fixed" if fixed else "orig", r, round(time.time()-t,3))
    if r==sat:
        m=s.model(); print({str(d):m[d] for d in m.decls() if str(d) in ('n','i','hi0','appended')})
