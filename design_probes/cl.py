import sys, random, os, tempfile, shutil, logging
logging.disable(logging.CRITICAL)
sys.path.insert(0, "/repo")
from jade.cli.resubmit_jobs import _update_with_blocking_jobs
from jade.extensions.generic_command import GenericCommandConfiguration, GenericCommandParameters
from jade.models import SubmitterParams, HpcConfig
from jade.models.hpc import SlurmConfig
random.seed(3); bad=0; asserts=0
for t in range(1500):
    n=random.randint(1,6); ns=[chr(97+i) for i in range(n)]; random.shuffle(ns)
    dep={x:set(random.sample([y for y in ns if y!=x], random.randint(0,min(2,n-1)))) for x in ns}
    cfg=GenericCommandConfiguration()
    for x in ns: cfg.add_job(GenericCommandParameters(command="true",name=x,blocked_by=dep[x]))
    d=tempfile.mkdtemp(); cfg.dump(os.path.join(d,"config.json"))
    J0=set(random.sample(ns,random.randint(0,n)))
    J=set(J0)
    try:
        upd=_update_with_blocking_jobs(J,d)
    except AssertionError as e:
        asserts+=1; shutil.rmtree(d); continue
    shutil.rmtree(d)
    # spec: least fixpoint
    L=set(J0); ch=True
    while ch:
        ch=False
        for x in ns:
            if x not in L and dep[x]&L: L.add(x); ch=True
    exp={x:dep[x]&L for x in ns if dep[x]&L}
    if J!=L or upd!=exp:
        bad+=1
        if bad<3: print("MISMATCH",dep,J0,J,L,upd,exp)
print("bad",bad,"asserts",asserts)
