import logging; logging.disable(logging.CRITICAL)
import io, contextlib
from sim import *
import sim as simmod
random.seed(int(sys.argv[1]) if len(sys.argv)>1 else 0)
viol=[]; runs=0
for t in range(60):
    s=Sim(); simmod.sim=s; SM.run_command=s.run_command
    n=random.randint(1,7); ns=[f"j{i}" for i in range(n)]; order=ns[:]; random.shuffle(order)
    jobs=[(x,random.sample([y for y in ns if y<x],random.randint(0,min(2,len([y for y in ns if y<x])))),random.random()<0.5) for x in order]
    rcs={x:random.choice([0,0,1]) for x in ns}
    mx=random.choice([1,2,None]); size=random.choice([1,2,3]); ta=random.random()<0.5
    cfg=make(jobs, per_node_batch_size=size, max_nodes=mx, try_add_blocked_jobs=ta)
    out=tempfile.mkdtemp()
    with contextlib.redirect_stdout(io.StringIO()):
        JobSubmitter.run_submit_jobs(cfg,out)
        steps=0
        while steps<100:
            steps+=1
            c=status(out)
            if c.config.is_complete: break
            if mx is not None and len(s.active)>mx: viol.append(("C06",jobs,mx,list(s.active)))
            if s.active and random.random()<0.7:
                i=random.choice(list(s.active)); s.finish(out,int(i),rcs)
                if random.random()<0.7: round_(out)
            else:
                before=len(s.sbatch); noact=not s.active
                round_(out)
                if noact and len(s.sbatch)==before and not status(out).config.is_complete: viol.append(("C05-progress",jobs,size,mx,ta))
    runs+=1
    placed=[x for _,_,js in s.sbatch for x in js]
    if len(placed)!=len(set(placed)): viol.append(("C01",jobs,s.sbatch))
    if len({b for _,b,_ in s.sbatch})!=len(s.sbatch): viol.append(("C01-id",s.sbatch))
    c=status(out)
    if not c.config.is_complete: viol.append(("not complete",jobs))
    else:
        res=json.load(open(os.path.join(out,"results.json")))
        got={r["name"]:("canceled" if r["status"]=="canceled" else ("ok" if r["return_code"]==0 else "failed")) for r in res["results"]}
        ref={}
        for x in ns:
            b=[q for q in jobs if q[0]==x][0]
            if b[2] and any(ref[y]!="ok" for y in b[1]): ref[x]="canceled"
            else: ref[x]="ok" if rcs[x]==0 else "failed"
        if got!=ref or res["missing_jobs"]: viol.append(("C03",jobs,rcs,got,ref,res["missing_jobs"]))
    shutil.rmtree(out)
print("runs",runs,"violations",len(viol))
for v in viol[:5]: print(v)
