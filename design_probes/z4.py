from z3 import *
import time
Name = DeclareSort('Name'); SetN = ArraySort(Name, BoolSort())
name = Function('name', IntSort(), Name)
Bk = Function('B', IntSort(), SetN)          # blocked_by of avail[k] (frame: not modified)
n, i, hi0 = Ints('n i hi0'); S, D = Consts('S D', SetN); tryadd = Bool('tryadd')
k, k2 = Ints('k k2'); x = Const('x', Name)
empty = lambda A: ForAll([x], Not(A[x]))
subset = lambda A, B_: ForAll([x], Implies(A[x], B_[x]))
distinct = ForAll([k,k2], Implies(And(0<=k,k<n,0<=k2,k2<n,k!=k2), name(k)!=name(k2)))
def INV(S, D, hi):
    return And(-1<=hi, hi<=n-1,
      ForAll([k], Implies(And(0<=k,k<n,S[name(k)]), k<=hi)),                                   # cursor
      ForAll([k], Implies(And(0<=k,k<n,S[name(k)]), Or(empty(Bk(k)), And(tryadd, subset(Bk(k), S))))),  # (c)
      ForAll([k], Implies(And(0<=k,k<n,k<=hi), Or(S[name(k)], Not(empty(Bk(k)))))),            # I_exam
      ForAll([k], Implies(And(0<=k,k<n,D[name(k)]), And(Not(S[name(k)]), Not(empty(Bk(k)))))), # I_blk
      ForAll([x], Implies(S[x], Exists([k], And(0<=k,k<n,name(k)==x)))))                        # S ⊆ names(avail)
s = Solver(); s.set("timeout", 60000)
s.add(distinct, 0<=i, i<n, INV(S, D, hi0), hi0 >= i-1)
hi1 = If(i>hi0, i, hi0)
inS = S[name(i)]
blocked = And(Not(empty(Bk(i))), Not(And(tryadd, subset(Bk(i), S))))    # is_job_blocked with _job_names == S
app = Bool('app')                                                         # try_append result (nondeterministic: sound over-approx)
S2 = If(inS, S, If(blocked, S, If(app, Store(S, name(i), True), S)))
D2 = If(inS, D, If(blocked, Store(D, name(i), True), If(app, Store(D, name(i), False), D)))
hi2 = If(inS, hi1, If(blocked, hi1, If(app, hi1, If(i==hi1, hi1-1, hi1))))
goal = INV(S2, D2, hi2)
# split conjuncts to see which is hard
for idx, g in enumerate(goal.children()):
    s.push(); s.add(Not(g)); t=time.time(); r=s.check(); print(idx, r, round(time.time()-t,2)); s.pop()
# continuing paths (not the failing-append path, which breaks) must re-establish head relation hi >= (i+1)-1
cont = Or(inS, blocked, app)
s.push(); s.add(cont, Not(hi2 >= i)); print("head-rel", s.check()); s.pop()
