import sys, random, logging
logging.disable(logging.CRITICAL); sys.path.insert(0,"/repo")
from jade.hpc.slurm_manager import SlurmManager
from jade.hpc.common import HpcJobStatus
from jade.models import HpcConfig
from jade.models.hpc import SlurmConfig
random.seed(8); bad=0
P=("gres","mem","nodes","ntasks","ntasks_per_node","partition","qos","tmp","reservation")
for t in range(2000):
    kw={"account":"acct","walltime":random.choice(["4:00:00","1:30:00"])}
    for p in P:
        if random.random()<0.5: kw[p]={"gres":"gpu:2","nodes":3,"ntasks":4,"ntasks_per_node":5}.get(p,p+"v")
    cfg=HpcConfig(hpc_type="slurm",hpc=SlurmConfig(**kw)); m=SlurmManager(cfg)
    got=m._create_submission_script_text("nm","run.sh","/out")
    h=cfg.hpc
    exp=["#!/bin/bash","#SBATCH --account="+h.account,"#SBATCH --job-name=nm","#SBATCH --time="+h.walltime,"#SBATCH --output=/out/job_output_%j.o","#SBATCH --error=/out/job_output_%j.e"]
    exp+=[f"#SBATCH --{p}={getattr(h,p)}" for p in P if getattr(h,p) is not None]+["","srun run.sh"]
    if got!=exp: bad+=1
print("script bad",bad, "fields not covered by spec:", set(SlurmConfig.__fields__)-set(P)-{"account","walltime"})
states="BOOT_FAIL CANCELLED COMPLETED CONFIGURING COMPLETING DEADLINE FAILED NODE_FAIL OUT_OF_MEMORY PENDING PREEMPTED RUNNING RESV_DEL_HOLD REQUEUE_FED REQUEUE_HOLD REQUEUED RESIZING REVOKED SIGNALING SPECIAL_EXIT STAGE_OUT STOPPED SUSPENDED TIMEOUT".split()
out="".join(f"  {i}   {s}  \n" for i,s in enumerate(states))
st=SlurmManager._get_statuses_from_output(out)
print({s for i,s in enumerate(states) if st[str(i)]==HpcJobStatus.COMPLETE}, any(v==HpcJobStatus.NONE for v in st.values()))
