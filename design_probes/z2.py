from z3 import *
import time, itertools
Name = DeclareSort('Name')
name = Function('name', IntSort(), Name)
i, hi0 = Ints('i hi0'); S = Array('S', Name, BoolSort()); appended = Bool('appended')
for N in (1,2,3,4):
    s = Solver()
    s.add(Distinct(*[name(k) for k in range(N)]) if N>1 else True)
    def inv(S,hi): return And(-1<=hi, hi<=N-1, *[Implies(S[name(k)], k<=hi) for k in range(N)])
    s.add(0<=i, i<N, inv(S,hi0), Not(S[name(i)]))
    hi1 = If(i>hi0,i,hi0); S2 = If(appended, Store(S,name(i),True), S); hi2 = If(appended,hi1,hi1-1)
    s.add(Not(inv(S2,hi2)))
    t=time.time(); r=s.check(); print(N, r, round(time.time()-t,3))
    if r==sat:
        m=s.model(); print(m.eval(i), m.eval(hi0), m.eval(appended), [m.eval(S[name(k)]) for k in range(N)]); break
