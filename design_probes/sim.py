import sys, os, re, json, tempfile, shutil, logging, random
sys.path.insert(0, "/repo")
import jade.hpc.slurm_manager as SM
import jade.utils.run_command as RC
from jade.jobs.cluster import Cluster
from jade.jobs.job_submitter import JobSubmitter
from jade.jobs.results_aggregator import ResultsAggregator
from jade.cli.try_submit_jobs import try_submit_jobs
from jade.extensions.generic_command import GenericCommandConfiguration, GenericCommandParameters
from jade.models import SubmitterParams, HpcConfig
from jade.models.hpc import SlurmConfig
from jade.result import Result
from jade.utils.utils import load_data

class Sim:
    def __init__(self): self.next=100; self.active={}; self.sbatch=[]; self.scancel=[]; self.fail_sbatch=set()
    def run_command(self, cmd, output=None, **kw):
        if output is not None: output["stdout"]=""; output["stderr"]=""
        if cmd.startswith("sbatch "):
            script=open(cmd.split()[1]).read(); run=re.search(r"srun (\S+)",script).group(1)
            cfgf=re.search(r"run-jobs (\S+)",open(run).read()).group(1)
            jobs=[ (j["name"], j.get("blocked_by",[]), j.get("cancel_on_blocking_job_failure",False)) for j in load_data(cfgf)["jobs"]]
            bid=int(re.search(r"batch_(\d+)\.json",cfgf).group(1))
            i=self.next; self.next+=1; self.sbatch.append((i,bid,[j[0] for j in jobs]))
            self.active[str(i)]=(bid,jobs); output["stdout"]=f"Submitted batch job {i}\n"; return 0
        if cmd.startswith("squeue"):
            output["stdout"]="".join(f"{i} RUNNING\n" for i in self.active); return 0
        if cmd.startswith("scancel"):
            i=cmd.split()[1]; self.scancel.append(i); self.active.pop(i,None); return 0
        return 0
    def finish(self, out, i, rcs):
        bid,jobs=self.active.pop(str(i)); res={}
        pending=list(jobs)
        while pending:
            for j in list(pending):
                n,b,f=j; b=[x for x in b if x in {q[0] for q in jobs}]
                if all(x in res for x in b):
                    if f and any(res[x]!=0 for x in b): res[n]=1; ResultsAggregator.append(out,Result(n,1,"canceled",0.0,hpc_job_id=str(i)),batch_id=bid)
                    else: res[n]=rcs.get(n,0); ResultsAggregator.append(out,Result(n,res[n],"finished",1.0,hpc_job_id=str(i)),batch_id=bid)
                    pending.remove(j)
sim=Sim()
SM.run_command=sim.run_command
import jade.jobs.job_submitter as JS
JS.JobSubmitter._save_repository_info=lambda self,reg: None
def make(jobs, **kw):
    cfg=GenericCommandConfiguration()
    for n,b,f in jobs: cfg.add_job(GenericCommandParameters(command="true",name=n,blocked_by=set(b),cancel_on_blocking_job_failure=f))
    cfg.assign_default_submission_group(SubmitterParams(generate_reports=False,resource_monitor_type="none",hpc_config=HpcConfig(hpc_type="slurm",hpc=SlurmConfig(account="x")),**kw))
    return cfg
def round_(out):
    try: try_submit_jobs.callback(out, False)
    except SystemExit as e: return e.code
def status(out):
    c,_=Cluster.deserialize(out,deserialize_jobs=True); return c
