import sys, itertools, os, tempfile, shutil, logging, random
logging.disable(logging.CRITICAL)
sys.path.insert(0, "/repo")
from jade.hpc.hpc_submitter import HpcSubmitter
from jade.jobs.results_aggregator import ResultsAggregator
from jade.models import Job, JobState
from jade.result import Result

class FakeCluster:
    def __init__(self, jobs): self.jobs = jobs
    def iter_jobs(self, state=None):
        for j in self.jobs:
            if state is not None and j.state != state: continue
            yield j

def run_case(jobs_spec, results):
    # jobs_spec: list of (name, blocked_by, flag, state); results: list of (name, rc) split over 2 node files
    d = tempfile.mkdtemp(); os.makedirs(os.path.join(d, "results"))
    ResultsAggregator.create(d)
    for k, (n, rc) in enumerate(results):
        ResultsAggregator.append(d, Result(n, rc, "finished", 1.0, hpc_job_id="1"), batch_id=1 + k % 2)
    jobs = [Job(name=n, blocked_by=set(b), cancel_on_blocking_job_failure=f, state=s) for n, b, f, s in jobs_spec]
    s = HpcSubmitter.__new__(HpcSubmitter); s._cluster = FakeCluster(jobs); s._output = d
    comp, canc = s._update_completed_jobs()
    rows = ResultsAggregator.list_results(d)
    shutil.rmtree(d)
    return jobs, comp, canc, rows

def spec(jobs_spec, results):
    F = {n for n, rc in results if rc != 0}; C = {n for n, rc in results}
    canceled = set()
    changed = True
    while changed:
        changed = False
        for n, b, f, st in jobs_spec:
            if st == JobState.NOT_SUBMITTED and n not in canceled and b and f and (set(b) & (F | canceled)):
                canceled.add(n); changed = True
    return canceled, C | canceled

random.seed(1)
names = "abcde"; bad = 0; cases = 0
for trial in range(4000):
    n = random.randint(2, 5); ns = list(names[:n]); random.shuffle(ns)
    k = random.randint(1, n - 1)
    done_part, ns_part = ns[:k], ns[k:]            # done_part: submitted jobs that produce results now
    results = [(x, random.choice([0, 0, 1])) for x in done_part if random.random() < 0.8]
    jobs_spec = [(x, [], False, JobState.SUBMITTED) for x in done_part]
    for x in ns_part:
        cand = [y for y in ns if y != x]
        b = random.sample(cand, random.randint(0, min(2, len(cand))))
        jobs_spec.append((x, b, random.random() < 0.6, JobState.NOT_SUBMITTED))
    random.shuffle(jobs_spec)
    jobs, comp, canc, rows = run_case(jobs_spec, results)
    exp_canceled, exp_comp = spec(jobs_spec, results)
    cases += 1
    got_canceled = {j.name for j in canc}
    ok = got_canceled == exp_canceled and comp == exp_comp and len(canc) == len(got_canceled)
    byname = {j.name: j for j in jobs}
    for nme, b, f, st in jobs_spec:
        if st == JobState.NOT_SUBMITTED:
            j = byname[nme]
            if nme in exp_canceled: ok &= (j.state == JobState.DONE and not j.blocked_by)
            else: ok &= (j.state == JobState.NOT_SUBMITTED and j.blocked_by == set(b) - exp_comp)
    crow = [r for r in rows if r.status == "canceled"]
    ok &= sorted(r.name for r in crow) == sorted(exp_canceled) and all(r.return_code == 1 for r in crow)
    ok &= sorted(r.name for r in rows if r.status == "finished") == sorted(x for x, _ in results)
    if not ok:
        bad += 1
        if bad < 3: print("MISMATCH", jobs_spec, results, got_canceled, exp_canceled, comp, exp_comp)
print("cases", cases, "bad", bad)
